package main

import (
	"fmt"
	"go/token"
	"go/types"
	"strings"

	"golang.org/x/tools/go/ssa"
)

func init() {
	register(&propDef{
		id:  "C14",
		run: runC14,
		explanation: "Decided (structural, for every decodable request message): " +
			"C14.wirenil — nil-ability of protobuf message pointers is computed from the generated structs (singular message-typed fields of messages may be nil after decoding; oneof wrapper members and repeated elements are allocated by the decoder) and propagated through parameters to a fixpoint over module call sites; in everything reachable from the gRPC handler every field access through a possibly-nil message pointer is dominated by a nil test (generated nil-safe getters count as guards); " +
			"C14.exprnil — the protobuf-to-expression conversion never returns a nil Expression together with a nil error (every successful return — of the conversion, or of the helper whose results a case returns — yields a freshly allocated node, and the default case of the oneof switch is an error), and a converted operand is used only where its conversion error is known to be nil, so Execute never calls a method on a nil Expression that came from the wire; " +
			"C14.slicecap — refutation of re-slicings in the evaluation code: where the capacity is evident (fixed array, make) and the bound is linear in one length, no length allowed by the dominating tests makes the bound exceed the capacity; " +
			"C14.bounds — every slice indexing in the module code a request reaches (the handler's own code, the conversion package, the evaluation code reachable from Execute) is a range-loop index or is dominated by a length test (operand lists can be empty on the wire, query ids are chosen by the client) — for a constant index into a slice parameter of an unexported function that is only ever called directly, the test may dominate every call instead, on the argument or on the list the argument is the element-wise evaluation image of (one result per operand, error known nil); a test on another list (the operands before nested operators were spliced in) does not count; an index that is tested to be non-negative and below another index that is valid there is accepted as well; " +
			"C14.divzero — every integer division or remainder in that code has a divisor that is a non-zero constant or is known non-zero from a dominating test (every list of a decodable request can be empty); " +
			"C14.errors — conversion and execution errors (unknown columns included) are returned from the handler as RPC errors, with a nil response; where they arise in a helper of the handler's package, the helper returns them and the handler treats the helper's error the same way; where they arise in a function handed to a helper that calls it for every query (a map helper), that helper only calls it, returns an error wherever the function's error is non-nil, and its error is treated the same way where it is called. " +
			"NOT decided: stack depth for deeply nested expressions (bounded by protobuf-go's recursion limit and gRPC's message size limit, trusted); that the server keeps answering correctly afterwards beyond the read lock being released by its defer (C04).",
		assumptions: []string{"protobuf-go allocates oneof wrapper members and repeated message elements when decoding", "grpc-go does not recover handler panics (so the rules are necessary)", "go/ssa, dominance"},
	})
}

type nilAn struct {
	c        *Ctx
	msgs     map[*types.Named]bool // pb messages (ProtoReflect)
	nilParam map[*ssa.Parameter]bool
}

func isPBMessage(c *Ctx, t types.Type) bool {
	p, ok := t.(*types.Pointer)
	if !ok {
		return false
	}
	n, ok := p.Elem().(*types.Named)
	if !ok || n.Obj().Pkg() == nil || n.Obj().Pkg().Path() != pkgProto {
		return false
	}
	// messages have a ProtoReflect method; oneof wrappers do not
	for i := 0; i < n.NumMethods(); i++ {
		if n.Method(i).Name() == "ProtoReflect" {
			return true
		}
	}
	return false
}

func (na *nilAn) nilable(v ssa.Value, depth int) bool {
	if depth > 8 {
		return true
	}
	v = peel(v)
	if !isPBMessage(na.c, v.Type()) {
		return false
	}
	switch x := v.(type) {
	case *ssa.Const:
		return x.IsNil()
	case *ssa.Alloc:
		return false
	case *ssa.Parameter:
		return na.nilParam[x]
	case *ssa.Phi:
		for _, e := range x.Edges {
			if na.nilable(e, depth+1) {
				return true
			}
		}
		return false
	case *ssa.UnOp:
		if fa, ok := x.X.(*ssa.FieldAddr); ok {
			owner := fa.X.Type()
			if isPBMessage(na.c, owner) {
				return true // singular message-typed field of a message
			}
			return false // member of a oneof wrapper: allocated by the decoder
		}
		if _, ok := x.X.(*ssa.IndexAddr); ok {
			return false // element of a repeated field
		}
		return true
	case *ssa.Extract:
		if _, ok := x.Tuple.(*ssa.TypeAssert); ok {
			return false
		}
		if _, ok := x.Tuple.(*ssa.Next); ok {
			return false
		}
		return true
	case *ssa.Call:
		if f := calleeFunc(&x.Call); f != nil && na.c.w.pkgPathOf(f) == pkgProto {
			return true // getters return the (possibly nil) field
		}
		if f := calleeFunc(&x.Call); f != nil && na.c.w.inModule(f) {
			return false
		}
		return false
	case *ssa.TypeAssert:
		return false
	}
	return true
}

func runC14(c *Ctx) {
	if !c.need("C14.wirenil", c.a.ServerQuery, c.a.ToQuery, c.a.ToExpr, c.a.Execute) {
		return
	}
	re := c.w.reach(c.a.ServerQuery)
	na := &nilAn{c: c, nilParam: map[*ssa.Parameter]bool{}}
	// scope: module functions reachable from the handler that handle protobuf messages, outside the generated package
	var scope []*ssa.Function
	for _, fn := range re.sorted() {
		if c.w.pkgPathOf(fn) == pkgProto {
			continue
		}
		scope = append(scope, fn)
	}
	// fixpoint over parameters
	for changed := true; changed; {
		changed = false
		for _, fn := range scope {
			allInstrs(fn, func(i ssa.Instruction) {
				cc := callCommon(i)
				if cc == nil {
					return
				}
				callee := calleeFunc(cc)
				if callee == nil || !c.w.inModule(callee) || c.w.pkgPathOf(callee) == pkgProto {
					return
				}
				for k, a := range cc.Args {
					if k >= len(callee.Params) || !isPBMessage(c, a.Type()) {
						continue
					}
					if na.nilable(a, 0) && !c.fc.nonNilAt(a, i) && !na.nilParam[callee.Params[k]] {
						na.nilParam[callee.Params[k]] = true
						changed = true
					}
				}
			})
		}
	}
	nDeref := 0
	for _, fn := range scope {
		allInstrs(fn, func(i ssa.Instruction) {
			switch x := i.(type) {
			case *ssa.FieldAddr:
				if !isPBMessage(c, x.X.Type()) || !na.nilable(x.X, 0) {
					return
				}
				nDeref++
				fld := fieldOf(x.X.Type(), x.Field)
				key := fmt.Sprintf("%s: %s.%s", safeFname(fn), namedOf(x.X.Type()).Obj().Name(), fld.Name())
				c.r.check(c.fc.nonNilAt(x.X, x), "C14.wirenil", key, "guarded by a nil test",
					"a field is read through a message pointer that can be nil after decoding a structurally incomplete request (missing expression / operand), without a dominating nil test: the handler panics and, as grpc-go does not recover, the server process dies",
					c.w.ipos(i))
			case *ssa.Call:
				cc := &x.Call
				f := calleeFunc(cc)
				if f == nil || f.Signature.Recv() == nil || len(cc.Args) == 0 || !isPBMessage(c, cc.Args[0].Type()) {
					return
				}
				if c.w.pkgPathOf(f) == pkgProto {
					return // generated methods (getters, ProtoReflect, String) are nil-safe
				}
				if na.nilable(cc.Args[0], 0) {
					nDeref++
					key := fmt.Sprintf("%s: call %s", safeFname(fn), safeFname(f))
					c.r.check(c.fc.nonNilAt(cc.Args[0], x), "C14.wirenil", key, "guarded by a nil test", "method called on a possibly nil message", c.w.ipos(i))
				}
			}
		})
	}
	c.r.Stats["possibly_nil_dereferences_examined"] = nDeref
	if nDeref == 0 {
		c.r.undecided("C14.wirenil", "scope", "no dereference of a possibly-nil message found in the handler's reachable set; the rule expects the conversion to read Query.Expr and Not.Expr")
	}
	c.r.expect("C14.wirenil", 1)

	// ---- exprnil
	te := c.a.ToExpr
	if nRet := c14ExprReturns(c, te, te, 0, map[*ssa.Function]bool{}); nRet == 0 {
		c.r.undecided("C14.exprnil", safeFname(te), "no successful return")
	}
	// the expression a conversion yields is used (stored as operand / as the query's expression) only where its error is known to be nil
	for _, fn := range c.w.ModFuncs {
		if c.w.pkgPathOf(fn) != pkgConvert {
			continue
		}
		k := 0
		allInstrs(fn, func(i ssa.Instruction) {
			call, ok := i.(*ssa.Call)
			if !ok || calleeFunc(&call.Call) != c.a.ToExpr {
				return
			}
			k++
			key := fmt.Sprintf("%s: toExpr call#%d", safeFname(fn), k)
			val, errv := extractOf(call, 0), extractOf(call, 1)
			switch {
			case val == nil:
				c.r.ok("C14.exprnil", key, "result unused", c.w.ipos(call))
			case errv == nil || !c.fc.errTested(fn, errv, val):
				c.r.bad("C14.exprnil", key, "the converted operand is used without its error having been tested: a failed conversion puts a nil Expression into the tree and Execute panics on it", []string{c.w.ipos(call)})
			default:
				c.r.ok("C14.exprnil", key, "operand used only where the conversion error is nil", c.w.ipos(call))
			}
		})
	}
	// ---- bounds: operand lists may be empty on the wire (an AND/OR without operands decodes fine): every slice index in
	// the evaluation code must be covered by a length test or be a range-loop index
	// Scope: the evaluation code and, as indices can also come from the wire there (query ids, positions), the
	// handler's own code and the conversion package — everything in the module a request reaches (c14HandlerCode).
	handlerCode := c14HandlerCode(c)
	nIdx := 0
	for _, fn := range handlerCode {
		if isSortLess(fn) {
			continue // indices are supplied by package sort for the slice being sorted (trusted)
		}
		allInstrs(fn, func(i ssa.Instruction) {
			ia, ok := i.(*ssa.IndexAddr)
			if !ok {
				return
			}
			if _, isSlice := ia.X.Type().Underlying().(*types.Slice); !isSlice {
				return
			}
			nIdx++
			key := fmt.Sprintf("%s: index#%d", safeFname(fn), nIdx)
			okB, why := false, ""
			if k, isK := constInt(ia.Index); isK {
				okB = k >= 0 && lenAtLeast(ia.X, k+1, ia)
				why = "constant index without a dominating length test"
				// the indexed slice is a parameter and the length is guaranteed where the function is called (rules_ag28.go)
				if !okB && k >= 0 && c14IndexByCallers(c, ia, k+1) {
					okB = true
				}
			} else {
				okB, why = c.fc.indexInBounds(ia.X, ia.Index, ia)
				if !okB && c14BelowValidIndex(c.fc, ia.X, ia.Index, ia) {
					okB = true // 0 <= index < another index that is valid here (rules_ag31.go)
				}
			}
			c.r.check(okB, "C14.bounds", key, "index covered by a length test / range loop",
				"a slice is indexed while a request is handled without a bounds guarantee ("+why+"): an operator with an empty operand list or an index computed from a number the client chose (a query id), both of which decode fine from the wire, makes the handler panic", c.w.ipos(i))
		})
	}
	c.r.Stats["evaluation_slice_indexings"] = nIdx
	c14SliceCap(c)
	c14DivZero(c, handlerCode)

	// ---- errors in the handler (and in the helpers of its package that handle one query on its behalf)
	sq := c.a.ServerQuery
	hscope, sites := handlerErrSites(c, sq, func(f *ssa.Function) bool { return f == c.a.ToQuery || f == c.a.Execute })
	for _, s := range sites {
		out := errEndsRequest(c, sq, hscope, s.f, s.call, 0)
		key := fmt.Sprintf("%s: %s", safeFname(s.f), safeFname(s.callee))
		if out.ok {
			c.r.ok("C14.errors", key, out.msg, c.w.ipos(s.call))
		} else {
			c.r.bad("C14.errors", key, "the error does not become an RPC error: "+out.msg, []string{c.w.ipos(out.site)}, c.fc.witnessStrings(out.witness)...)
		}
	}
	c.r.expect("C14.errors", 2)
}

// isSortLess: fn is a function literal passed as the less function to sort.Slice / sort.SliceStable.
func isSortLess(fn *ssa.Function) bool {
	parent := fn.Parent()
	if parent == nil {
		return false
	}
	found := false
	allInstrs(parent, func(i ssa.Instruction) {
		cc := callCommon(i)
		if cc == nil {
			return
		}
		n := calleeName(cc)
		if n != "sort.Slice" && n != "sort.SliceStable" && n != "slices.SortFunc" {
			return
		}
		for _, a := range cc.Args {
			if mc, ok := a.(*ssa.MakeClosure); ok && mc.Fn == fn {
				found = true
			}
			if f, ok := a.(*ssa.Function); ok && f == fn {
				found = true
			}
		}
	})
	return found
}

// ---- slice bounds by refutation -------------------------------------------------------------------------------
//
// C14.slicecap: a re-slicing `x[:h]` panics when h exceeds cap(x). For re-slicings in the evaluation code whose
// capacity is known (a fixed-size array, or make with a computed size) and whose bound is a linear function of one
// length (len(operand keys), say), the rule looks for a length inside the interval allowed by the dominating tests for
// which the bound exceeds the capacity, and reports it. It is a refutation: shapes it cannot express are skipped, not
// reported.

type linF struct {
	atom string // "" = constant
	a, b int64  // a*atom + b
}

func linForm(v ssa.Value, depth int) (linF, bool) {
	if depth > 8 {
		return linF{}, false
	}
	v = peelConv(v)
	if k, ok := constInt(v); ok {
		return linF{"", 0, k}, true
	}
	switch x := v.(type) {
	case *ssa.Call:
		if b, ok := x.Call.Value.(*ssa.Builtin); ok && b.Name() == "len" {
			return linF{fmt.Sprintf("len:%p", peelConv(x.Call.Args[0])), 1, 0}, true
		}
	case *ssa.BinOp:
		l, ok1 := linForm(x.X, depth+1)
		r, ok2 := linForm(x.Y, depth+1)
		if !ok1 || !ok2 {
			break
		}
		switch x.Op {
		case token.ADD, token.SUB:
			if l.atom != "" && r.atom != "" && l.atom != r.atom {
				break
			}
			at := l.atom
			if at == "" {
				at = r.atom
			}
			if x.Op == token.ADD {
				return linF{at, l.a + r.a, l.b + r.b}, true
			}
			return linF{at, l.a - r.a, l.b - r.b}, true
		case token.MUL:
			if l.atom == "" {
				return linF{r.atom, l.b * r.a, l.b * r.b}, true
			}
			if r.atom == "" {
				return linF{l.atom, r.b * l.a, r.b * l.b}, true
			}
		case token.SHL:
			if r.atom == "" && r.b >= 0 && r.b < 32 {
				m := int64(1) << uint(r.b)
				return linF{l.atom, m * l.a, m * l.b}, true
			}
		}
	}
	return linF{fmt.Sprintf("v:%p", v), 1, 0}, true
}

// capForm: the capacity of slice/array value x as a linear form, if it is evident.
func capForm(x ssa.Value) (linF, bool) {
	switch y := x.(type) {
	case *ssa.Alloc:
		if n, ok := arrayLen(y.Type()); ok {
			return linF{"", 0, n}, true
		}
	case *ssa.Slice:
		if y.Max != nil {
			return linF{}, false
		}
		if al, ok := y.X.(*ssa.Alloc); ok {
			if n, ok := arrayLen(al.Type()); ok {
				lo := int64(0)
				if y.Low != nil {
					k, isK := constInt(y.Low)
					if !isK {
						return linF{}, false
					}
					lo = k
				}
				return linF{"", 0, n - lo}, true
			}
		}
	case *ssa.MakeSlice:
		return linForm(y.Cap, 0)
	}
	return linF{}, false
}

func c14SliceCap(c *Ctx) {
	const rule = "C14.slicecap"
	ere := c.w.reach(c.a.Execute)
	examined, n := 0, 0
	for _, fn := range ere.sorted() {
		if c.w.pkgPathOf(fn) != pkgRoot {
			continue
		}
		allInstrs(fn, func(i ssa.Instruction) {
			sl, ok := i.(*ssa.Slice)
			if !ok || sl.High == nil {
				return
			}
			high, ok := linForm(sl.High, 0)
			if !ok {
				return
			}
			// candidates: (operand, facts that hold when it is the operand)
			type cand struct {
				x     ssa.Value
				facts []cmp
			}
			var cands []cand
			if phi, isPhi := sl.X.(*ssa.Phi); isPhi {
				for k, e := range phi.Edges {
					cands = append(cands, cand{e, append(cmpsOnEdge(phi.Block().Preds[k], phi.Block()), cmpsAt(sl)...)})
				}
			} else {
				cands = append(cands, cand{sl.X, cmpsAt(sl)})
			}
			for k, cd := range cands {
				cp, ok := capForm(cd.x)
				if !ok {
					continue
				}
				if cp.atom != "" && high.atom != "" && cp.atom != high.atom {
					continue
				}
				examined++
				atom := high.atom
				if atom == "" {
					atom = cp.atom
				}
				// interval of the atom
				lo, hi := int64(0), int64(1)<<40
				hiKnown := false
				if atom == "" {
					lo, hi, hiKnown = 0, 0, true
				} else if !strings.HasPrefix(atom, "len:") {
					lo = -(int64(1) << 40)
				}
				for _, cm := range cd.facts {
					if cm.Y == nil {
						continue
					}
					l, ok1 := linForm(cm.X, 0)
					r, ok2 := linForm(cm.Y, 0)
					if !ok1 || !ok2 {
						continue
					}
					if (l.atom != "" && l.atom != atom) || (r.atom != "" && r.atom != atom) {
						continue
					}
					// p*atom + q  op  0
					p, q := l.a-r.a, l.b-r.b
					if p == 0 {
						continue
					}
					op := cm.Op
					if p < 0 {
						p, q = -p, -q
						op = swapOp(op)
					}
					// p*atom op -q, p > 0
					switch op {
					case token.LSS: // atom < -q/p
						u := floorDiv(-q-1, p)
						if u < hi {
							hi, hiKnown = u, true
						}
					case token.LEQ:
						u := floorDiv(-q, p)
						if u < hi {
							hi, hiKnown = u, true
						}
					case token.GTR:
						l2 := floorDiv(-q, p) + 1
						if l2 > lo {
							lo = l2
						}
					case token.GEQ:
						l2 := -floorDiv(q, p)
						if l2 > lo {
							lo = l2
						}
					case token.EQL:
						if (-q)%p == 0 {
							lo, hi, hiKnown = -q/p, -q/p, true
						}
					}
				}
				if lo > hi {
					continue // infeasible
				}
				d1, d0 := high.a-cp.a, high.b-cp.b
				bad, at := false, int64(0)
				switch {
				case d1 == 0:
					bad = d0 > 0
					at = lo
				case d1 > 0:
					if hiKnown && d1*hi+d0 > 0 {
						bad, at = true, hi
					}
				default:
					if d1*lo+d0 > 0 {
						bad, at = true, lo
					}
				}
				n++
				key := fmt.Sprintf("%s: reslice#%d", safeFname(fn), n)
				if len(cands) > 1 {
					key += fmt.Sprintf(" (operand %d)", k+1)
				}
				if bad {
					c.r.bad(rule, key, fmt.Sprintf("a slice is cut to a length that can exceed its capacity: for a length of %d the bound is %d but the capacity only %d — the evaluation panics (slice bounds out of range) and takes the server down", at, high.a*at+high.b, cp.a*at+cp.b), []string{c.w.ipos(sl)})
				} else {
					c.r.ok(rule, key, "bound never exceeds the capacity within the lengths the dominating tests allow", c.w.ipos(sl))
				}
			}
		})
	}
	c.r.Stats["reslicings_examined"] = examined
	if n == 0 {
		c.r.ok(rule, "evaluation code", "no re-slicing with an evident capacity and a linear bound in the evaluation code")
	}
}

func floorDiv(a, b int64) int64 {
	q := a / b
	if (a%b != 0) && ((a < 0) != (b < 0)) {
		q--
	}
	return q
}
