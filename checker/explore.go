package main

// A small path-sensitive explorer over the SSA CFG of one function: it enumerates paths (loops unrolled a bounded number
// of times), resolves phis by the edge actually taken and local variable cells by the last store, lets a rule prune
// infeasible branches (e.g. `x != nil` when x is known to be nil on this path) and observe instructions with resolved
// operands. Used by the typestate rules (C05.persist, C05.txlife). Nothing is executed: values are SSA values and
// abstract instance numbers.

import (
	"go/token"
	"go/types"

	"golang.org/x/tools/go/ssa"
)

// fieldCell names field idx of the local struct variable base (an Alloc).
type fieldCell struct {
	base ssa.Value
	idx  int
}

type xState struct {
	phi   map[*ssa.Phi]ssa.Value  // value each phi currently stands for on this path (a non-phi SSA value)
	cell  map[ssa.Value]ssa.Value // last value stored into a local cell (Alloc) on this path
	fcell map[fieldCell]ssa.Value // last value stored into a field of a local struct variable on this path
	inst  map[ssa.Value]int       // number of the latest execution of an instance-creating instruction
	next  int
	user  map[string]int    // rule state (small integers / flags), copied on branching
	bval  map[ssa.Value]int // boolean SSA values whose outcome the rule's cond hook decided when they were computed on this path (a flag such as `startNew := bm == nil` keeps that outcome while bm moves on)
	trail []*ssa.BasicBlock
}

func (s *xState) clone() *xState {
	n := &xState{phi: map[*ssa.Phi]ssa.Value{}, cell: map[ssa.Value]ssa.Value{}, fcell: map[fieldCell]ssa.Value{}, inst: map[ssa.Value]int{}, next: s.next, user: map[string]int{}, bval: map[ssa.Value]int{}}
	for k, v := range s.bval {
		n.bval[k] = v
	}
	for k, v := range s.fcell {
		n.fcell[k] = v
	}
	for k, v := range s.phi {
		n.phi[k] = v
	}
	for k, v := range s.cell {
		n.cell[k] = v
	}
	for k, v := range s.inst {
		n.inst[k] = v
	}
	for k, v := range s.user {
		n.user[k] = v
	}
	n.trail = append([]*ssa.BasicBlock{}, s.trail...)
	return n
}

// resolve follows phis and loads of local cells to the SSA value the operand stands for on this path.
func (s *xState) resolve(v ssa.Value) ssa.Value {
	for n := 0; n < 32; n++ {
		switch x := v.(type) {
		case *ssa.Phi:
			r, ok := s.phi[x]
			if !ok {
				return v
			}
			v = r
			continue
		case *ssa.UnOp:
			if x.Op == token.MUL {
				if cv, ok := s.cell[peelCell(x.X)]; ok {
					v = cv
					continue
				}
				// a field of a local struct variable: the last store on this path, or the zero value (nil for pointers)
				// of a variable that was declared without initialiser and whose address did not go anywhere else
				if fa, ok := x.X.(*ssa.FieldAddr); ok {
					if al, ok := peelCell(fa.X).(*ssa.Alloc); ok {
						if cv, ok := s.fcell[fieldCell{al, fa.Field}]; ok {
							v = cv
							continue
						}
						if zeroInitLocalStruct(al) {
							if _, isPtr := x.Type().Underlying().(*types.Pointer); isPtr {
								return ssa.NewConst(nil, x.Type())
							}
						}
					}
				}
			}
		case *ssa.ChangeType:
			v = x.X
			continue
		}
		return v
	}
	return v
}

// instanceOf returns the instance number of the object v denotes on this path (0 if v is not a tracked creation).
func (s *xState) instanceOf(v ssa.Value) int {
	return s.inst[s.resolve(v)]
}

type xHooks struct {
	// creates: does executing this instruction create a new tracked instance (its value gets a fresh instance number)?
	creates func(ins ssa.Instruction) (ssa.Value, bool)
	// instr observes an instruction (operands to be resolved through st); return true to abandon this path.
	instr func(st *xState, ins ssa.Instruction) bool
	// cond evaluates a branch condition: 1 true, 0 false, -1 unknown (both branches are explored).
	cond func(st *xState, c ssa.Value) int
	// ret is called at every Return that is reached.
	ret func(st *xState, r *ssa.Return)
}

// explore enumerates paths from the entry of fn. It returns false if the path budget was exhausted.
func (fc *flowCtx) explore(fn *ssa.Function, h xHooks, maxVisits, maxSteps int) bool {
	steps := 0
	ok := true
	var run func(b, prev *ssa.BasicBlock, st *xState, visits map[*ssa.BasicBlock]int)
	run = func(b, prev *ssa.BasicBlock, st *xState, visits map[*ssa.BasicBlock]int) {
		if !ok {
			return
		}
		if visits[b] >= maxVisits {
			return
		}
		steps++
		if steps > maxSteps {
			ok = false
			return
		}
		v2 := map[*ssa.BasicBlock]int{}
		for k, n := range visits {
			v2[k] = n
		}
		v2[b]++
		st.trail = append(st.trail, b)
		// phis are evaluated simultaneously on entry
		if prev != nil {
			newPhi := map[*ssa.Phi]ssa.Value{}
			for _, ins := range b.Instrs {
				phi, isPhi := ins.(*ssa.Phi)
				if !isPhi {
					break
				}
				for k, p := range b.Preds {
					if p == prev {
						newPhi[phi] = st.resolve(phi.Edges[k])
					}
				}
			}
			for k, v := range newPhi {
				st.phi[k] = v
			}
		}
		for _, ins := range b.Instrs {
			switch x := ins.(type) {
			case *ssa.Phi:
				continue
			case *ssa.Store:
				if _, isCell := peelCell(x.Addr).(*ssa.Alloc); isCell {
					if _, isFA := x.Addr.(*ssa.FieldAddr); !isFA {
						st.cell[peelCell(x.Addr)] = st.resolve(x.Val)
					}
				}
				if fa, isFA := x.Addr.(*ssa.FieldAddr); isFA {
					if al, ok := peelCell(fa.X).(*ssa.Alloc); ok {
						st.fcell[fieldCell{al, fa.Field}] = st.resolve(x.Val)
					}
				}
			case *ssa.If:
				r := -1
				// a condition that is (a negation of) a boolean decided earlier on this path — directly, through a local
				// flag variable or a phi of such outcomes and constants
				{
					cv, neg := x.Cond, false
					for k := 0; k < 8; k++ {
						if u, ok := cv.(*ssa.UnOp); ok && u.Op == token.NOT {
							cv, neg = u.X, !neg
							continue
						}
						rv := st.resolve(cv)
						if rv == cv {
							break
						}
						cv = rv
					}
					if k, ok := cv.(*ssa.Const); ok {
						if bv, isBool := constBool(k); isBool {
							r = 0
							if bv {
								r = 1
							}
						}
					} else if bv, ok := st.bval[cv]; ok {
						r = bv
					}
					if r >= 0 && neg {
						r = 1 - r
					}
				}
				if r < 0 && h.cond != nil {
					r = h.cond(st, x.Cond)
				}
				if r != 0 {
					run(b.Succs[0], b, st.clone(), v2)
				}
				if r != 1 {
					run(b.Succs[1], b, st.clone(), v2)
				}
				return
			case *ssa.Jump:
				run(b.Succs[0], b, st, v2)
				return
			case *ssa.Return:
				if h.ret != nil {
					h.ret(st, x)
				}
				return
			case *ssa.Panic:
				return
			}
			// remember the outcome of a comparison the rule can decide now: its operands may stand for other values later
			if bo, isCmp := ins.(*ssa.BinOp); isCmp && h.cond != nil && (bo.Op == token.EQL || bo.Op == token.NEQ) {
				if r := h.cond(st, bo); r >= 0 {
					st.bval[bo] = r
				} else {
					delete(st.bval, bo)
				}
			}
			if h.creates != nil {
				if v, isNew := h.creates(ins); isNew {
					st.next++
					st.inst[v] = st.next
				}
			}
			if h.instr != nil && h.instr(st, ins) {
				return
			}
			if fc.diverges(ins) {
				return
			}
		}
	}
	st := &xState{phi: map[*ssa.Phi]ssa.Value{}, cell: map[ssa.Value]ssa.Value{}, fcell: map[fieldCell]ssa.Value{}, inst: map[ssa.Value]int{}, user: map[string]int{}, bval: map[ssa.Value]int{}}
	run(fn.Blocks[0], nil, st, map[*ssa.BasicBlock]int{})
	return ok
}

// nilCond evaluates `x == nil` / `x != nil` (and negations) when x resolves to the nil constant or to a value that is
// non-nil by construction (a tracked instance, an allocation); -1 otherwise.
func nilCond(st *xState, c ssa.Value) int {
	neg := false
	for {
		if u, ok := c.(*ssa.UnOp); ok && u.Op == token.NOT {
			c, neg = u.X, !neg
			continue
		}
		break
	}
	b, ok := c.(*ssa.BinOp)
	if !ok || (b.Op != token.EQL && b.Op != token.NEQ) {
		return -1
	}
	var x ssa.Value
	if isNilConst(b.Y) {
		x = b.X
	} else if isNilConst(b.X) {
		x = b.Y
	} else {
		return -1
	}
	r := st.resolve(x)
	isNil := -1
	if isNilConst(r) {
		isNil = 1
	} else if st.inst[r] != 0 || nonNilByConstruction(r) {
		isNil = 0
	}
	if isNil < 0 {
		return -1
	}
	res := isNil
	if b.Op == token.NEQ {
		res = 1 - res
	}
	if neg {
		res = 1 - res
	}
	return res
}

func (st *xState) trailStrings(w *World) []string {
	var out []string
	last := ""
	for _, b := range st.trail {
		for _, i := range b.Instrs {
			if i.Pos().IsValid() {
				s := w.pos(i.Pos())
				if s != last {
					out = append(out, s)
					last = s
				}
				break
			}
		}
	}
	if len(out) > 24 {
		out = append(out[:12], append([]string{"…"}, out[len(out)-11:]...)...)
	}
	return out
}

// zeroInitLocalStruct: al is a local struct variable that starts out zeroed (`var x T`): no whole-struct store ever
// initialises it (only field stores, field loads, and uses of its address as a call argument / method receiver).
func zeroInitLocalStruct(al *ssa.Alloc) bool {
	if _, ok := al.Type().Underlying().(*types.Pointer).Elem().Underlying().(*types.Struct); !ok {
		return false
	}
	for _, r := range referrers(al) {
		if st, ok := r.(*ssa.Store); ok && st.Addr == ssa.Value(al) {
			return false
		}
	}
	return true
}
