package main

import (
	"bufio"
	"encoding/json"
	"fmt"
	"os"
	"path/filepath"
	"sort"
	"strings"
)

// An Ob is one rule instance evaluated on one construct of /repo.
type Ob struct {
	Rule      string   `json:"rule"`      // e.g. C03.keyhash
	Construct string   `json:"construct"` // e.g. (*ExprAnd).cacheKey
	Status    string   `json:"status"`    // discharged | violated | undecided
	Sites     []string `json:"sites,omitempty"`
	Msg       string   `json:"msg,omitempty"`
	Witness   []string `json:"witness,omitempty"`
}

func (o *Ob) Key() string { return o.Rule + "[" + o.Construct + "]" }

type Report struct {
	Prop  string
	Obs   []*Ob
	Notes []string
	min   map[string]int
	Stats map[string]int
	seen  map[string]*Ob
}

func newReport(prop string) *Report {
	return &Report{Prop: prop, min: map[string]int{}, Stats: map[string]int{}, seen: map[string]*Ob{}}
}

func (r *Report) add(status, rule, construct, msg string, sites []string, witness []string) *Ob {
	o := &Ob{Rule: rule, Construct: construct, Status: status, Msg: msg, Sites: sites, Witness: witness}
	// same key reported twice (e.g. under two tag sets): keep the worst
	if prev := r.seen[o.Key()]; prev != nil {
		if rank(status) > rank(prev.Status) {
			*prev = *o
		}
		return prev
	}
	r.seen[o.Key()] = o
	r.Obs = append(r.Obs, o)
	return o
}

func rank(s string) int {
	switch s {
	case "violated":
		return 2
	case "undecided":
		return 1
	}
	return 0
}

func (r *Report) ok(rule, construct, msg string, sites ...string) {
	r.add("discharged", rule, construct, msg, sites, nil)
}
func (r *Report) bad(rule, construct, msg string, sites []string, witness ...string) {
	r.add("violated", rule, construct, msg, sites, witness)
}
func (r *Report) undecided(rule, construct, msg string, sites ...string) {
	r.add("undecided", rule, construct, msg, sites, nil)
}

// check is the usual form: cond true -> discharged, else violated.
func (r *Report) check(cond bool, rule, construct, okmsg, badmsg string, sites ...string) bool {
	if cond {
		r.ok(rule, construct, okmsg, sites...)
	} else {
		r.bad(rule, construct, badmsg, sites)
	}
	return cond
}

// expect registers the minimum number of instances of a rule confirmed by hand on the reference tree
// (vacuity guard: a rule that matches fewer sites than that would pass vacuously).
func (r *Report) expect(rule string, n int) { r.min[rule] = n }

func (r *Report) count(rule string) int {
	n := 0
	for _, o := range r.Obs {
		if o.Rule == rule {
			n++
		}
	}
	return n
}

func (r *Report) finish() {
	rules := make([]string, 0, len(r.min))
	for k := range r.min {
		rules = append(rules, k)
	}
	sort.Strings(rules)
	for _, rule := range rules {
		if got := r.count(rule); got < r.min[rule] {
			r.undecided(rule, "<vacuity>", fmt.Sprintf("rule matched %d instances, fewer than the %d confirmed on the reference tree: it would pass vacuously", got, r.min[rule]))
		}
	}
}

// ---- known findings ----

type knownFinding struct{ prop, key, text string }

func loadKnown(path string) ([]knownFinding, error) {
	f, err := os.Open(path)
	if err != nil {
		if os.IsNotExist(err) {
			return nil, nil
		}
		return nil, err
	}
	defer f.Close()
	var out []knownFinding
	sc := bufio.NewScanner(f)
	sc.Buffer(make([]byte, 1<<20), 1<<20)
	for sc.Scan() {
		line := strings.TrimSpace(sc.Text())
		if !strings.HasPrefix(line, "finding:") {
			continue // "fixed:" lines and comments suppress nothing
		}
		rest := strings.TrimSpace(strings.TrimPrefix(line, "finding:"))
		kf := knownFinding{text: rest}
		for _, tok := range strings.Fields(rest) {
			if strings.HasPrefix(tok, "property=") {
				kf.prop = strings.TrimPrefix(tok, "property=")
			}
			if strings.HasPrefix(tok, "key=") {
				kf.key = strings.TrimPrefix(tok, "key=")
			}
		}
		if kf.prop != "" && kf.key != "" {
			out = append(out, kf)
		}
	}
	return out, sc.Err()
}

// ---- evidence ----

type evidence struct {
	PropertyID  string                 `json:"property_id"`
	Tier        string                 `json:"tier"`
	Seed        int                    `json:"seed"`
	Level       string                 `json:"level"`
	Coverage    map[string]interface{} `json:"coverage"`
	Assumptions []string               `json:"assumptions"`
	WallS       float64                `json:"wall_s"`
	Violations  int                    `json:"violations"`
}

func writeJSON(path string, v interface{}) error {
	if err := os.MkdirAll(filepath.Dir(path), 0o755); err != nil {
		return err
	}
	b, err := json.MarshalIndent(v, "", " ")
	if err != nil {
		return err
	}
	tmp := path + ".tmp"
	if err := os.WriteFile(tmp, append(b, '\n'), 0o644); err != nil {
		return err
	}
	return os.Rename(tmp, path)
}
