package main

import (
	"fmt"
	"go/types"

	"golang.org/x/tools/go/ssa"
)

func init() {
	register(&propDef{
		id:  "C17",
		run: runC17,
		explanation: "Decided (structural, for every open/close/concurrent-use sequence): " +
			"C17.guarded — every read, update and delete of the driver's connection-cache map holds the driver mutex (exclusively for update/delete); " +
			"C17.atomic — in the function that opens a file connection, the cache lookup, the updog.OpenIndex call and the cache insert all execute with the mutex held exclusively and no path from the lookup to the insert passes an unlock (one critical section), and the reference count of a found connection is incremented inside it. This is a necessary condition here because bbolt takes an exclusive flock: two first users that both reach OpenIndex block forever; " +
			"C17.evict — in the connection's Close, every path to (*updog.Index).Close first deletes the connection from the cache, the delete and the reference-count decrement hold the mutex exclusively and no unlock lies between them, so a closed connection can never be handed out again. " +
			"C17.connstate — every write to a field of the file connection object (shared by all pool slots of a DSN) after its construction holds the driver mutex exclusively; " +
			"C17.cacheowner — the query cache given to an index is created for that index in the opening function (a cache shared between files or surviving a reopen returns another file's bitmaps). " +
			"NOT decided: correctness of rows on an open handle beyond that (C12); database/sql's pool behaviour (trusted); two DSNs that name the same file with different option strings still open the file twice (second open blocks on the flock) — recorded in DESIGN.md as outside the decided clauses.",
		assumptions: []string{"sync.RWMutex semantics", "database/sql calls driver.Conn.Close once per handed-out connection", "bbolt holds an exclusive flock while a DB is open"},
	})
}

func runC17(c *Ctx) {
	const g, at, ev = "C17.guarded", "C17.atomic", "C17.evict"
	if !c.need(g, c.a.DrvOpen, c.a.DrvOpenFile, c.a.FileConnClose, c.a.DriverT, c.a.FileConnT, c.a.OpenIndex, c.a.IndexClose, c.a.FileStmtT, c.a.RowsT) {
		return
	}
	mtx := mutexFieldOf(c.a.DriverT)
	var cache *types.Var
	if st, ok := c.a.DriverT.Underlying().(*types.Struct); ok {
		for i := 0; i < st.NumFields(); i++ {
			if m, ok := st.Field(i).Type().Underlying().(*types.Map); ok {
				if namedOf(m.Elem()) == c.a.FileConnT {
					cache = st.Field(i)
				}
			}
		}
	}
	if mtx == nil || cache == nil {
		c.r.bad(g, "driver state", "the driver type has no mutex or no connection-cache map", []string{c.w.pos(c.a.DrvOpenFile.Pos())})
		return
	}
	// entry points: everything database/sql can call
	entries := []*ssa.Function{c.a.DrvOpen}
	for _, tn := range []*types.Named{c.a.FileConnT, c.a.FileStmtT, c.a.RowsT} {
		if tn == nil {
			continue
		}
		for i := 0; i < tn.NumMethods(); i++ {
			if f := c.a.methodOf(tn, tn.Method(i).Name()); f != nil {
				entries = append(entries, f)
			}
		}
	}
	re := c.w.reach(entries...)
	la := newLockAn(c, entries, re.Funcs)
	for _, p := range la.Problems {
		c.r.undecided(g, "defer in "+safeFname(p.ins.Parent()), p.msg, c.w.ipos(p.ins))
	}
	fr := newFresh(c)
	lockName := c.a.DriverT.Obj().Name() + "." + mtx.Name()
	// ---- guarded ----
	n := 0
	for _, fn := range re.sorted() {
		for _, a := range fieldAccesses(fn, map[*types.Var]bool{cache: true}) {
			if baseFresh(fr, a.Ins) {
				continue
			}
			n++
			st := la.stateAt(a.Ins)[mtx]
			kind := "read"
			if a.Write {
				kind = "write"
			}
			key := fmt.Sprintf("%s: %s (%s)", safeFname(fn), kind, a.What)
			switch {
			case a.Write && st != lkW:
				c.r.bad(g, key, "the connection cache is modified without holding "+lockName+" exclusively", []string{c.w.ipos(a.Ins)}, re.chain(fn)...)
			case !a.Write && st == lkU:
				c.r.bad(g, key, "the connection cache is read without holding "+lockName, []string{c.w.ipos(a.Ins)}, re.chain(fn)...)
			default:
				c.r.ok(g, key, "under "+lockName, c.w.ipos(a.Ins))
			}
		}
	}
	c.r.Stats["cache_accesses"] = n
	c.r.expect(g, 3)
	// ---- connstate: the file connection object is shared by every pool slot of a DSN (the open function hands the same
	// reference-counted object to each driver.Open), so database/sql's "one goroutine per connection" rule does not
	// protect its fields. Every write to a field of the connection type outside its construction must hold the driver
	// mutex exclusively (atomic counters are method calls, not field writes, and are not instances).
	nCS := 0
	for _, fn := range re.sorted() {
		for _, e := range fr.writes(fn) {
			if e.Fresh {
				continue
			}
			var fld *types.Var
			for _, f := range e.fields() {
				if c.w.ownerOf(f) == c.a.FileConnT {
					fld = f
					break
				}
			}
			if fld == nil {
				continue
			}
			nCS++
			key := fmt.Sprintf("%s: %s fileConn.%s", safeFname(fn), e.Kind, fld.Name())
			if la.stateAt(e.Ins)[mtx] != lkW {
				c.r.bad("C17.connstate", key, "a field of the file connection, which all pool slots of a DSN share, is written without holding "+lockName+" exclusively: concurrent queries on the handle race on it and can be answered from another query's state", []string{c.w.ipos(e.Ins)}, re.chain(fn)...)
			} else {
				c.r.ok("C17.connstate", key, "under exclusive "+lockName, c.w.ipos(e.Ins))
			}
		}
	}
	if nCS == 0 {
		c.r.ok("C17.connstate", "fileConn", "no field of the shared connection object is written after construction")
	}

	isUnlock := func(i ssa.Instruction) bool {
		if _, isDefer := i.(*ssa.Defer); isDefer {
			return false
		}
		if cc := callCommon(i); cc != nil {
			if f, acq, _, ok := lockOp(cc); ok && !acq && f == mtx {
				return true
			}
		}
		return false
	}
	cacheMapValue := func(v ssa.Value) bool { return path(v).lastField() == cache }

	// ---- atomic (openFile) ----
	// the function that holds the critical section: the open function itself or the helper it delegates to
	of := c.a.DrvOpenFile
	for _, f := range c.scope(c.a.DrvOpenFile, 2) {
		has := false
		allInstrs(f, func(i ssa.Instruction) {
			if lk, ok := i.(*ssa.Lookup); ok && cacheMapValue(lk.X) {
				has = true
			}
		})
		if has {
			of = f
			break
		}
	}
	var lookups, inserts, opens, incs []ssa.Instruction
	// the critical section's steps may sit in helpers the function calls (a `registerConn` that inserts, say): their lock
	// state is judged where they are (LockAn gives a callee the state at its call sites), their order on the call that
	// reaches them from the function holding the lookup
	lift := func(i ssa.Instruction) ssa.Instruction {
		if i.Parent() == of {
			return i
		}
		return c.liftTo(i, of)
	}
	instrsOf(c.scope(of, 2), func(i ssa.Instruction) {
		if i.Parent() != of && lift(i) == nil {
			return
		}
		switch x := i.(type) {
		case *ssa.Lookup:
			if cacheMapValue(x.X) {
				lookups = append(lookups, i)
			}
		case *ssa.MapUpdate:
			if cacheMapValue(x.Map) {
				inserts = append(inserts, i)
			}
		case *ssa.Call:
			if calleeFunc(&x.Call) == c.a.OpenIndex {
				opens = append(opens, i)
			}
			name := calleeName(&x.Call)
			if name == "(*sync/atomic.Int32).Add" || name == "(*sync/atomic.Int64).Add" || name == "sync/atomic.AddInt32" || name == "sync/atomic.AddInt64" {
				incs = append(incs, i)
			}
		}
	})
	site := c.w.pos(of.Pos())
	if len(lookups) == 0 || len(inserts) == 0 || len(opens) == 0 {
		c.r.undecided(at, safeFname(of), fmt.Sprintf("expected a cache lookup, an OpenIndex call and a cache insert in the open function (found %d/%d/%d)", len(lookups), len(opens), len(inserts)), site)
	} else {
		okAll := true
		for _, grp := range []struct {
			what string
			ins  []ssa.Instruction
		}{{"cache lookup", lookups}, {"OpenIndex call", opens}, {"cache insert", inserts}, {"reference-count update", incs}} {
			for _, i := range grp.ins {
				if la.stateAt(i)[mtx] != lkW {
					okAll = false
					c.r.bad(at, safeFname(of)+": "+grp.what, "the "+grp.what+" does not hold "+lockName+" exclusively: lookup, open and insert are not one critical section, so concurrent first users can both try to open the (exclusively locked) index file", []string{c.w.ipos(i)})
				}
			}
		}
		// no unlock between lookup and insert
		for _, lk0 := range lookups {
			lk := lift(lk0)
			allInstrs(of, func(u ssa.Instruction) {
				if !isUnlock(u) || !c.fc.reachableFrom(of, lk, u) {
					return
				}
				for _, ins0 := range inserts {
					ins := lift(ins0)
					if c.fc.reachableFrom(of, u, ins) {
						okAll = false
						c.r.bad(at, safeFname(of)+": unlock between lookup and insert", "the mutex is released between the cache lookup and the insert", []string{c.w.ipos(u)}, c.w.ipos(lk), c.w.ipos(u), c.w.ipos(ins))
					}
				}
			})
		}
		// OpenIndex must come after a lookup on every path (otherwise the cache is bypassed)
		for _, o0 := range opens {
			o := lift(o0)
			if p := c.fc.pathAvoiding(of, nil, func(i ssa.Instruction) bool { return i == o }, func(i ssa.Instruction) bool {
				for _, l := range lookups {
					if lift(l) == i {
						return true
					}
				}
				return false
			}); p != nil {
				okAll = false
				c.r.bad(at, safeFname(of)+": open without lookup", "OpenIndex is reachable without consulting the connection cache first", []string{c.w.ipos(o)}, c.fc.witnessStrings(p)...)
			}
		}
		if okAll {
			c.r.ok(at, safeFname(of), "lookup, OpenIndex, insert and reference count update in one exclusive critical section", site)
		}
	}

	// ---- evict (Close) ----
	cl := c.a.FileConnClose
	for _, f := range c.scope(c.a.FileConnClose, 2) {
		has := false
		allInstrs(f, func(i ssa.Instruction) {
			if call, ok := i.(*ssa.Call); ok && calleeFunc(&call.Call) == c.a.IndexClose {
				has = true
			}
		})
		if has {
			cl = f
			break
		}
	}
	var dels, idxCloses, decs []ssa.Instruction
	allInstrs(cl, func(i ssa.Instruction) {
		call, ok := i.(*ssa.Call)
		if !ok {
			return
		}
		if b, ok := call.Call.Value.(*ssa.Builtin); ok && b.Name() == "delete" && cacheMapValue(call.Call.Args[0]) {
			dels = append(dels, i)
		}
		if calleeFunc(&call.Call) == c.a.IndexClose {
			idxCloses = append(idxCloses, i)
		}
		name := calleeName(&call.Call)
		if name == "(*sync/atomic.Int32).Add" || name == "(*sync/atomic.Int64).Add" {
			decs = append(decs, i)
		}
	})
	csite := c.w.pos(cl.Pos())
	if len(idxCloses) == 0 {
		c.r.undecided(ev, safeFname(cl), "the connection's Close does not call (*Index).Close directly", csite)
		return
	}
	okAll := true
	isDel := func(i ssa.Instruction) bool {
		for _, d := range dels {
			if d == i {
				return true
			}
		}
		return false
	}
	for _, ic := range idxCloses {
		if p := c.fc.pathAvoiding(cl, nil, func(i ssa.Instruction) bool { return i == ic }, isDel); p != nil {
			okAll = false
			c.r.bad(ev, safeFname(cl)+": close without evict", "the index is closed on a path that does not remove the connection from the cache: the next open of the same file is handed a connection whose index is closed", []string{c.w.ipos(ic)}, c.fc.witnessStrings(p)...)
		}
	}
	for _, d := range dels {
		if la.stateAt(d)[mtx] != lkW {
			okAll = false
			c.r.bad(ev, safeFname(cl)+": delete", "the cache entry is deleted without holding "+lockName+" exclusively", []string{c.w.ipos(d)})
		}
	}
	for _, d := range decs {
		if la.stateAt(d)[mtx] != lkW {
			okAll = false
			c.r.bad(ev, safeFname(cl)+": decrement", "the reference count is decremented outside the critical section that evicts the connection: a concurrent open can take a reference to a connection that is about to be closed", []string{c.w.ipos(d)})
		}
		allInstrs(cl, func(u ssa.Instruction) {
			if !isUnlock(u) || !c.fc.reachableFrom(cl, d, u) {
				return
			}
			for _, x := range dels {
				if c.fc.reachableFrom(cl, u, x) {
					okAll = false
					c.r.bad(ev, safeFname(cl)+": unlock between decrement and delete", "the mutex is released between the decrement that reached zero and the eviction", []string{c.w.ipos(u)})
				}
			}
		})
	}
	cacheOwnerRule(c, "C17.cacheowner")
	// queries on one handle run concurrently on one Index: the concurrency rules of the library for package-level state
	// apply to everything the driver's entry points reach
	globalsRule(c, "C17.globals", re)
	if okAll {
		c.r.ok(ev, safeFname(cl), "last Close evicts the connection before closing the index, in the critical section of the decrement", csite)
	}
}
