package main

import (
	"fmt"
	"go/types"

	"golang.org/x/tools/go/ssa"
)

func init() {
	register(&propDef{
		id:  "C17",
		run: runC17,
		explanation: "Decided (structural, for every open/close/concurrent-use sequence): " +
			"C17.guarded — every read, update and delete of the driver's connection-cache map holds the driver mutex (exclusively for update/delete); " +
			"C17.atomic — in the function that opens a file connection, a cache lookup and the cache insert execute with the mutex held exclusively and no path from that lookup to the insert passes an unlock (one critical section); a lookup under the read lock in front of it (fast path) may only find a connection and take a reference, it licenses neither an open nor an insert; every reference on a found connection is taken with the mutex held (shared suffices) in the critical section of its lookup. The updog.OpenIndex call either lies in that exclusive critical section after the lookup, or is run by a sync.Once of the registered connection itself, whose outcome is stored in that connection, with every connection handed out only after Do returned on it without error (one OpenIndex per registered connection). This is a necessary condition here because bbolt takes an exclusive flock: two first users that both reach OpenIndex block forever; " +
			"C17.evict — in the connection's Close (helpers followed), every path to (*updog.Index).Close first deletes the connection from the cache (or finds that the registered entry is another connection), the delete holds the mutex exclusively, and the decision to tear down is made under the mutex: the reference-count decrement shares an exclusive critical section with the delete, or the delete is reached only where a re-read of the count in its own exclusive critical section was <= 0 — so a closed connection can never be handed out again. " +
			"C17.connstate — every write to a field of the file connection object (shared by all pool slots of a DSN) after its construction holds the driver mutex exclusively (or runs once under the connection's own sync.Once before the connection is handed out, see atomic); " +
			"C17.cacheowner — the query cache given to an index is created for that index in the opening function (a cache shared between files or surviving a reopen returns another file's bitmaps). " +
			"NOT decided: correctness of rows on an open handle beyond that (C12); database/sql's pool behaviour (trusted); two DSNs that name the same file with different option strings still open the file twice (second open blocks on the flock) — recorded in DESIGN.md as outside the decided clauses.",
		assumptions: []string{"sync.RWMutex semantics", "sync.Once semantics (the function runs once; its effects happen before every return of Do)", "database/sql calls driver.Conn.Close once per handed-out connection", "bbolt holds an exclusive flock while a DB is open"},
	})
}

func runC17(c *Ctx) {
	const g, at = "C17.guarded", "C17.atomic"
	if !c.need(g, c.a.DrvOpen, c.a.DrvOpenFile, c.a.FileConnClose, c.a.DriverT, c.a.FileConnT, c.a.OpenIndex, c.a.IndexClose, c.a.FileStmtT, c.a.RowsT) {
		return
	}
	mtx := mutexFieldOf(c.a.DriverT)
	var cache *types.Var
	if st, ok := c.a.DriverT.Underlying().(*types.Struct); ok {
		for i := 0; i < st.NumFields(); i++ {
			if m, ok := st.Field(i).Type().Underlying().(*types.Map); ok {
				if namedOf(m.Elem()) == c.a.FileConnT {
					cache = st.Field(i)
				}
			}
		}
	}
	if mtx == nil || cache == nil {
		c.r.bad(g, "driver state", "the driver type has no mutex or no connection-cache map", []string{c.w.pos(c.a.DrvOpenFile.Pos())})
		return
	}
	// entry points: everything database/sql can call
	entries := []*ssa.Function{c.a.DrvOpen}
	for _, tn := range []*types.Named{c.a.FileConnT, c.a.FileStmtT, c.a.RowsT} {
		if tn == nil {
			continue
		}
		for i := 0; i < tn.NumMethods(); i++ {
			if !tn.Method(i).Exported() {
				continue // database/sql calls the exported methods only; an unexported helper runs in its callers' lock context
			}
			if f := c.a.methodOf(tn, tn.Method(i).Name()); f != nil {
				entries = append(entries, f)
			}
		}
	}
	re := c.w.reach(entries...)
	la := newLockAn(c, entries, re.Funcs)
	for _, p := range la.Problems {
		c.r.undecided(g, "defer in "+safeFname(p.ins.Parent()), p.msg, c.w.ipos(p.ins))
	}
	fr := newFresh(c)
	lockName := c.a.DriverT.Obj().Name() + "." + mtx.Name()
	// ---- guarded ----
	n := 0
	for _, fn := range re.sorted() {
		for _, a := range fieldAccesses(fn, map[*types.Var]bool{cache: true}) {
			if baseFresh(fr, a.Ins) {
				continue
			}
			n++
			st := la.stateAt(a.Ins)[mtx]
			kind := "read"
			if a.Write {
				kind = "write"
			}
			key := fmt.Sprintf("%s: %s (%s)", safeFname(fn), kind, a.What)
			switch {
			case a.Write && st != lkW:
				c.r.bad(g, key, "the connection cache is modified without holding "+lockName+" exclusively", []string{c.w.ipos(a.Ins)}, re.chain(fn)...)
			case !a.Write && st == lkU:
				c.r.bad(g, key, "the connection cache is read without holding "+lockName, []string{c.w.ipos(a.Ins)}, re.chain(fn)...)
			default:
				c.r.ok(g, key, "under "+lockName, c.w.ipos(a.Ins))
			}
		}
	}
	c.r.Stats["cache_accesses"] = n
	c.r.expect(g, 3)
	// ---- connstate: the file connection object is shared by every pool slot of a DSN (the open function hands the same
	// reference-counted object to each driver.Open), so database/sql's "one goroutine per connection" rule does not
	// protect its fields. Every write to a field of the connection type outside its construction must hold the driver
	// mutex exclusively (atomic counters are method calls, not field writes, and are not instances).
	// Equivalent protocol: the fields are set inside the function literal run by a sync.Once of the connection itself
	// (the index opened by the first user outside the driver-wide lock). Every user of the connection got it from the
	// open function, which — decided by c17OnceOpen below — hands a connection out only after Do returned on it, and Do
	// orders the literal's writes before every return of Do: the writes are part of the connection's construction.
	scopeO := c.scope(c.a.DrvOpenFile, 2)
	onces := c17OnceInits(c, scopeO)
	onceOK := map[*ssa.Function]bool{}
	type onceVerdict struct {
		o           *ssa.Call
		ok, decided bool
		msg         string
		at          ssa.Instruction
	}
	var onceOpens []onceVerdict
	instrsOf(scopeO, func(i ssa.Instruction) {
		call, ok := i.(*ssa.Call)
		if !ok || calleeFunc(&call.Call) != c.a.OpenIndex || onces[i.Parent()] == nil {
			return
		}
		v := onceVerdict{o: call}
		v.ok, v.decided, v.msg, v.at = c17OnceOpen(c, call, onces[i.Parent()])
		onceOpens = append(onceOpens, v)
		onceOK[i.Parent()] = v.ok
	})
	nCS := 0
	for _, fn := range re.sorted() {
		for _, e := range fr.writes(fn) {
			if e.Fresh {
				continue
			}
			if oi := onces[fn]; oi != nil && onceOK[fn] {
				if st, isSt := e.Ins.(*ssa.Store); isSt && oi.fieldOfConn(c, st.Addr) != nil {
					nCS++
					c.r.ok("C17.connstate", fmt.Sprintf("%s: %s fileConn.%s", safeFname(fn), e.Kind, oi.fieldOfConn(c, st.Addr).Name()), "set once, under the connection's own sync.Once, before the connection is handed out")
					continue
				}
			}
			var fld *types.Var
			for _, f := range e.fields() {
				if c.w.ownerOf(f) == c.a.FileConnT {
					fld = f
					break
				}
			}
			if fld == nil {
				continue
			}
			nCS++
			key := fmt.Sprintf("%s: %s fileConn.%s", safeFname(fn), e.Kind, fld.Name())
			if la.stateAt(e.Ins)[mtx] != lkW {
				c.r.bad("C17.connstate", key, "a field of the file connection, which all pool slots of a DSN share, is written without holding "+lockName+" exclusively: concurrent queries on the handle race on it and can be answered from another query's state", []string{c.w.ipos(e.Ins)}, re.chain(fn)...)
			} else {
				c.r.ok("C17.connstate", key, "under exclusive "+lockName, c.w.ipos(e.Ins))
			}
		}
	}
	if nCS == 0 {
		c.r.ok("C17.connstate", "fileConn", "no field of the shared connection object is written after construction")
	}

	isUnlock := func(i ssa.Instruction) bool {
		if _, isDefer := i.(*ssa.Defer); isDefer {
			return false
		}
		if cc := callCommon(i); cc != nil {
			if f, acq, _, ok := lockOp(cc); ok && !acq && f == mtx {
				return true
			}
		}
		return false
	}
	cacheMapValue := func(v ssa.Value) bool { return path(v).lastField() == cache }

	// ---- atomic (openFile) ----
	// the function that holds the critical section: the open function itself or the helper it delegates to — the first
	// one with a lookup under the exclusive lock that also (itself or through a helper) registers the connection; failing
	// that the one that registers it, then one with a lookup under the exclusive lock, then any one that looks at the cache
	// (a read-locked fast path in front of the critical section is judged below; the identity test of an eviction helper
	// on the failure path is a lookup too, hence the preference)
	of := c.a.DrvOpenFile
	var allInserts []ssa.Instruction
	instrsOf(scopeO, func(i ssa.Instruction) {
		if mu, ok := i.(*ssa.MapUpdate); ok && cacheMapValue(mu.Map) {
			allInserts = append(allInserts, i)
		}
	})
	for pass := 0; pass < 4; pass++ {
		var hit *ssa.Function
		for _, f := range scopeO {
			exclLk, lkAny, ins, insLift := false, false, false, false
			allInstrs(f, func(i ssa.Instruction) {
				if lk, ok := i.(*ssa.Lookup); ok && cacheMapValue(lk.X) {
					lkAny = true
					if la.stateAt(i)[mtx] == lkW {
						exclLk = true
					}
				}
			})
			for _, i := range allInserts {
				if i.Parent() == f {
					ins, insLift = true, true
				} else if c.liftTo(i, f) != nil {
					insLift = true
				}
			}
			if (pass == 0 && exclLk && insLift) || (pass == 1 && ins) || (pass == 2 && exclLk) || (pass == 3 && lkAny) {
				hit = f
				break
			}
		}
		if hit != nil {
			of = hit
			break
		}
	}
	var lookups, inserts, opens, incs []ssa.Instruction
	// the critical section's steps may sit in helpers the function calls (a `registerConn` that inserts, say): their lock
	// state is judged where they are (LockAn gives a callee the state at its call sites), their order on the call that
	// reaches them from the function holding the lookup
	lift := func(i ssa.Instruction) ssa.Instruction {
		if i.Parent() == of {
			return i
		}
		return c.liftTo(i, of)
	}
	isRefAdd := func(i ssa.Instruction) bool {
		call, ok := i.(*ssa.Call)
		if !ok {
			return false
		}
		name := calleeName(&call.Call)
		return name == "(*sync/atomic.Int32).Add" || name == "(*sync/atomic.Int64).Add" || name == "sync/atomic.AddInt32" || name == "sync/atomic.AddInt64"
	}
	instrsOf(c.scope(of, 2), func(i ssa.Instruction) {
		if i.Parent() != of && lift(i) == nil {
			return
		}
		switch x := i.(type) {
		case *ssa.Lookup:
			if cacheMapValue(x.X) {
				lookups = append(lookups, i)
			}
		case *ssa.MapUpdate:
			if cacheMapValue(x.Map) {
				inserts = append(inserts, i)
			}
		case *ssa.Call:
			if calleeFunc(&x.Call) == c.a.OpenIndex && onces[i.Parent()] == nil {
				opens = append(opens, i)
			}
			if isRefAdd(i) {
				incs = append(incs, i)
			}
		}
	})
	site := c.w.pos(of.Pos())
	if len(inserts) == 0 || len(opens)+len(onceOpens) == 0 || len(lookups)+len(inserts)+len(opens) == 0 {
		c.r.undecided(at, safeFname(of), fmt.Sprintf("expected a cache lookup, an OpenIndex call and a cache insert in the open function (found %d/%d/%d)", len(lookups), len(opens)+len(onceOpens), len(inserts)), site)
	} else {
		okAll := true
		excl := "lookup, open and insert are not one critical section, so concurrent first users can both try to open the (exclusively locked) index file"
		// A lookup under the READ lock is a fast path: it may find a registered connection and take a reference (the
		// tear-down decides under the exclusive lock, C17.evict, so it cannot overlap), but it licenses neither an open nor an
		// insert — those need a lookup in their own exclusive critical section (checked below with the exclusive lookups
		// only, which is what reports a fast path without re-check).
		var wLookups []ssa.Instruction
		for _, i := range lookups {
			switch la.stateAt(i)[mtx] {
			case lkW:
				wLookups = append(wLookups, i)
			case lkR:
			default:
				okAll = false
				c.r.bad(at, safeFname(of)+": cache lookup", "the cache lookup does not hold "+lockName+": "+excl, []string{c.w.ipos(i)})
			}
		}
		isWLookup := func(i ssa.Instruction) bool {
			for _, l := range wLookups {
				if lift(l) == i {
					return true
				}
			}
			return false
		}
		for _, grp := range []struct {
			what string
			ins  []ssa.Instruction
		}{{"OpenIndex call", opens}, {"cache insert", inserts}} {
			for _, i := range grp.ins {
				if la.stateAt(i)[mtx] != lkW {
					okAll = false
					c.r.bad(at, safeFname(of)+": "+grp.what, "the "+grp.what+" does not hold "+lockName+" exclusively: "+excl, []string{c.w.ipos(i)})
				}
			}
		}
		// a reference is taken with the mutex held (shared suffices, see above) in the critical section of the lookup that
		// found the connection
		for _, i := range incs {
			if la.stateAt(i)[mtx] == lkU {
				okAll = false
				c.r.bad(at, safeFname(of)+": reference-count update", "the reference-count update does not hold "+lockName+": the connection found by the lookup can be torn down by a concurrent last Close before the reference is taken", []string{c.w.ipos(i)})
				continue
			}
			// (only for a counter reached from the value of a cache lookup, i.e. the connection that lookup found — not
			// the new connection's first reference; a receiver the rule cannot trace to its lookup is not judged here)
			l := c17LookupOf(callCommon(i).Args[0])
			if l == nil || !cacheMapValue(l.X) || l.Parent() != i.Parent() {
				continue
			}
			f := i.Parent()
			allInstrs(f, func(u ssa.Instruction) {
				if isUnlock(u) && c.fc.reachableFrom(f, l, u) && c.fc.reachableFrom(f, u, i) && c.fc.pathAvoiding(f, l, func(x ssa.Instruction) bool { return x == i }, func(x ssa.Instruction) bool { return x == u }) == nil {
					okAll = false
					c.r.bad(at, safeFname(of)+": unlock between lookup and reference-count update", "the mutex is released between the lookup that finds the connection and the reference taken on it: a concurrent last Close tears the connection down in between", []string{c.w.ipos(u)})
				}
			})
		}
		// no unlock between lookup and insert
		for _, lk0 := range wLookups {
			lk := lift(lk0)
			allInstrs(of, func(u ssa.Instruction) {
				if !isUnlock(u) || !c.fc.reachableFrom(of, lk, u) {
					return
				}
				for _, ins0 := range inserts {
					ins := lift(ins0)
					if c.fc.reachableFrom(of, u, ins) {
						okAll = false
						c.r.bad(at, safeFname(of)+": unlock between lookup and insert", "the mutex is released between the cache lookup and the insert", []string{c.w.ipos(u)}, c.w.ipos(lk), c.w.ipos(u), c.w.ipos(ins))
					}
				}
			})
		}
		// OpenIndex and the insert must come after a lookup under the exclusive lock on every path (otherwise the cache
		// is bypassed, or consulted only by a fast path whose answer is stale by the time the exclusive lock is held)
		for _, grp := range []struct {
			what, msg string
			ins       []ssa.Instruction
		}{
			{"open without lookup", "OpenIndex is reachable without consulting the connection cache under the exclusive lock first", opens},
			{"insert without lookup", "a connection is registered without consulting the connection cache under the exclusive lock first: it replaces a registered connection whose index is open, and its own open waits for the file lock", inserts},
		} {
			for _, o0 := range grp.ins {
				o := lift(o0)
				if p := c.fc.pathAvoiding(of, nil, func(i ssa.Instruction) bool { return i == o }, isWLookup); p != nil {
					okAll = false
					c.r.bad(at, safeFname(of)+": "+grp.what, grp.msg, []string{c.w.ipos(o)}, c.fc.witnessStrings(p)...)
				}
			}
		}
		// the index opened by the connection itself, once (see c17OnceOpen)
		for _, v := range onceOpens {
			key := safeFname(v.o.Parent()) + ": OpenIndex under the connection's sync.Once"
			var sites []string
			if v.at != nil {
				sites = []string{c.w.ipos(v.at)}
			}
			switch {
			case v.ok:
			case v.decided:
				okAll = false
				c.r.bad(at, key, v.msg, sites)
			default:
				okAll = false
				c.r.undecided(at, key, v.msg, sites...)
			}
		}
		if okAll && len(onceOpens) > 0 {
			c.r.ok(at, safeFname(of), "lookup, insert and reference count update in one exclusive critical section; OpenIndex once per registered connection (its sync.Once), before the connection is handed out", site)
		} else if okAll {
			c.r.ok(at, safeFname(of), "lookup, OpenIndex, insert and reference count update in one exclusive critical section", site)
		}
	}

	// ---- evict (Close) ---- (rules_ag30.go)
	c17Evict(c, la, mtx, cache, lockName, isUnlock)
	cacheOwnerRule(c, "C17.cacheowner")
	// queries on one handle run concurrently on one Index: the concurrency rules of the library for package-level state
	// apply to everything the driver's entry points reach
	globalsRule(c, "C17.globals", re)
}
