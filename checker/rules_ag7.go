package main

// Rules and rule helpers added for C11/C12:
//
//	stmtQueryFields   the statement types' parsed-query field, found by type (also in embedded structs)
//	bindAllRule       C11.bindall / C12.bindall: the binding traversal never stops early
//	stmtQueryRule     C11.stmtquery / C12.stmtquery: a prepared statement carries the parse of its own query text
//	slice rows        C12.cols / C12.rowsfresh for result rows stored as []driver.Value (values…, count)

import (
	"fmt"
	"go/token"
	"go/types"
	"strings"

	"golang.org/x/tools/go/ssa"
)

// ---------------- the statement's parsed query ----------------

// A stmtQueryField is a field of a statement type that holds the statement's parsed query: a field of type
// *updogv1.Query (or updogv1.Query), found in the statement struct itself or in a struct it embeds / contains by value
// (the statement kinds may share a base struct; the field is then reached through field promotion).
type stmtQueryField struct {
	fld   *types.Var
	chain []*types.Var // fields selected from the statement to reach fld (fld last)
	name  string       // the selector a reader would write: "q", or "base.q" for a named (not embedded) part
}

func stmtQueryFields(t *types.Named) []stmtQueryField {
	if t == nil {
		return nil
	}
	var out []stmtQueryField
	seen := map[*types.Named]bool{}
	var visit func(n *types.Named, st *types.Struct, chain []*types.Var, sel []string)
	visit = func(n *types.Named, st *types.Struct, chain []*types.Var, sel []string) {
		if n != nil {
			if seen[n] {
				return
			}
			seen[n] = true
		}
		for i := 0; i < st.NumFields(); i++ {
			f := st.Field(i)
			ch := append(append([]*types.Var{}, chain...), f)
			if typeIs(f.Type(), pkgProto, "Query") {
				out = append(out, stmtQueryField{fld: f, chain: ch, name: strings.Join(append(append([]string{}, sel...), f.Name()), ".")})
				continue
			}
			// parts of the statement object: embedded structs (by value or by pointer) and struct-valued fields of
			// the statement's own package. Pointers to other objects (the connection) are not part of the statement.
			ft := f.Type()
			if p, ok := ft.Underlying().(*types.Pointer); ok {
				if !f.Embedded() {
					continue
				}
				ft = p.Elem()
			}
			st2, ok := ft.Underlying().(*types.Struct)
			if !ok {
				continue
			}
			n2, _ := types.Unalias(ft).(*types.Named)
			if n2 != nil && (n2.Obj().Pkg() == nil || n2.Obj().Pkg() != t.Obj().Pkg()) {
				continue
			}
			s2 := sel
			if !f.Embedded() {
				s2 = append(append([]string{}, sel...), f.Name())
			}
			visit(n2, st2, ch, s2)
		}
	}
	if st, ok := t.Underlying().(*types.Struct); ok {
		visit(t, st, nil, nil)
	}
	return out
}

// stmtTypes: the driver's statement types (the implementers of driver.Stmt, resolved by shape in rules_ag10.go).
func stmtTypes(c *Ctx) []*types.Named {
	var out []*types.Named
	for _, t := range []*types.Named{c.a.FileStmtT, c.a.GrpcStmtT} {
		if t != nil {
			out = append(out, t)
		}
	}
	return out
}

// ---------------- C11.bindall ----------------

// walkSite: a traversal started by the binding function.
type walkSite struct {
	call *ssa.Call
	in   *ssa.Function
	cb   *ssa.Function // the callback (nil: not a function literal or named function)
	cbAt int           // index of the callback argument
}

// walkProto determines how the walking functions interpret the boolean the callback returns. Starting from the
// function-typed parameter the callback is handed to, every use of the callback is followed:
//
//   - a call of it yields a *traversal result*; a traversal result that is tested by a branch one side of which does
//     nothing but return is "stop" on that side and "continue" on the other (conts holds the constants after which the
//     traversal goes on);
//   - handing it on to a module function (the recursion, an inner walking function, a helper) continues in that
//     function's parameter;
//   - keeping it in a local variable that is assigned once (which is what a variable captured by a function literal is)
//     continues at the loads of that variable, and inside the function literals that capture it. A function literal
//     that captures the callback (`walkChild := func(ee) bool { return walk(ee, f) }`) is a *wrapper*: it is itself
//     followed like the callback (its calls yield traversal results, a helper it is handed to is followed), so that a
//     generic helper `all(xs, pred)` is read exactly like the loop it replaces;
//   - a function that returns a traversal result hands the question on to its callers: the results of its calls inside
//     the followed functions are traversal results, too, and its other returns must be consistent with the protocol:
//     apart from the returns on a "stop" side, it may only return traversal results or the constant that means
//     "continue" (ends holds the constants returned there; a walking function that answers "stop" although nobody
//     stopped makes its caller end the traversal early);
//   - a followed function that calls the callback/wrapper inside a loop must do so for every element of a slice
//     parameter (an ascending index over the whole parameter, the call first thing in the loop body), and the call
//     that hands the wrapper to it must hand over a whole list, not a part of one.
//
// Every other use sets unknown (why says which).
type walkProto struct {
	c          *Ctx
	conts      map[bool]bool
	ends       map[bool]ssa.Instruction
	seen       map[ssa.Value]bool
	group      map[*ssa.Function]bool // functions the callback (or a wrapper of it) was followed into
	passes     map[*ssa.Function]bool // functions whose result is a traversal result for their callers
	stopBlocks map[*ssa.BasicBlock]bool
	isResult   map[ssa.Value]bool // traversal results already examined
	unknown    bool
	why        string
}

func newWalkProto(c *Ctx) *walkProto {
	return &walkProto{c: c, conts: map[bool]bool{}, ends: map[bool]ssa.Instruction{}, seen: map[ssa.Value]bool{},
		group: map[*ssa.Function]bool{}, passes: map[*ssa.Function]bool{}, stopBlocks: map[*ssa.BasicBlock]bool{}, isResult: map[ssa.Value]bool{}}
}

func (w *walkProto) giveUp(why string, at ssa.Instruction) {
	if !w.unknown {
		w.why = why
		if at != nil {
			w.why += " at " + w.c.w.ipos(at)
		}
	}
	w.unknown = true
}

// run follows parameter #k of g and closes the result under "a function that returns a traversal result".
func (w *walkProto) run(g *ssa.Function, k int, depth int) {
	if g == nil || g.Blocks == nil || k >= len(g.Params) {
		w.giveUp("the walking function has no body", nil)
		return
	}
	w.follow(g.Params[k], g, depth)
	for !w.unknown {
		// the calls of a function that returns a traversal result yield traversal results, inside the followed functions
		for changed := true; changed && !w.unknown; {
			changed = false
			for h := range w.passes {
				for f := range w.group {
					allInstrs(f, func(i ssa.Instruction) {
						if call, ok := i.(*ssa.Call); ok && calleeFunc(&call.Call) == h && !w.isResult[call] {
							changed = true
							w.result(call, false)
						}
					})
				}
			}
		}
		// only now are all "stop" sides known: what else do these functions return?
		w.ends = map[bool]ssa.Instruction{}
		grew := false
		for h := range w.passes {
			if w.returnsOf(h) {
				grew = true
			}
		}
		if !grew {
			break
		}
	}
}

// follow: root is the parameter (or captured variable) of g that holds the callback or a wrapper of it.
func (w *walkProto) follow(root ssa.Value, g *ssa.Function, depth int) {
	if g == nil || g.Blocks == nil || depth < 0 {
		w.giveUp("the callback is handed to a function that could not be followed", nil)
		return
	}
	if w.seen[root] {
		return
	}
	w.seen[root] = true
	w.group[g] = true
	if _, isPtr := root.Type().Underlying().(*types.Pointer); isPtr {
		w.cell(root, depth)
	} else {
		w.visitor(root, depth)
	}
}

// visitor: v is the callback or a wrapper of it, as a function value.
func (w *walkProto) visitor(v ssa.Value, depth int) {
	for _, u := range referrers(v) {
		switch x := u.(type) {
		case *ssa.DebugRef:
		case *ssa.Store:
			al, ok := x.Addr.(*ssa.Alloc)
			if !ok || x.Val != v {
				w.giveUp("the callback is stored into something other than a local variable", x)
				continue
			}
			if stores, esc := cellStores(al); esc || len(stores) != 1 {
				w.giveUp("the local variable that holds the callback is assigned more than once or escapes", x)
				continue
			}
			if !w.seen[al] {
				w.seen[al] = true
				w.cell(al, depth)
			}
		case *ssa.Call:
			if x.Call.Value == v && !x.Call.IsInvoke() {
				w.elementwise(x)
				w.result(x, false)
				continue
			}
			h := calleeFunc(&x.Call)
			if h == nil || !w.c.w.inModule(h) || h.Blocks == nil {
				w.giveUp("the callback is handed to a function outside the module or to a dynamic call", x)
				continue
			}
			for j, a := range x.Call.Args {
				if a == v && j < len(h.Params) {
					w.follow(h.Params[j], h, depth-1)
					w.wholeList(x, h, h.Params[j])
				}
			}
		default:
			w.giveUp("the callback is used in a way that is not followed", u)
		}
	}
}

// cell: addr is the local variable that holds the callback (the Alloc, or the free variable of a function literal
// that captured it).
func (w *walkProto) cell(addr ssa.Value, depth int) {
	for _, u := range referrers(addr) {
		switch x := u.(type) {
		case *ssa.DebugRef:
		case *ssa.Store:
			// the one store (visitor made sure there is no other, also not inside a function literal)
			if x.Addr != addr {
				w.giveUp("the address of the variable that holds the callback is stored", x)
			}
		case *ssa.UnOp:
			if x.Op != token.MUL {
				w.giveUp("the callback is used in a way that is not followed", x)
				continue
			}
			w.visitor(x, depth)
		case *ssa.MakeClosure:
			fn, _ := x.Fn.(*ssa.Function)
			if fn == nil || fn.Blocks == nil {
				w.giveUp("the callback is captured by a function that could not be followed", x)
				continue
			}
			for bi, b := range x.Bindings {
				if b == addr && bi < len(fn.FreeVars) {
					w.follow(fn.FreeVars[bi], fn, depth)
				}
			}
			// the function literal stands for the callback wherever it goes: its own result is a traversal result
			if !w.seen[x] {
				w.seen[x] = true
				res := fn.Signature.Results()
				if res.Len() != 1 || !isBoolType(res.At(0).Type()) {
					w.giveUp("a function literal that captures the callback does not return a boolean", x)
					continue
				}
				w.passes[fn] = true
				w.visitor(x, depth)
			}
		default:
			w.giveUp("the callback is used in a way that is not followed", u)
		}
	}
}

// result: r is a traversal result (negated if neg).
func (w *walkProto) result(r ssa.Value, neg bool) {
	w.isResult[r] = true
	stops := func(b *ssa.BasicBlock) bool {
		for _, i := range b.Instrs {
			if callCommon(i) != nil {
				return false
			}
		}
		_, isRet := b.Instrs[len(b.Instrs)-1].(*ssa.Return)
		return isRet
	}
	for _, u := range referrers(r) {
		switch x := u.(type) {
		case *ssa.DebugRef:
		case *ssa.UnOp:
			if x.Op == token.NOT {
				w.result(x, !neg)
			} else {
				w.giveUp("the callback's result is used in a way that is not followed", x)
			}
		case *ssa.If:
			b := x.Block()
			if len(b.Succs) != 2 {
				w.giveUp("the callback's result is tested by a malformed branch", x)
				continue
			}
			onTrue, onFalse := b.Succs[0], b.Succs[1] // for r itself
			if neg {
				onTrue, onFalse = onFalse, onTrue
			}
			switch {
			case stops(onFalse) && !stops(onTrue):
				w.conts[true] = true
				w.stopBlocks[onFalse] = true
			case stops(onTrue) && !stops(onFalse):
				w.conts[false] = true
				w.stopBlocks[onTrue] = true
			default:
				w.giveUp("the callback's result is not simply tested by a branch that returns on one side", x)
			}
		case *ssa.Return:
			// handed on to the caller as it is: the caller's test decides
			if neg {
				w.giveUp("the negated result of the callback is returned", x)
				continue
			}
			w.passes[x.Parent()] = true
		default:
			w.giveUp("the callback's result is used in a way that is not followed", u)
		}
	}
}

// returnsOf: h's result is taken for a traversal result by its callers, so h may return — apart from what it returns
// on a "stop" side — only traversal results (of the callback, a wrapper, or a followed function, which then has to
// obey the same) and constants, which are collected in ends. It reports whether a function was added to passes.
func (w *walkProto) returnsOf(h *ssa.Function) (grew bool) {
	var val func(v ssa.Value, at ssa.Instruction, n int)
	val = func(v ssa.Value, at ssa.Instruction, n int) {
		if w.isResult[v] {
			return
		}
		switch x := v.(type) {
		case *ssa.Const:
			if k, isK := constBool(x); isK {
				if _, have := w.ends[k]; !have {
					w.ends[k] = at
				}
				return
			}
		case *ssa.Phi:
			if n > 0 {
				for _, e := range x.Edges {
					val(e, at, n-1)
				}
				return
			}
		case *ssa.Call:
			if g := calleeFunc(&x.Call); g != nil && w.group[g] {
				if !w.passes[g] {
					w.passes[g] = true
					grew = true
				}
				return
			}
		}
		w.giveUp("a walking function returns something that is neither the callback's result nor a constant", at)
	}
	allInstrs(h, func(i ssa.Instruction) {
		ret, ok := i.(*ssa.Return)
		if !ok || isRecoverBlockReturn(ret) || len(ret.Results) != 1 || w.stopBlocks[ret.Block()] {
			return
		}
		val(ret.Results[0], ret, 4)
	})
	return grew
}

// elementwise: a call of the callback/wrapper that sits in a loop is made for every element of a slice parameter:
// the argument is p[i] for a parameter p of the function, i runs upwards by one from 0, the loop goes on while
// i < len(p), and the call is the first thing the loop body does (nothing can skip it).
func (w *walkProto) elementwise(call *ssa.Call) {
	inLoop := false
	for _, l := range loopsOf(call.Parent()) {
		if l.blocks[call.Block()] {
			inLoop = true
		}
	}
	// an element of a list as the argument outside a loop (`for _, x := range xs { return pred(x) }` is no loop) visits
	// one operand only
	ofList := false
	for _, a := range call.Call.Args {
		if ld, ok := a.(*ssa.UnOp); ok && ld.Op == token.MUL {
			if _, isElem := ld.X.(*ssa.IndexAddr); isElem {
				ofList = true
			}
		}
	}
	if (inLoop || ofList) && w.slicePassed(call) == nil {
		w.giveUp("a helper calls the callback in a loop that could not be shown to call it for every element of the list it is given, in order", call)
	}
}

// slicePassed: the slice parameter whose every element the call in a loop is made for (nil: not of that shape).
func (w *walkProto) slicePassed(call *ssa.Call) *ssa.Parameter {
	fn := call.Parent()
	var loop *loopInfo
	for _, l := range loopsOf(fn) {
		if l.blocks[call.Block()] && (loop == nil || len(l.blocks) < len(loop.blocks)) {
			loop = l
		}
	}
	if loop == nil || len(call.Call.Args) != 1 {
		return nil
	}
	ld, ok := call.Call.Args[0].(*ssa.UnOp)
	if !ok || ld.Op != token.MUL {
		return nil
	}
	ia, ok := ld.X.(*ssa.IndexAddr)
	if !ok || !ascendingIndex(ia.Index) {
		return nil
	}
	p, ok := ia.X.(*ssa.Parameter)
	if !ok {
		return nil
	}
	if _, isSlice := p.Type().Underlying().(*types.Slice); !isSlice {
		return nil
	}
	// the loop is left only where i < len(p) fails (or through the branch on the result, which result examines),
	// and the call is in the block the loop condition leads to
	hd := loop.header
	cond, ok := hd.Instrs[len(hd.Instrs)-1].(*ssa.If)
	if !ok || len(hd.Succs) != 2 || hd.Succs[0] != call.Block() || loop.blocks[hd.Succs[1]] {
		return nil
	}
	cmp, ok := cond.Cond.(*ssa.BinOp)
	if !ok || cmp.Op != token.LSS || cmp.X != ia.Index || !isLenOf(cmp.Y, p) {
		return nil
	}
	// nothing before the call in the body's first block but the element load
	for _, i := range call.Block().Instrs {
		if i == ssa.Instruction(call) {
			break
		}
		if i != ssa.Instruction(ia) && i != ssa.Instruction(ld) {
			if _, isDbg := i.(*ssa.DebugRef); !isDbg {
				return nil
			}
		}
	}
	return p
}

// wholeList: site hands the wrapper to h as parameter vp; where h calls vp for every element of a slice parameter,
// the list handed over at site must not be a part of a list (xs[1:], xs[:n]).
func (w *walkProto) wholeList(site *ssa.Call, h *ssa.Function, vp *ssa.Parameter) {
	for _, u := range referrers(vp) {
		call, ok := u.(*ssa.Call)
		if !ok || call.Call.Value != ssa.Value(vp) {
			continue
		}
		p := w.slicePassed(call)
		if p == nil {
			continue
		}
		for j, q := range h.Params {
			if q != p || j >= len(site.Call.Args) {
				continue
			}
			if sl, isSl := site.Call.Args[j].(*ssa.Slice); isSl && (sl.Low != nil || sl.High != nil) {
				w.giveUp("only a part of a list of operands is handed to the helper that visits them", site)
			}
		}
	}
}

func isBoolType(t types.Type) bool {
	b, ok := t.Underlying().(*types.Basic)
	return ok && b.Kind() == types.Bool
}

// alwaysBool: v is the constant b on every path — a constant, a phi of such, or the result of a module function or
// closure all of whose returns are.
func (c *Ctx) alwaysBool(v ssa.Value, b bool, depth int) bool {
	switch x := peel(v).(type) {
	case *ssa.Const:
		k, isK := constBool(x)
		return isK && k == b
	case *ssa.Phi:
		for _, e := range x.Edges {
			if !c.alwaysBool(e, b, depth) {
				return false
			}
		}
		return true
	case *ssa.Call:
		h := calleeFunc(&x.Call)
		if h == nil || !c.w.inModule(h) || h.Blocks == nil || depth <= 0 || h.Signature.Results().Len() != 1 {
			return false
		}
		ok, n := true, 0
		allInstrs(h, func(i ssa.Instruction) {
			if ret, isRet := i.(*ssa.Return); isRet && !isRecoverBlockReturn(ret) {
				n++
				if !c.alwaysBool(retVals(ret)[0], b, depth-1) {
					ok = false
				}
			}
		})
		return ok && n > 0
	}
	return false
}

// bindAllRule: the traversal that binds the placeholders visits every node of the (cloned) query. The binding function
// hands a callback to Walk; Walk stops as soon as the callback returns the "stop" constant. A placeholder number may
// occur several times in a query, so no count of substitutions made so far can justify stopping: every return of the
// callback must be the constant that means "continue" (which constant that is, is read off the branch with which the
// walking function tests the callback's result), and the binding function must not return before the traversal ran —
// except when there are no values at all (then nothing can be bound).
// The walking function may visit the operands of a node through a function literal that wraps the recursion and a
// helper that applies it to every element of a list (walkProto follows both): the helper's test of the result is read
// like the walking function's own, the helper must call it for every element of the whole list, and no function on
// the way may answer "stop" where nothing stopped. A helper that ignores the result is accepted: it cannot stop early.
// Binding that does not go through Walk with a function literal / named function is reported as undecided — unless the
// binding function rebuilds the query copy-on-write (cowBindAll, rules_ag33.go), for which the same question (is every
// node visited, is every bound operand kept) is decided on the node binder's cases and the list binder's loop.
func bindAllRule(c *Ctx, rule string) {
	fn := c.a.ReplacePH
	name := safeFname(fn)
	var sites []walkSite
	for _, f := range c.scope(fn, 2, c.a.Walk, c.a.WalkInner) {
		f := f
		allInstrs(f, func(i ssa.Instruction) {
			call, ok := i.(*ssa.Call)
			if !ok {
				return
			}
			g := calleeFunc(&call.Call)
			if g == nil || (g != c.a.Walk && g != c.a.WalkInner) {
				return
			}
			s := walkSite{call: call, in: f, cbAt: -1}
			for k, a := range call.Call.Args {
				if _, isFunc := a.Type().Underlying().(*types.Signature); !isFunc {
					continue
				}
				s.cbAt = k
				switch x := a.(type) {
				case *ssa.MakeClosure:
					s.cb, _ = x.Fn.(*ssa.Function)
				case *ssa.Function:
					s.cb = x
				}
			}
			sites = append(sites, s)
		})
	}
	if len(sites) == 0 {
		// no Walk: the binding function may rebuild the query instead (a node binder that returns a node unchanged or a
		// new node with the bound operands); that such a rebuild reaches every node is decided in rules_ag33.go
		if cowBindAll(c, rule) {
			return
		}
		c.r.undecided(rule, name, "the binding function does not traverse the query with Walk; that every occurrence of a placeholder is visited is decided for Walk with a callback only", c.w.pos(fn.Pos()))
		return
	}
	for n, s := range sites {
		key := name
		if n > 0 {
			key = fmt.Sprintf("%s: traversal#%d", name, n+1)
		}
		if s.cb == nil || s.cb.Blocks == nil || s.cbAt < 0 {
			c.r.undecided(rule, key, "the callback handed to Walk is not a function literal or a named function", c.w.ipos(s.call))
			continue
		}
		wp := newWalkProto(c)
		wp.run(calleeFunc(&s.call.Call), s.cbAt, 3)
		conts := wp.conts
		if wp.unknown || len(conts) > 1 {
			why := wp.why
			if why == "" {
				why = "the result is taken for \"continue\" in one place and for \"stop\" in another"
			}
			c.r.undecided(rule, key, "how the walking function interprets the callback's result could not be determined (the result is not simply tested by a branch that returns on one side): "+why, c.w.ipos(s.call))
			continue
		}
		if len(conts) == 0 {
			c.r.ok(rule, key, "the walking function ignores the callback's result: the traversal cannot be stopped", c.w.ipos(s.call))
			continue
		}
		if at, has := wp.ends[!conts[true]]; has {
			c.r.bad(rule, key, fmt.Sprintf("a walking function returns %v where nothing stopped the traversal, and its result is taken for the callback's by its caller, for which %v means \"stop\": the walk over the query ends before all placeholders were visited; later occurrences stay unbound and are executed as a comparison with the empty string", !conts[true], !conts[true]), []string{c.w.ipos(at)})
			continue
		}
		cont := conts[true]
		bad := ""
		var at ssa.Instruction
		allInstrs(s.cb, func(i ssa.Instruction) {
			ret, ok := i.(*ssa.Return)
			if !ok || isRecoverBlockReturn(ret) || len(ret.Results) != 1 || bad != "" {
				return
			}
			if !c.alwaysBool(retVals(ret)[0], cont, 2) {
				bad, at = fmt.Sprintf("the callback returns something other than the constant %v that lets the traversal continue", cont), i
			}
		})
		if bad != "" {
			c.r.bad(rule, key, bad+": the walk over the query can stop before all placeholders were visited; a placeholder number may occur several times, so later occurrences stay unbound and are executed as a comparison with the empty string", []string{c.w.ipos(at)})
			continue
		}
		c.r.ok(rule, key, fmt.Sprintf("every return of the callback is the constant %v, after which the traversal continues", cont), c.w.ipos(s.call))
	}
	// no return of the binding function before a traversal ran, unless there are no values
	var vals ssa.Value
	for _, p := range fn.Params {
		if sl, ok := p.Type().Underlying().(*types.Slice); ok {
			if b, ok := sl.Elem().Underlying().(*types.Basic); ok && b.Kind() == types.String {
				vals = p
			}
		}
	}
	isWalk := func(i ssa.Instruction) bool {
		for _, s := range sites {
			if ssa.Instruction(s.call) == i {
				return true
			}
		}
		return false
	}
	noValues := func(ret ssa.Instruction) bool {
		if vals == nil {
			return false
		}
		for _, cm := range cmpsAt(ret) {
			if cm.Y == nil {
				continue
			}
			x, y, op := cm.X, cm.Y, cm.Op
			if _, isK := constInt(x); isK {
				x, y, op = y, x, swapOp(op)
			}
			k, isK := constInt(y)
			if !isK || !isLenOf(x, vals) {
				continue
			}
			if (op == token.EQL && k == 0) || (op == token.LEQ && k == 0) || (op == token.LSS && k == 1) {
				return true
			}
		}
		return false
	}
	target := func(i ssa.Instruction) bool {
		ret, ok := i.(*ssa.Return)
		return ok && !isRecoverBlockReturn(ret) && !noValues(i)
	}
	if p := c.fc.pathAvoiding(fn, nil, target, c.fc.ipAvoid(isWalk)); p != nil {
		c.r.bad(rule, name+": early exit", "the binding function can return without having traversed the query although values were supplied: placeholders stay unbound and are executed as a comparison with the empty string",
			[]string{c.w.ipos(p[len(p)-1])}, c.fc.witnessStrings(p)...)
	} else {
		c.r.ok(rule, name+": early exit", "every return is preceded by the traversal (or happens only when no values were supplied)", c.w.pos(fn.Pos()))
	}
}

// ---------------- C12.stmtquery ----------------

const (
	sqOK = iota
	sqUndecided
	sqBad
)

type sqVerdict struct {
	status int
	msg    string
	at     ssa.Instruction
}

func (a sqVerdict) worse(b sqVerdict) sqVerdict {
	if b.status > a.status {
		return b
	}
	return a
}

// sqFrame: callee was entered through call; parameters of callee stand for the call's arguments.
type sqFrame struct {
	call   *ssa.Call
	callee *ssa.Function
}

type sqCtx struct {
	c      *Ctx
	texts  map[ssa.Value]bool // the string parameters of the prepare function under analysis
	preps  map[*ssa.Function]bool
	fields map[*types.Named][]stmtQueryField
}

func instrOf(v ssa.Value) ssa.Instruction {
	i, _ := v.(ssa.Instruction)
	return i
}

// bindUp maps a parameter of the innermost helper to the argument it was called with (and pops that frame).
func bindUp(p *ssa.Parameter, frames []sqFrame) (ssa.Value, []sqFrame, bool) {
	if len(frames) == 0 {
		return nil, nil, false
	}
	top := frames[len(frames)-1]
	if p.Parent() != top.callee {
		return nil, nil, false
	}
	a := argFor(top.call, top.callee, p)
	if a == nil {
		return nil, nil, false
	}
	return a, frames[:len(frames)-1], true
}

// isText: v is the prepare function's own query text, unmodified.
func (s *sqCtx) isText(v ssa.Value, frames []sqFrame) bool {
	v = peel(v)
	p, ok := v.(*ssa.Parameter)
	if !ok {
		return false
	}
	if len(frames) == 0 {
		return s.texts[p]
	}
	a, up, ok := bindUp(p, frames)
	return ok && s.isText(a, up)
}

// parsed: q is the query that ParseQuery made of the text in this very call.
func (s *sqCtx) parsed(q ssa.Value, frames []sqFrame, depth int) sqVerdict {
	q = peel(q)
	switch x := q.(type) {
	case *ssa.Parameter:
		if a, up, ok := bindUp(x, frames); ok {
			return s.parsed(a, up, depth)
		}
		return sqVerdict{sqBad, "the statement's parsed query is handed in from outside instead of being parsed from the query text in this call", nil}
	case *ssa.Phi:
		out := sqVerdict{}
		for _, e := range x.Edges {
			if isNilConst(e) {
				continue
			}
			out = out.worse(s.parsed(e, frames, depth))
		}
		return out
	case *ssa.Extract, *ssa.Call:
		var call *ssa.Call
		idx := 0
		if e, ok := x.(*ssa.Extract); ok {
			call, _ = e.Tuple.(*ssa.Call)
			idx = e.Index
		} else {
			call = x.(*ssa.Call)
		}
		if call == nil {
			break
		}
		f := calleeFunc(&call.Call)
		if f != nil && f == s.c.a.ParseQuery && idx == 0 && len(call.Call.Args) == 1 {
			if s.isText(call.Call.Args[0], frames) {
				return sqVerdict{}
			}
			return sqVerdict{sqUndecided, "the text handed to ParseQuery is not prepare's query parameter itself (a derived or stored text): that the statement means the same as the given text is not decided", call}
		}
		if _, callee, vals, ok := resultOrigins(s.c.w, q); ok && depth > 0 {
			out := sqVerdict{}
			for _, v := range vals {
				if isNilConst(v) {
					continue
				}
				out = out.worse(s.parsed(v, append(append([]sqFrame{}, frames...), sqFrame{call, callee}), depth-1))
			}
			return out
		}
	}
	return sqVerdict{sqBad, "the statement's parsed query is taken from storage (a map, a field, an earlier statement) instead of being parsed from the query text in this call: a later query can be answered with the parse of a different text", instrOf(q)}
}

// storedInto: the values stored into obj.<chain> (obj: an Alloc of a struct) in obj's function. Parts reached through an
// embedded pointer are followed into the object stored there. whole: the struct (or a part containing the field) is
// also assigned as a whole, which this does not look into.
func storedInto(obj *ssa.Alloc, chain []*types.Var, depth int) (vals []ssa.Value, whole bool) {
	fn := obj.Parent()
	fns := append([]*ssa.Function{fn}, fn.AnonFuncs...)
	for _, f := range fns {
		allInstrs(f, func(i ssa.Instruction) {
			st, ok := i.(*ssa.Store)
			if !ok {
				return
			}
			p := path(st.Addr)
			if peelCell(p.Root) != ssa.Value(obj) {
				return
			}
			var fs []*types.Var
			for _, s := range p.Steps {
				if s.Field == nil {
					return // through a pointer or into an element: a different object
				}
				fs = append(fs, s.Field)
			}
			if len(fs) > len(chain) {
				return
			}
			for k := range fs {
				if fs[k] != chain[k] {
					return
				}
			}
			if len(fs) == len(chain) {
				vals = append(vals, st.Val)
				return
			}
			// a prefix of the chain is assigned: the part that contains the field
			if al, ok := peel(st.Val).(*ssa.Alloc); ok && depth > 0 && len(fs) > 0 {
				v2, w2 := storedInto(al, chain[len(fs):], depth-1)
				vals = append(vals, v2...)
				whole = whole || w2
				return
			}
			if c, ok := st.Val.(*ssa.Const); ok && (c.Value == nil) {
				return // zero value: no query
			}
			whole = true
		})
	}
	return
}

// stmt: the statement value v carries the parse of the text.
func (s *sqCtx) stmt(v ssa.Value, frames []sqFrame, depth int) sqVerdict {
	v = peel(v)
	switch x := v.(type) {
	case *ssa.MakeInterface:
		return s.stmt(x.X, frames, depth)
	case *ssa.Const:
		return sqVerdict{} // nil: the error returns
	case *ssa.Parameter:
		if a, up, ok := bindUp(x, frames); ok {
			return s.stmt(a, up, depth)
		}
		return sqVerdict{sqBad, "the statement returned is handed in from outside instead of being built from the query text in this call", nil}
	case *ssa.Phi:
		out := sqVerdict{}
		for _, e := range x.Edges {
			out = out.worse(s.stmt(e, frames, depth))
		}
		return out
	case *ssa.UnOp:
		// a local variable assigned on several paths
		if x.Op == token.MUL {
			if vals, ok := cellValues(x.X); ok && len(vals) > 0 {
				out := sqVerdict{}
				for _, e := range vals {
					out = out.worse(s.stmt(e, frames, depth))
				}
				return out
			}
		}
	case *ssa.Alloc:
		n := namedOf(x.Type())
		qs := s.fields[n]
		if n == nil || len(qs) == 0 {
			break
		}
		out := sqVerdict{}
		for _, q := range qs {
			vals, whole := storedInto(x, q.chain, 2)
			if whole {
				out = out.worse(sqVerdict{sqUndecided, "the statement (or the part of it that holds the parsed query) is assigned as a whole struct value, which is not followed", x})
			}
			if len(vals) == 0 && !whole {
				out = out.worse(sqVerdict{sqBad, "a statement is built without the parsed query of the text", x})
			}
			for _, qv := range vals {
				out = out.worse(s.parsed(qv, frames, depth))
			}
		}
		return out
	case *ssa.Extract, *ssa.Call:
		if call, callee, vals, ok := resultOrigins(s.c.w, v); ok && depth > 0 {
			// a prepare function that delegates to another one (Prepare -> prepare): the callee is judged on its own;
			// here only that it is given this call's own text
			if s.preps[callee] {
				for _, p := range callee.Params {
					if b, isB := p.Type().Underlying().(*types.Basic); isB && b.Kind() == types.String {
						if a := argFor(call, callee, p); a == nil || !s.isText(a, frames) {
							return sqVerdict{sqUndecided, "the text handed on to " + safeFname(callee) + " is not prepare's query parameter itself (a derived or stored text): that the statement means the same as the given text is not decided", call}
						}
					}
				}
				return sqVerdict{}
			}
			out := sqVerdict{}
			for _, rv := range vals {
				out = out.worse(s.stmt(rv, append(append([]sqFrame{}, frames...), sqFrame{call, callee}), depth-1))
			}
			return out
		}
	}
	return sqVerdict{sqBad, "the statement returned was not built in this call (it is taken from a map, a field or other storage): it carries the parse of an earlier query text, so a query can be answered with the rows of a different query", instrOf(v)}
}

// stmtQueryRule: every statement a prepare function of the driver returns carries, as its parsed query, the result of
// queryparser.ParseQuery applied to that function's own query parameter in this very call — directly, through a parse
// helper that receives the parameter, or through a constructor that receives the parse. A statement or parsed query
// taken from a map or field (a statement cache) is reported: whether two texts mean the same query cannot be read off
// a cache key (white space inside string literals is significant), so the only statement known to belong to a text is
// the one parsed from it. A prepare function is a function of the driver package with a string parameter and a result
// that is (a pointer to) a statement type or database/sql/driver.Stmt.
// Not decided (reported as violated all the same): a cache keyed by the exact query text would be harmless.
func stmtQueryRule(c *Ctx, rule string) {
	s := &sqCtx{c: c, fields: map[*types.Named][]stmtQueryField{}}
	for _, t := range stmtTypes(c) {
		if qs := stmtQueryFields(t); len(qs) > 0 {
			s.fields[t] = qs
		}
	}
	if len(s.fields) == 0 {
		c.r.undecided(rule, "<anchor>", "no statement type with a parsed-query field (*updogv1.Query) found")
		return
	}
	type prep struct {
		fn *ssa.Function
		k  int
	}
	var preps []prep
	s.preps = map[*ssa.Function]bool{}
	for _, fn := range c.w.ModFuncs {
		if c.w.pkgPathOf(fn) != pkgDriver || fn.Blocks == nil || fn.Synthetic != "" {
			continue
		}
		res := fn.Signature.Results()
		k := -1
		for j := 0; j < res.Len(); j++ {
			t := res.At(j).Type()
			if _, isPtr := t.Underlying().(*types.Pointer); isPtr && s.fields[namedOf(t)] != nil {
				k = j
			} else if typeIs(t, "database/sql/driver", "Stmt") {
				k = j
			}
		}
		hasText := false
		for _, p := range fn.Params {
			if b, ok := p.Type().Underlying().(*types.Basic); ok && b.Kind() == types.String {
				hasText = true
			}
		}
		// without a text parameter: a constructor that is given the parse, judged where a prepare function calls it
		if k >= 0 && hasText {
			preps = append(preps, prep{fn, k})
			s.preps[fn] = true
		}
	}
	n := 0
	for _, pf := range preps {
		fn, k := pf.fn, pf.k
		s.texts = map[ssa.Value]bool{}
		for _, p := range fn.Params {
			if b, ok := p.Type().Underlying().(*types.Basic); ok && b.Kind() == types.String {
				s.texts[p] = true
			}
		}
		n++
		out := sqVerdict{}
		allInstrs(fn, func(i ssa.Instruction) {
			ret, ok := i.(*ssa.Return)
			if !ok || isRecoverBlockReturn(ret) || k >= len(ret.Results) {
				return
			}
			v := s.stmt(retVals(ret)[k], nil, 4)
			if v.status != sqOK && v.at == nil {
				v.at = i
			}
			out = out.worse(v)
		})
		key := safeFname(fn)
		switch out.status {
		case sqOK:
			c.r.ok(rule, key, "every statement returned carries the parse of this call's own query text", c.w.pos(fn.Pos()))
		case sqUndecided:
			c.r.undecided(rule, key, out.msg, c.w.ipos(out.at))
		default:
			site := c.w.pos(fn.Pos())
			if out.at != nil {
				site = c.w.ipos(out.at)
			}
			c.r.bad(rule, key, out.msg, []string{site})
		}
	}
	if n == 0 {
		c.r.undecided(rule, "<vacuity>", "no function of the driver package turns a query text into a statement")
	}
}

// ---------------- result rows stored as slices of driver.Value ----------------

const (
	rowsNone   = iota
	rowsStruct // []row, row = struct{fields, count}
	rowsSlice  // [][]driver.Value: each row stored the way Next hands it out: the group's values…, then the count
)

// rowsStorage finds the field of the rows type that holds the result rows: a slice whose elements are rows, i.e.
// structs or slices (the column list is a slice of strings and is not one).
func rowsStorage(rowsT *types.Named) (fld *types.Var, kind int) {
	st, ok := rowsT.Underlying().(*types.Struct)
	if !ok {
		return nil, rowsNone
	}
	for i := 0; i < st.NumFields(); i++ {
		sl, ok := st.Field(i).Type().Underlying().(*types.Slice)
		if !ok {
			continue
		}
		switch sl.Elem().Underlying().(type) {
		case *types.Struct:
			fld, kind = st.Field(i), rowsStruct
		case *types.Slice:
			fld, kind = st.Field(i), rowsSlice
		}
	}
	return
}

// A dstep is a step of a deep access path: like accPath, but element steps remember the index value, and the walk
// continues through local copies of struct values (range variables: `for _, g := range groups` copies the element).
type dstep struct {
	Field *types.Var
	Index ssa.Value // element step: the index (nil for map lookups)
	Elem  bool
}

func deepPath(v ssa.Value) (ssa.Value, []dstep) {
	var steps []dstep
	pre := func(s dstep) { steps = append([]dstep{s}, steps...) }
	for n := 0; n < 128; n++ {
		v = peel(v)
		switch x := v.(type) {
		case *ssa.FieldAddr:
			pre(dstep{Field: fieldOf(x.X.Type(), x.Field)})
			v = x.X
			continue
		case *ssa.Field:
			pre(dstep{Field: fieldOf(x.X.Type(), x.Field)})
			v = x.X
			continue
		case *ssa.IndexAddr:
			pre(dstep{Elem: true, Index: x.Index})
			v = x.X
			continue
		case *ssa.Index:
			pre(dstep{Elem: true, Index: x.Index})
			v = x.X
			continue
		case *ssa.UnOp:
			if x.Op == token.MUL {
				v = x.X
				continue
			}
		case *ssa.MakeInterface:
			v = x.X
			continue
		case *ssa.Convert:
			v = x.X
			continue
		case *ssa.Alloc:
			// a local copy of a struct value, written once
			if stores, esc := cellStores(x); !esc && len(stores) == 1 && len(steps) > 0 {
				v = stores[0].Val
				continue
			}
		}
		break
	}
	return v, steps
}

func dHasField(steps []dstep, f *types.Var) bool {
	for _, s := range steps {
		if s.Field == f {
			return true
		}
	}
	return false
}

func dLastField(steps []dstep) *types.Var {
	if len(steps) == 0 {
		return nil
	}
	return steps[len(steps)-1].Field
}

// dIndexAfter: the index of the element step that follows field f.
func dIndexAfter(steps []dstep, f *types.Var) ssa.Value {
	for k, s := range steps {
		if s.Field == f && k+1 < len(steps) && steps[k+1].Elem {
			return steps[k+1].Index
		}
	}
	return nil
}

// ascendingIndex: idx runs upwards by one from the start of a slice: the index of a `range` loop
// (phi[-1, idx] + 1) or of `for i := 0; …; i++` (phi[0, i+1]).
func ascendingIndex(idx ssa.Value) bool {
	plusOne := func(v ssa.Value, of ssa.Value) bool {
		b, ok := v.(*ssa.BinOp)
		if !ok || b.Op != token.ADD || b.X != of {
			return false
		}
		k, isK := constInt(b.Y)
		return isK && k == 1
	}
	phiFrom := func(phi *ssa.Phi, start int64, next func(e ssa.Value) bool) bool {
		if len(phi.Edges) != 2 {
			return false
		}
		nStart, nNext := 0, 0
		for _, e := range phi.Edges {
			if k, isK := constInt(e); isK && k == start {
				nStart++
			} else if next(e) {
				nNext++
			}
		}
		return nStart == 1 && nNext == 1
	}
	switch x := idx.(type) {
	case *ssa.BinOp:
		phi, ok := x.X.(*ssa.Phi)
		return ok && plusOne(x, phi) && phiFrom(phi, -1, func(e ssa.Value) bool { return e == ssa.Value(x) })
	case *ssa.Phi:
		return phiFrom(x, 0, func(e ssa.Value) bool { return plusOne(e, x) })
	}
	return false
}

// arrayElems: the values stored into the elements of a compiler-made array (slice literal, variadic operand), by
// constant index; ok is false if an element is written in another way.
func arrayElems(al *ssa.Alloc) (elems map[int64]ssa.Value, n int64, ok bool) {
	n, isArr := arrayLen(al.Type())
	if !isArr {
		return nil, 0, false
	}
	elems, ok = map[int64]ssa.Value{}, true
	for _, r := range referrers(al) {
		switch x := r.(type) {
		case *ssa.IndexAddr:
			k, isK := constInt(x.Index)
			if !isK {
				ok = false
				continue
			}
			for _, rr := range referrers(x) {
				if st, isSt := rr.(*ssa.Store); isSt && st.Addr == ssa.Value(x) {
					if _, dup := elems[k]; dup {
						ok = false
					}
					elems[k] = st.Val
				} else if _, isDbg := rr.(*ssa.DebugRef); !isDbg {
					ok = false
				}
			}
		case *ssa.Slice, *ssa.DebugRef:
		default:
			ok = false
		}
	}
	return
}

// sliceOfArray: v is `arr[:]` of a compiler-made array: returns the array.
func sliceOfArray(v ssa.Value) *ssa.Alloc {
	sl, ok := v.(*ssa.Slice)
	if !ok || sl.Low != nil || sl.High != nil {
		return nil
	}
	al, _ := sl.X.(*ssa.Alloc)
	if al == nil {
		return nil
	}
	if _, isArr := arrayLen(al.Type()); !isArr {
		return nil
	}
	return al
}

func isAppend(v ssa.Value) *ssa.Call {
	call, ok := v.(*ssa.Call)
	if !ok {
		return nil
	}
	if b, ok := call.Call.Value.(*ssa.Builtin); !ok || b.Name() != "append" || len(call.Call.Args) != 2 {
		return nil
	}
	return call
}

// rowsPlaced enumerates the row values that make up a value stored into the rows field: the elements of slice literals
// and of append chains. Loads of the rows field itself (the storage being extended) and nil contribute nothing.
// unknown: the storage is (also) filled in a way this does not follow (assigned by index, taken from elsewhere).
func rowsPlaced(v ssa.Value, fld *types.Var) (rows []ssa.Value, unknown bool) {
	seen := map[ssa.Value]bool{}
	var visit func(v ssa.Value)
	visit = func(v ssa.Value) {
		v = peel(v)
		if seen[v] {
			return
		}
		seen[v] = true
		if isNilConst(v) {
			return
		}
		if phi, ok := v.(*ssa.Phi); ok {
			for _, e := range phi.Edges {
				visit(e)
			}
			return
		}
		if call := isAppend(v); call != nil {
			visit(call.Call.Args[0])
			if al := sliceOfArray(call.Call.Args[1]); al != nil {
				elems, n, ok := arrayElems(al)
				if !ok || int64(len(elems)) != n {
					unknown = true
				}
				for k := int64(0); k < n; k++ {
					if e, ok := elems[k]; ok {
						rows = append(rows, e)
					}
				}
				return
			}
			visit(call.Call.Args[1]) // append(a, b...)
			return
		}
		if al := sliceOfArray(v); al != nil {
			elems, n, ok := arrayElems(al)
			if !ok || int64(len(elems)) != n {
				unknown = true
			}
			for k := int64(0); k < n; k++ {
				if e, ok := elems[k]; ok {
					rows = append(rows, e)
				}
			}
			return
		}
		if ms, ok := v.(*ssa.MakeSlice); ok {
			// make([][]driver.Value, n) filled by index: the rows are what is assigned to its elements
			for _, r := range referrers(ms) {
				switch x := r.(type) {
				case *ssa.IndexAddr:
					for _, rr := range referrers(x) {
						if st, ok := rr.(*ssa.Store); ok && st.Addr == ssa.Value(x) {
							rows = append(rows, st.Val)
						} else if _, isDbg := rr.(*ssa.DebugRef); !isDbg {
							unknown = true
						}
					}
				case *ssa.Store:
					if x.Val != ssa.Value(ms) {
						unknown = true
					}
				case *ssa.Call:
					if b, ok := x.Call.Value.(*ssa.Builtin); !ok || (b.Name() != "len" && b.Name() != "cap" && b.Name() != "append") {
						unknown = true
					}
				case *ssa.DebugRef, *ssa.Phi, *ssa.Return:
				default:
					unknown = true
				}
			}
			return
		}
		if ld, ok := v.(*ssa.UnOp); ok && ld.Op == token.MUL && path(ld.X).lastField() == fld {
			return
		}
		if sl, ok := v.(*ssa.Slice); ok && sl.Low == nil {
			visit(sl.X) // buf[:0], buf[:n]: the rows are those of buf (freshness is judged by C12.rowsfresh)
			return
		}
		unknown = true
	}
	visit(v)
	return
}

// resultLayout: the fields of the library's result the driver's rows are made of.
type resultLayout struct {
	total, groups, gFields, gCount, fValue *types.Var
	// bind: while a row-building helper is followed from one call, its parameters stand for that call's arguments
	// (newRow(rr.Fields, rr.Count): `fields` is the field list of group rr, `count` its count)
	bind  map[*ssa.Parameter]ssa.Value
	depth int
}

func (l *resultLayout) complete() bool {
	return l.total != nil && l.groups != nil && l.gFields != nil && l.gCount != nil && l.fValue != nil
}

func resultLayoutOf(c *Ctx) *resultLayout {
	return &resultLayout{
		total:   c.w.field(pkgRoot, "Result", "Count"),
		groups:  c.w.field(pkgRoot, "Result", "Groups"),
		gFields: c.w.field(pkgRoot, "ResultGroup", "Fields"),
		gCount:  c.w.field(pkgRoot, "ResultGroup", "Count"),
		fValue:  c.w.field(pkgRoot, "ResultField", "Value"),
	}
}

// deep is deepPath continued through the parameters of the helper(s) being followed: a path that starts at a bound
// parameter goes on in the caller, at the argument of the call.
func (l *resultLayout) deep(v ssa.Value) (ssa.Value, []dstep) {
	root, steps := deepPath(v)
	for n := 0; n < 8; n++ {
		p, isParam := root.(*ssa.Parameter)
		if !isParam {
			break
		}
		arg, bound := l.bind[p]
		if !bound {
			break
		}
		r2, s2 := deepPath(arg)
		root, steps = r2, append(append([]dstep{}, s2...), steps...)
	}
	return root, steps
}

// withArgs runs f with the callee's parameters bound to the arguments of call (and restores the bindings afterwards: the
// same helper builds the group rows and the total-count row, from different arguments).
func (l *resultLayout) withArgs(call *ssa.Call, callee *ssa.Function, f func() string) string {
	saved := l.bind
	l.bind = map[*ssa.Parameter]ssa.Value{}
	for p, a := range saved {
		l.bind[p] = a
	}
	for k, p := range callee.Params {
		if k < len(call.Call.Args) {
			if _, rec := saved[p]; !rec { // (a recursive helper keeps the outermost binding)
				l.bind[p] = call.Call.Args[k]
			}
		}
	}
	defer func() { l.bind = saved }()
	return f()
}

// emptyList: v is a list that holds nothing where it is used: nil, `[]T{}` or make([]T, 0[, n]) — possibly as the
// argument bound to a helper's parameter (newRow(nil, result.Count)).
func (l *resultLayout) emptyList(v ssa.Value) bool {
	root, steps := l.deep(v)
	if len(steps) != 0 {
		return false
	}
	if _, isSlice := root.Type().Underlying().(*types.Slice); !isSlice {
		return false
	}
	if isNilConst(root) {
		return true
	}
	if ms, ok := root.(*ssa.MakeSlice); ok {
		k, isK := constInt(ms.Len)
		return isK && k == 0
	}
	if al := sliceOfArray(root); al != nil {
		n, _ := arrayLen(al.Type())
		return n == 0
	}
	return false
}

// elemOfEmptyList: e is read from an element of a list that is empty here: the statement that uses it never runs (a
// loop over the list has no iteration; an index expression would panic before anything is built).
func (l *resultLayout) elemOfEmptyList(e ssa.Value) bool {
	root, steps := l.deep(e)
	return len(steps) > 0 && steps[0].Elem && l.emptyList(root)
}

// groupOf identifies the result group a deep path reads from: the element of result.Groups at some index (identified
// by the root and the index value), or — inside a helper that is handed one group — the parameter of type ResultGroup.
func (l *resultLayout) groupOf(root ssa.Value, steps []dstep) (id [2]ssa.Value, ok bool) {
	if dHasField(steps, l.groups) {
		return [2]ssa.Value{root, dIndexAfter(steps, l.groups)}, true
	}
	if p, isParam := root.(*ssa.Parameter); isParam && typeIs(p.Type(), pkgRoot, "ResultGroup") {
		return [2]ssa.Value{root, nil}, true
	}
	return id, false
}

// countElem: e (an element of a []driver.Value row) is a count of the result, converted to int64: the total
// (isTotal) or the count of the group `group`.
func (l *resultLayout) countElem(e ssa.Value) (group [2]ssa.Value, isTotal, ok bool) {
	mi, isMI := e.(*ssa.MakeInterface)
	if !isMI {
		return group, false, false
	}
	if b, isB := mi.X.Type().Underlying().(*types.Basic); !isB || b.Kind() != types.Int64 {
		return group, false, false // database/sql reports the column as BIGINT / int64
	}
	root, steps := l.deep(mi.X)
	switch dLastField(steps) {
	case l.total:
		return group, true, len(steps) == 1
	case l.gCount:
		group, ok = l.groupOf(root, steps)
		return group, false, ok
	}
	return group, false, false
}

// valueElem: e is the value of a field of group `group`; idx is the index into the group's field list.
func (l *resultLayout) valueElem(e ssa.Value, group [2]ssa.Value) (idx ssa.Value, why string) {
	root, steps := l.deep(e)
	if len(steps) == 1 && steps[0].Elem && isStringSlice(root.Type()) {
		// element i of a list of strings (handed to the helper as an argument): fine if that list is the group's
		// values, collected in the order of the group's field list
		if w := l.valuesInOrder(root, group, false); w != "" {
			return nil, "a column before the count comes from a list that is not the group's values in order (" + w + ")"
		}
		return steps[0].Index, ""
	}
	if dLastField(steps) != l.fValue || !dHasField(steps, l.gFields) {
		return nil, "a column before the count is not a value of the group's field list"
	}
	if g, ok := l.groupOf(root, steps); !ok || g != group {
		return nil, "a column before the count belongs to a different group than the count"
	}
	return dIndexAfter(steps, l.gFields), ""
}

// isLenOfGroupFields: v is len(<group>.Fields) of that group.
func (l *resultLayout) isLenOfGroupFields(v ssa.Value, group [2]ssa.Value) bool {
	call, ok := v.(*ssa.Call)
	if !ok {
		return false
	}
	if b, ok := call.Call.Value.(*ssa.Builtin); !ok || b.Name() != "len" {
		return false
	}
	root, steps := l.deep(call.Call.Args[0])
	if len(steps) == 0 && isStringSlice(root.Type()) {
		// the list of the group's values collected one per field has as many elements as the group has fields
		return l.valuesInOrder(root, group, false) == ""
	}
	if dLastField(steps) != l.gFields {
		return false
	}
	g, ok := l.groupOf(root, steps)
	return ok && g == group
}

// isLenOfEmpty: v is len(x) of a list that is empty here.
func (l *resultLayout) isLenOfEmpty(v ssa.Value) bool {
	call, ok := v.(*ssa.Call)
	if !ok {
		return false
	}
	if b, ok := call.Call.Value.(*ssa.Builtin); !ok || b.Name() != "len" {
		return false
	}
	return l.emptyList(call.Call.Args[0])
}

// valuesInOrder walks a slice back to where it starts: "" if it starts empty and is extended only one element at a time,
// each time by the value of a field of group `group`, going up the group's field list (group-by order); else why not.
// The slice is a row under construction (the part before the count) or a list of strings collected for a row-building
// helper. The row with the total count (isTotal) must not get any element this way — except in a statement that never
// runs because the list it reads from is empty at this call (newRow(nil, result.Count): the loop over nil).
func (l *resultLayout) valuesInOrder(start ssa.Value, group [2]ssa.Value, isTotal bool) string {
	if l.depth > 4 {
		return "the way a row is put together is nested too deeply to follow"
	}
	l.depth++
	defer func() { l.depth-- }()
	why := ""
	seen := map[ssa.Value]bool{}
	var visit func(v ssa.Value)
	visit = func(v ssa.Value) {
		v = peel(v)
		if seen[v] || why != "" {
			return
		}
		seen[v] = true
		if isNilConst(v) {
			return
		}
		if p, ok := v.(*ssa.Parameter); ok {
			if a, bound := l.bind[p]; bound {
				visit(a)
				return
			}
		}
		if phi, ok := v.(*ssa.Phi); ok {
			for _, e := range phi.Edges {
				visit(e)
			}
			return
		}
		if ms, ok := v.(*ssa.MakeSlice); ok {
			if k, isK := constInt(ms.Len); !isK || k != 0 {
				why = "a row starts from a slice that is not empty"
			}
			return
		}
		if al := sliceOfArray(v); al != nil {
			if n, _ := arrayLen(al.Type()); n != 0 {
				why = "a row starts from a slice literal that is not empty"
			}
			return
		}
		ap := isAppend(v)
		if ap == nil {
			why = "a row starts from something other than an empty slice"
			return
		}
		one := sliceOfArray(ap.Call.Args[1])
		if one == nil {
			why = "values are appended to a row other than one at a time"
			return
		}
		es, n, ok := arrayElems(one)
		if !ok || n != 1 || len(es) != 1 {
			why = "values are appended to a row other than one at a time"
			return
		}
		if isTotal {
			if !l.elemOfEmptyList(es[0]) {
				why = "the row with the total count has further columns"
				return
			}
			visit(ap.Call.Args[0])
			return
		}
		idx, w := l.valueElem(es[0], group)
		switch {
		case w != "":
			why = w
		case !ascendingIndex(idx):
			why = "the group's values are not appended in the order of the group's field list (group-by order)"
		}
		visit(ap.Call.Args[0])
	}
	visit(start)
	return why
}

// sliceRowLayout decides the layout of one row value placed into the rows storage: "" if the row is the values of one
// group in the order of the group's field list followed by that group's count (or the total count alone), else why not.
// Recognised ways to build a row: a literal holding just the count; an empty slice to which the group's values are
// appended one by one in a loop that runs up the group's field list, with the count appended last; a slice made with
// len(fields)+1 elements whose element i is assigned field i and whose element len(fields) is assigned the count;
// a helper of the module that returns such a row — from a group it is handed, or from the group's field list (or a list
// of strings collected from the group's values in order) and the group's count handed in as separate arguments; the
// total-count row may come out of the same helper, called with an empty list and the result's total count. The helper
// is judged with its parameters bound to the arguments of the call that places the row.
func (l *resultLayout) sliceRowLayout(w *World, rv ssa.Value, depth int) string {
	rv = peel(rv)
	if call, callee, vals, ok := resultOrigins(w, rv); ok && depth > 0 {
		// the helper is judged for this call: what it reads from its parameters is what the call hands in
		return l.withArgs(call, callee, func() string {
			for _, v := range vals {
				if isNilConst(v) {
					continue
				}
				if why := l.sliceRowLayout(w, v, depth-1); why != "" {
					return why
				}
			}
			return ""
		})
	}
	if al := sliceOfArray(rv); al != nil {
		elems, n, ok := arrayElems(al)
		if !ok || n != 1 || len(elems) != 1 {
			return "a row literal with other than exactly one element (the count) is not recognised"
		}
		if _, _, ok := l.countElem(elems[0]); !ok {
			return "the only element of a row literal is not a count of the result converted to int64"
		}
		return ""
	}
	if ms, ok := rv.(*ssa.MakeSlice); ok {
		return l.indexedRowLayout(ms)
	}
	call := isAppend(rv)
	if call == nil {
		return "the row placed into the list is not `append(values…, count)`: the count is not the last thing appended to it"
	}
	last := sliceOfArray(call.Call.Args[1])
	if last == nil {
		return "the last append to a row is not a single element"
	}
	elems, n, ok := arrayElems(last)
	if !ok || n != 1 || len(elems) != 1 {
		return "the last append to a row adds other than exactly one element"
	}
	group, isTotal, ok := l.countElem(elems[0])
	if !ok {
		return "the last element appended to a row is not the count (converted to int64): the count is not the last column"
	}
	// everything before: an empty slice, extended one value at a time by the values of the same group in order
	return l.valuesInOrder(call.Call.Args[0], group, isTotal)
}

// indexedRowLayout: a row made with make([]driver.Value, len(fields)+1) and filled by index: field i at index i, the
// count at index len(fields) (or len(row)-1); or make(…, 1) holding the total count at index 0.
func (l *resultLayout) indexedRowLayout(ms *ssa.MakeSlice) string {
	type asg struct {
		idx ssa.Value
		val ssa.Value
	}
	var asgs []asg
	for _, r := range referrers(ms) {
		switch x := r.(type) {
		case *ssa.IndexAddr:
			for _, rr := range referrers(x) {
				if st, ok := rr.(*ssa.Store); ok && st.Addr == ssa.Value(x) {
					asgs = append(asgs, asg{x.Index, st.Val})
				} else if _, isDbg := rr.(*ssa.DebugRef); !isDbg {
					return "an element of a row is used in a way that is not followed"
				}
			}
		case *ssa.Store:
			if x.Val != ssa.Value(ms) {
				return "a row made with make is used in a way that is not followed"
			}
		case *ssa.Call:
			if b, ok := x.Call.Value.(*ssa.Builtin); !ok || (b.Name() != "len" && b.Name() != "cap") {
				return "a row made with make is extended or passed on before it is placed into the list"
			}
		case *ssa.DebugRef, *ssa.Return, *ssa.Phi:
		default:
			return "a row made with make is used in a way that is not followed"
		}
	}
	var group [2]ssa.Value
	nCount, isTotal := 0, false
	var countIdx ssa.Value
	for _, a := range asgs {
		if g, tot, ok := l.countElem(a.val); ok {
			nCount++
			group, isTotal, countIdx = g, tot, a.idx
		}
	}
	if nCount != 1 {
		return "a row made with make is not assigned the count (converted to int64) exactly once"
	}
	lb, lo := lin(ms.Len)
	if isTotal {
		// one element: make(…, 1), or make(…, len(fields)+1) in a helper whose field list is empty at this call
		// (newRow(nil, result.Count)); assignments of elements of that empty list never run
		if k, isK := constInt(ms.Len); !(isK && k == 1) && !(lo == 1 && l.isLenOfEmpty(lb)) {
			return "the row with the total count has further columns"
		}
		for _, a := range asgs {
			if _, _, ok := l.countElem(a.val); !ok && !l.elemOfEmptyList(a.val) {
				return "the row with the total count has further columns"
			}
		}
		cb, co := lin(countIdx)
		k, isK := constInt(countIdx)
		okAt := (isK && k == 0) || (co == 0 && l.isLenOfEmpty(cb))
		if call, ok := cb.(*ssa.Call); ok && co == -1 {
			if b, ok := call.Call.Value.(*ssa.Builtin); ok && b.Name() == "len" && call.Call.Args[0] == ssa.Value(ms) {
				okAt = true
			}
		}
		if !okAt {
			return "the total count is not stored at index 0 of its row"
		}
		return ""
	}
	if lo != 1 || !l.isLenOfGroupFields(lb, group) {
		return "a row made with make does not have len(fields)+1 elements"
	}
	cb, co := lin(countIdx)
	okAt := co == 0 && l.isLenOfGroupFields(cb, group)
	if call, ok := cb.(*ssa.Call); ok && co == -1 {
		if b, ok := call.Call.Value.(*ssa.Builtin); ok && b.Name() == "len" && call.Call.Args[0] == ssa.Value(ms) {
			okAt = true
		}
	}
	if !okAt {
		return "the count is not stored at index len(fields) of its row: it is not the last column"
	}
	for _, a := range asgs {
		if _, _, ok := l.countElem(a.val); ok {
			continue
		}
		idx, w := l.valueElem(a.val, group)
		if w != "" {
			return w
		}
		if idx == nil || idx != a.idx {
			return "a value of the group's field list is not stored at its own index in the row (group-by order)"
		}
	}
	return ""
}

// c12ColsSliceRows is part (c) of C12.cols for rows stored as []driver.Value: the position of the count is decided
// where the rows are built (every row placed into the storage is the group's values in field-list order followed by the
// count, or the total count alone), and Next must hand the stored row out unchanged: element i to index i.
func c12ColsSliceRows(c *Ctx, rule string, rowsT *types.Named, fld *types.Var, next *ssa.Function) {
	site := c.w.pos(next.Pos())
	// ---- Next: identity copy of the stored row
	var dest ssa.Value
	if len(next.Params) >= 2 {
		dest = next.Params[1]
	}
	fromRow := func(v ssa.Value) bool {
		_, steps := deepPath(v)
		return dHasField(steps, fld)
	}
	nCopy, whyNext := 0, ""
	allInstrs(next, func(i ssa.Instruction) {
		switch x := i.(type) {
		case *ssa.Store:
			ia, ok := x.Addr.(*ssa.IndexAddr)
			if !ok || ia.X != dest {
				return
			}
			ld, ok := peel(x.Val).(*ssa.UnOp)
			if ok && ld.Op == token.MUL {
				if sia, ok := ld.X.(*ssa.IndexAddr); ok && sia.Index == ia.Index && fromRow(sia.X) {
					nCopy++
					return
				}
			}
			whyNext = "Next stores into the destination something other than element i of the stored row at index i"
		case *ssa.Call:
			if b, ok := x.Call.Value.(*ssa.Builtin); ok && b.Name() == "copy" && len(x.Call.Args) == 2 && x.Call.Args[0] == dest {
				src := x.Call.Args[1]
				if sl, ok := src.(*ssa.Slice); ok && sl.Low != nil {
					whyNext = "Next copies the stored row from an offset"
					return
				}
				if fromRow(src) {
					nCopy++
					return
				}
				whyNext = "Next copies something other than the stored row into the destination"
			}
		}
	})
	if nCopy == 0 && whyNext == "" {
		whyNext = "Next does not copy the stored row into the destination"
	}
	c.r.check(whyNext == "", rule, "rows.Next: fields", "element i of the stored row goes to index i", "Next does not hand out the stored row unchanged ("+whyNext+"): the group's values do not arrive at their own positions", site)
	// ---- construction: every row placed into the storage
	lay := resultLayoutOf(c)
	if !lay.complete() {
		c.r.undecided(rule, "rows.Next: count", "the result types (Result.Count/Groups, ResultGroup.Fields/Count, ResultField.Value) no longer resolve", site)
		return
	}
	nRows, whyRows := 0, ""
	var at ssa.Instruction
	for _, fn := range c.w.ModFuncs {
		if c.w.pkgPathOf(fn) != pkgDriver {
			continue
		}
		allInstrs(fn, func(i ssa.Instruction) {
			st, ok := i.(*ssa.Store)
			if !ok {
				return
			}
			if ia, isIA := st.Addr.(*ssa.IndexAddr); isIA {
				// r.rows[i] = row
				if ld, isLd := ia.X.(*ssa.UnOp); isLd && ld.Op == token.MUL && path(ld.X).lastField() == fld {
					nRows++
					if w := lay.sliceRowLayout(c.w, st.Val, 2); w != "" && whyRows == "" {
						whyRows, at = w, i
					}
				}
				return
			}
			fa, ok := st.Addr.(*ssa.FieldAddr)
			if !ok || fieldOf(fa.X.Type(), fa.Field) != fld {
				return
			}
			placed, unknown := rowsPlaced(st.Val, fld)
			if unknown && whyRows == "" {
				whyRows, at = "the row list is filled in a way that is not followed (not a literal or an append chain)", i
			}
			for _, rv := range placed {
				nRows++
				if w := lay.sliceRowLayout(c.w, rv, 2); w != "" && whyRows == "" {
					whyRows, at = w, i
				}
			}
		})
	}
	if nRows == 0 && whyRows == "" {
		whyRows = "no row is ever placed into the row list"
	}
	switch {
	case whyNext != "":
		c.r.bad(rule, "rows.Next: count", "Next does not hand out the stored row unchanged ("+whyNext+"): the count does not arrive right after the group's values", []string{site})
	case whyRows != "":
		s := site
		if at != nil {
			s = c.w.ipos(at)
		}
		c.r.bad(rule, "rows.Next: count", "the count is not stored right after the group's values (index len(fields)) in every row: "+whyRows, []string{s})
	default:
		c.r.ok(rule, "rows.Next: count", "every stored row is the group's values followed by the count, and Next hands it out unchanged", site)
	}
}
