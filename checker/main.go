// updogcheck decides structural clauses of the properties in /verif/properties.jsonl by static analysis of /repo.
// It never runs updog code. See /verif/DESIGN.md.
package main

import (
	"flag"
	"fmt"
	"os"
	"path/filepath"
	"runtime/debug"
	"sort"
	"strconv"
	"strings"
	"time"

	"golang.org/x/tools/go/ssa"
	"golang.org/x/tools/go/ssa/ssautil"
)

type propDef struct {
	id          string
	run         func(c *Ctx)
	explanation string   // what is decided / not decided (goes to coverage.explanation)
	assumptions []string // trusted base
}

var props = map[string]*propDef{}

// extraRule: a rule that is added to a property from another file than the property's own (rules shared by several
// properties, rules added in later rounds). Its description is appended to the property's explanation.
type extraRule struct {
	explain string
	run     func(c *Ctx)
}

var extraRules = map[string][]extraRule{}

func addRule(prop, explain string, run func(c *Ctx)) {
	extraRules[prop] = append(extraRules[prop], extraRule{explain, run})
}

func extraExplanation(prop string) string {
	out := ""
	for _, e := range extraRules[prop] {
		out += " ALSO decided: " + e.explain
	}
	return out
}

func register(p *propDef) { props[p.id] = p }

// Ctx is what a property's rules get: the loaded world, shared analyses, and the report.
type Ctx struct {
	w  *World
	fc *flowCtx
	r  *Report
	a  *Anchors
}

func main() {
	var (
		repo     = flag.String("repo", "/repo", "repository to analyse")
		verif    = flag.String("verif", "/verif", "verification directory (known_findings.txt, evidence/)")
		tier     = flag.String("tier", "quick", "quick | thorough")
		prop     = flag.String("prop", "", "property id (C01..C19)")
		noev     = flag.Bool("no-evidence", false, "do not write evidence/replay files (used when analysing scratch copies)")
		verbose  = flag.Bool("v", false, "print every obligation")
		explain  = flag.String("explain", "", "print a replay file in readable form and re-run its rule")
		dumpFunc = flag.String("dump", "", "debug: dump SSA of functions whose name contains this string")
		anchors  = flag.Bool("anchors", false, "debug: print the program entity every role resolves to (and why a role does not resolve)")
	)
	flag.Parse()
	if *explain != "" {
		os.Exit(explainReplay(*explain, *repo, *verif))
	}
	if *anchors {
		w, err := loadWorld(*repo, "quick", "")
		if err != nil {
			fmt.Fprintln(os.Stderr, err)
			os.Exit(2)
		}
		c := &Ctx{w: w, fc: newFlowCtx(w), r: newReport("anchors")}
		c.a = resolveAnchors(c)
		c.a.dump(os.Stdout)
		return
	}
	if *dumpFunc != "" {
		w, err := loadWorld(*repo, "quick", "")
		if err != nil {
			fmt.Fprintln(os.Stderr, err)
			os.Exit(2)
		}
		for _, f := range w.ModFuncs {
			if strings.Contains(safeFname(f), *dumpFunc) {
				f.WriteTo(os.Stdout)
			}
		}
		// instances of the module's generic functions and the wrappers of its methods (thunks, bound methods) are
		// synthetic and therefore not in ModFuncs; rules that look through them need to see their bodies too
		var syn []*ssa.Function
		for f := range ssautil.AllFunctions(w.Prog) {
			if f.Synthetic != "" && f.Blocks != nil && w.inModule(f) && strings.Contains(f.String(), *dumpFunc) {
				syn = append(syn, f)
			}
		}
		sort.Slice(syn, func(i, j int) bool { return syn[i].String() < syn[j].String() })
		for _, f := range syn {
			f.WriteTo(os.Stdout)
		}
		return
	}
	p := props[*prop]
	if p == nil {
		fmt.Fprintf(os.Stderr, "unknown property %q\n", *prop)
		os.Exit(2)
	}
	os.Exit(runProp(p, *repo, *verif, *tier, *noev, *verbose))
}

func runProp(p *propDef, repo, verif, tier string, noev, verbose bool) (code int) {
	t0 := time.Now()
	seed := 0
	if s := os.Getenv("VERIF_SEED"); s != "" {
		seed, _ = strconv.Atoi(s) // no random choices are made; recorded only
	}
	r := newReport(p.id)
	evPath := filepath.Join(verif, "evidence", p.id+".json")
	replayDir := filepath.Join(verif, "evidence", "replay")

	// tag sets: quick analyses the default build; thorough additionally the build with the hook guard on,
	// so that a file guarded by `verif` cannot hide from the rules.
	tagSets := []string{""}
	if tier == "thorough" {
		tagSets = append(tagSets, "verif")
	}
	var worlds []*World
	fatal := ""
	func() {
		defer func() {
			if e := recover(); e != nil {
				fatal = fmt.Sprintf("checker panic: %v\n%s", e, debug.Stack())
			}
		}()
		for _, tags := range tagSets {
			w, err := loadWorld(repo, tier, tags)
			if err != nil {
				fatal = err.Error()
				return
			}
			worlds = append(worlds, w)
			c := &Ctx{w: w, fc: newFlowCtx(w), r: r}
			c.a = resolveAnchors(c)
			p.run(c)
			for _, extra := range extraRules[p.id] {
				extra.run(c)
			}
		}
		r.finish()
	}()
	if fatal != "" {
		r.undecided(p.id+".load", "<program>", fatal)
	}

	known, kerr := loadKnown(filepath.Join(verif, "known_findings.txt"))
	if kerr != nil {
		r.undecided(p.id+".known", "<known_findings.txt>", kerr.Error())
	}
	isKnown := func(o *Ob) *knownFinding {
		for i := range known {
			if known[i].prop == p.id && known[i].key == o.Key() {
				return &known[i]
			}
		}
		return nil
	}

	sort.SliceStable(r.Obs, func(i, j int) bool { return r.Obs[i].Key() < r.Obs[j].Key() })
	nViol, nKnown, nOK := 0, 0, 0
	var violLines []string
	if !noev {
		os.RemoveAll(replayDir + "/" + p.id)
	}
	for _, o := range r.Obs {
		if verbose {
			fmt.Printf("%-10s %s  %s  %s\n", o.Status, o.Key(), strings.Join(o.Sites, ","), o.Msg)
		}
		switch o.Status {
		case "discharged":
			nOK++
		default:
			if kf := isKnown(o); kf != nil && o.Status == "violated" {
				nKnown++
				fmt.Printf("KNOWN-FINDING: property=%s %s\n", p.id, kf.text)
				continue
			}
			nViol++
			rp := filepath.Join(replayDir, p.id, fmt.Sprintf("%s-%d.json", p.id, nViol))
			if noev {
				rp = "(not written)"
			} else {
				_ = writeJSON(rp, map[string]interface{}{
					"property": p.id, "status": o.Status, "rule": o.Rule, "construct": o.Construct, "key": o.Key(),
					"sites": o.Sites, "message": o.Msg, "witness": o.Witness,
					"rerun": fmt.Sprintf("cd /verif && ./run.sh explain %s", rp),
				})
			}
			violLines = append(violLines, fmt.Sprintf("VIOLATION property=%s replay=%s", p.id, rp))
			fmt.Printf("  %s %s at %s: %s\n", o.Status, o.Key(), strings.Join(o.Sites, ","), o.Msg)
			for _, wl := range o.Witness {
				fmt.Printf("      %s\n", wl)
			}
		}
	}
	for _, l := range violLines {
		fmt.Println(l)
	}

	// evidence
	rules := map[string]bool{}
	var samples []interface{}
	perRule := map[string]int{}
	for _, o := range r.Obs {
		rules[o.Rule] = true
		perRule[o.Rule]++
	}
	// samples: first obligation of each rule
	shown := map[string]bool{}
	for _, o := range r.Obs {
		if !shown[o.Rule] && len(samples) < 12 {
			shown[o.Rule] = true
			samples = append(samples, o)
		}
	}
	cov := map[string]interface{}{
		"explanation":         p.explanation + extraExplanation(p.id),
		"obligations":         len(r.Obs),
		"discharged":          nOK,
		"known_findings":      nKnown,
		"evaluations":         len(r.Obs),
		"distinct_nontrivial": len(r.seen),
		"rule":                "one obligation per (rule, construct) found in /repo's type-checked program; distinct = distinct rule[construct] keys; every obligation is non-trivial in that it names a construct that exists in the analysed source",
		"rules":               perRule,
		"samples":             samples,
		"exhaustive":          true,
		"checker_cmd":         fmt.Sprintf("bin/updogcheck -tier %s -prop %s", tier, p.id),
		"trusted_base":        p.assumptions,
		"notes":               r.Notes,
	}
	for k, v := range r.Stats {
		cov[k] = v
	}
	if len(worlds) > 0 {
		w := worlds[0]
		cov["packages"] = len(w.Pkgs)
		cov["module_functions"] = len(w.ModFuncs)
		cov["program_functions_with_bodies"] = w.NumFuncs
		cov["callgraph"] = map[string]string{"quick": "CHA over module SSA + address-taken functions", "thorough": "VTA over whole program + address-taken functions"}[tier]
		cov["tag_sets"] = tagSets
	}
	if tier == "thorough" && !noev && os.Getenv("VERIF_NO_SELFTEST") == "" {
		cov["selftest"] = selfTest(p.id, repo, verif)
	}
	ev := evidence{PropertyID: p.id, Tier: tier, Seed: seed, Level: "other", Coverage: cov,
		Assumptions: p.assumptions, WallS: time.Since(t0).Seconds(), Violations: nViol}
	if !noev {
		if err := writeJSON(evPath, ev); err != nil {
			fmt.Fprintln(os.Stderr, "cannot write evidence:", err)
			return 2
		}
	}
	fmt.Printf("%s %s: %d obligations, %d discharged, %d known findings, %d violated/undecided (%.1fs)\n",
		p.id, tier, len(r.Obs), nOK, nKnown, nViol, time.Since(t0).Seconds())
	if nViol > 0 {
		return 1
	}
	return 0
}

func explainReplay(path, repo, verif string) int {
	b, err := os.ReadFile(path)
	if err != nil {
		fmt.Fprintln(os.Stderr, err)
		return 2
	}
	fmt.Printf("%s\n", b)
	// re-run the property the replay belongs to, verbosely, without touching evidence
	base := filepath.Base(path)
	id := strings.SplitN(base, "-", 2)[0]
	if p := props[id]; p != nil {
		return runProp(p, repo, verif, "quick", true, false)
	}
	return 2
}
