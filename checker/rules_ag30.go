package main

// Round 9 (ag30): the protocols of the driver's connection registry, followed through helpers and through the two
// equivalent shapes a maintainer can give them:
//
//   - the index opened by the connection itself under a sync.Once of the connection (after lookup + insert in one
//     exclusive critical section) instead of inside the critical section (c17OnceInits, c17OnceOpen);
//   - the reference dropped outside the mutex, with the tear-down re-checking the count under the mutex
//     (c17Evict: same critical section OR re-check);
//   - a driver map that is a pure memo of its key (c17MemoMap) is not connection state.

import (
	"fmt"
	"go/token"
	"go/types"
	"strings"

	"golang.org/x/tools/go/ssa"
)

// ---------- the index opened under the connection's own sync.Once ----------

// onceInit describes `conn.once.Do(func() { … })` where once is a sync.Once field of the file connection type.
type onceInit struct {
	closure *ssa.Function // the function literal Do runs (at most once per connection)
	opener  *ssa.Function // the function that calls Do
	do      *ssa.Call
	once    *types.Var
	recv    ssa.Value // the connection whose Once is used (peeled)
}

// c17OnceInits finds, in fns, the function literals handed directly (and only) to (*sync.Once).Do of a Once that is a
// field of the file connection type.
func c17OnceInits(c *Ctx, fns []*ssa.Function) map[*ssa.Function]*onceInit {
	out := map[*ssa.Function]*onceInit{}
	for _, fn := range fns {
		fn := fn
		allInstrs(fn, func(i ssa.Instruction) {
			call, ok := i.(*ssa.Call)
			if !ok || calleeName(&call.Call) != "(*sync.Once).Do" || len(call.Call.Args) != 2 {
				return
			}
			fa, ok := call.Call.Args[0].(*ssa.FieldAddr)
			if !ok {
				return
			}
			fld := fieldOf(fa.X.Type(), fa.Field)
			if fld == nil || c.w.ownerOf(fld) != c.a.FileConnT {
				return
			}
			mc, ok := call.Call.Args[1].(*ssa.MakeClosure)
			if !ok {
				return
			}
			g, ok := mc.Fn.(*ssa.Function)
			if !ok || g.Parent() != fn {
				return
			}
			// the literal must not be callable in any other way
			for _, r := range referrers(mc) {
				if _, dbg := r.(*ssa.DebugRef); dbg || r == ssa.Instruction(call) {
					continue
				}
				return
			}
			out[g] = &onceInit{closure: g, opener: fn, do: call, once: fld, recv: peel(fa.X)}
		})
	}
	return out
}

// onConn: addr is the address of a field of the file connection object conn.
func (oi *onceInit) fieldOfConn(c *Ctx, addr ssa.Value) *types.Var {
	fa, ok := addr.(*ssa.FieldAddr)
	if !ok {
		return nil
	}
	fld := fieldOf(fa.X.Type(), fa.Field)
	if fld == nil || c.w.ownerOf(fld) != c.a.FileConnT || !sameValue(fa.X, oi.recv) {
		return nil
	}
	return fld
}

// c17OnceOpen decides the "registered, then opened once by the connection" protocol for the OpenIndex call o inside a
// Once literal: (1) the index and the error of o are stored into fields of the very connection whose Once runs the
// literal; (2) the function calling Do returns that error field; (3) in the open function every successful return
// hands out a connection on which the opener was called on every path, and the opener's error is propagated. Together
// with lookup + insert in one exclusive critical section (decided by the caller) this gives exactly one OpenIndex per
// registered connection — concurrent first users share the connection and wait in Do — and no connection is handed
// out before its index is set. msg says what is missing; decided=false means the shape could not be followed.
func c17OnceOpen(c *Ctx, o *ssa.Call, oi *onceInit) (ok, decided bool, msg string, at ssa.Instruction) {
	var idxF, errF *types.Var
	allInstrs(oi.closure, func(i ssa.Instruction) {
		st, isSt := i.(*ssa.Store)
		if !isSt {
			return
		}
		f := oi.fieldOfConn(c, st.Addr)
		if f == nil {
			return
		}
		if v := resultValue(o, 0); v != nil && st.Val == v {
			idxF = f
		}
		if v := resultValue(o, 1); v != nil && st.Val == v {
			errF = f
		}
	})
	if idxF == nil || errF == nil {
		return false, false, "the index opened under the connection's sync.Once (or its error) is not stored in that connection", o
	}
	// (2) the opener reports the stored error
	nRet := 0
	good := true
	allInstrs(oi.opener, func(i ssa.Instruction) {
		ret, isRet := i.(*ssa.Return)
		if !isRet || isRecoverBlockReturn(ret) {
			return
		}
		nRet++
		rv := retVals(ret)
		if len(rv) == 0 || !isErrorType(rv[len(rv)-1].Type()) {
			good = false
			return
		}
		ld, isLd := rv[len(rv)-1].(*ssa.UnOp)
		if !isLd || ld.Op != token.MUL || oi.fieldOfConn(c, ld.X) != errF || !c.fc.reachableFrom(oi.opener, oi.do, ret) {
			good = false
		}
	})
	if nRet == 0 || !good {
		return false, false, "the function that runs the connection's sync.Once does not return the error OpenIndex stored in the connection", oi.do
	}
	// (3) hand-out only after the opener, error propagated
	var handedOut func(f *ssa.Function, depth int) (bool, bool, string, ssa.Instruction)
	handedOut = func(f *ssa.Function, depth int) (bool, bool, string, ssa.Instruction) {
		var opens []*ssa.Call
		allInstrs(f, func(i ssa.Instruction) {
			if call, isCall := i.(*ssa.Call); isCall && calleeFunc(&call.Call) == oi.opener {
				opens = append(opens, call)
			}
		})
		for _, call := range opens {
			if out := c.fc.errPropagated(f, call, resultValue(call, call.Call.Signature().Results().Len()-1)); !out.ok {
				return false, true, "the error of the connection's once-guarded open is not propagated (" + out.msg + "): a connection without an index is handed out and the first query on it panics", out.site
			}
		}
		var res struct {
			ok, decided bool
			msg         string
			at          ssa.Instruction
		}
		res.ok, res.decided = true, true
		n := 0
		allInstrs(f, func(i ssa.Instruction) {
			if !res.ok || !isSuccessReturn(i) {
				return
			}
			ret := i.(*ssa.Return)
			v := peelConv(retVals(ret)[0])
			if mi, isMI := v.(*ssa.MakeInterface); isMI {
				v = peelConv(mi.X)
			}
			n++
			if _, isPhi := v.(*ssa.Phi); isPhi {
				res.ok, res.decided, res.msg, res.at = false, false, "cannot follow the connection a successful open returns (it is one of several values)", i
				return
			}
			if namedOf(v.Type()) == c.a.FileConnT {
				passes := func(x ssa.Instruction) bool {
					call, isCall := x.(*ssa.Call)
					return isCall && calleeFunc(&call.Call) == oi.opener && len(call.Call.Args) > 0 && sameValue(call.Call.Args[0], v)
				}
				if p := c.fc.pathAvoiding(f, nil, func(x ssa.Instruction) bool { return x == i }, passes); p != nil {
					res.ok, res.msg, res.at = false, "a connection is handed out on a path that does not pass its once-guarded open: a concurrent first user gets a connection whose index is not set yet, and its first query panics", i
				}
				return
			}
			// the whole open delegated to a helper: its successful returns
			if _, h, _, isCall := resultOrigins(c.w, v); isCall && depth > 0 {
				res.ok, res.decided, res.msg, res.at = handedOut(h, depth-1)
				return
			}
			res.ok, res.decided, res.msg, res.at = false, false, "cannot follow the connection a successful open returns", i
		})
		if n == 0 {
			return false, false, "the open function has no successful return", nil
		}
		return res.ok, res.decided, res.msg, res.at
	}
	return handedOut(c.a.DrvOpenFile, 2)
}

// c17LookupOf: the map lookup whose value the address v (of a field of the found element) is reached from, or nil.
func c17LookupOf(v ssa.Value) *ssa.Lookup {
	for n := 0; n < 16; n++ {
		switch x := peel(v).(type) {
		case *ssa.FieldAddr:
			v = x.X
		case *ssa.Extract:
			l, _ := x.Tuple.(*ssa.Lookup)
			return l
		case *ssa.Lookup:
			return x
		default:
			return nil
		}
	}
	return nil
}

// c17CellVal: a load of a local variable (a named result, say) that is assigned exactly once — not counting the
// `*r = *r` go/ssa emits in front of rundefers — stands for the assigned value; other values stand for themselves.
func c17CellVal(v ssa.Value) ssa.Value {
	ld, ok := v.(*ssa.UnOp)
	if !ok || ld.Op != token.MUL {
		return v
	}
	cell, ok := ld.X.(*ssa.Alloc)
	if !ok {
		return v
	}
	stores, esc := cellStores(cell)
	if esc {
		return v
	}
	var real []*ssa.Store
	for _, st := range stores {
		if l2, isLd := st.Val.(*ssa.UnOp); isLd && l2.Op == token.MUL && l2.X == ssa.Value(cell) {
			continue
		}
		real = append(real, st)
	}
	if len(real) != 1 {
		return v
	}
	return real[0].Val
}

// ---------- eviction ----------

// c17Evict: the close side of the registry protocol. With S = the connection's Close and the helpers it calls:
// (E1) every path to (*Index).Close has evicted the connection — passed a delete on the cache map (in a helper too: a
// call counts when its callee evicts on every path to the returns compatible with the branch taken on its boolean
// result), where the not-equal edge of `cache[k] == conn` counts as evicted (the connection is not registered);
// (E2) every delete holds the mutex exclusively; (E3) the decision to tear down is made under the mutex: the decrement
// holds it exclusively and shares its critical section with the delete, OR the delete is reached only on the edge on
// which a re-read of the counter under the same exclusive critical section was found to be <= 0. Without either a
// concurrent open can take a reference (it holds the mutex, shared or exclusively) between the decrement that reached
// zero and the eviction, and is handed a connection whose index is then closed under it.
func c17Evict(c *Ctx, la *LockAn, mtx, cache *types.Var, lockName string, isUnlock func(ssa.Instruction) bool) {
	const ev = "C17.evict"
	scopeC := c.scope(c.a.FileConnClose, 2)
	inScope := map[*ssa.Function]bool{}
	for _, f := range scopeC {
		inScope[f] = true
	}
	cacheMapValue := func(v ssa.Value) bool { return path(v).lastField() == cache }
	isDel := func(i ssa.Instruction) bool {
		call, ok := i.(*ssa.Call)
		if !ok {
			return false
		}
		b, isB := call.Call.Value.(*ssa.Builtin)
		return isB && b.Name() == "delete" && len(call.Call.Args) > 0 && cacheMapValue(call.Call.Args[0])
	}
	var cl *ssa.Function
	var dels, idxCloses, decs, loads []ssa.Instruction
	for _, f := range scopeC {
		allInstrs(f, func(i ssa.Instruction) {
			call, ok := i.(*ssa.Call)
			if !ok {
				return
			}
			if isDel(i) {
				dels = append(dels, i)
			}
			if calleeFunc(&call.Call) == c.a.IndexClose && (cl == nil || cl == f) {
				cl = f
				idxCloses = append(idxCloses, i)
			}
			switch calleeName(&call.Call) {
			case "(*sync/atomic.Int32).Add", "(*sync/atomic.Int64).Add", "sync/atomic.AddInt32", "sync/atomic.AddInt64":
				if k, isK := constInt(call.Call.Args[len(call.Call.Args)-1]); !isK || k < 0 {
					decs = append(decs, i)
				}
			case "(*sync/atomic.Int32).Load", "(*sync/atomic.Int64).Load", "sync/atomic.LoadInt32", "sync/atomic.LoadInt64":
				loads = append(loads, i)
			}
		})
	}
	if cl == nil {
		c.r.undecided(ev, safeFname(c.a.FileConnClose), "the connection's Close does not call (*Index).Close in a function the rule follows", c.w.pos(c.a.FileConnClose.Pos()))
		return
	}
	csite := c.w.pos(cl.Pos())
	okAll := true

	// --- E1 ---
	var evicts func(h *ssa.Function, k *bool, depth int) bool
	avoidAt := func(depth int) func(ssa.Instruction) bool {
		return func(i ssa.Instruction) bool {
			if isDel(i) {
				return true
			}
			call, ok := i.(*ssa.Call) // (a deferred helper runs at the return, after everything else: not an event here)
			if !ok || depth <= 0 {
				return false
			}
			h := calleeFunc(&call.Call)
			return h != nil && inScope[h] && evicts(h, nil, depth-1)
		}
	}
	cutAt := func(depth int) func(pred, succ *ssa.BasicBlock) bool {
		return func(pred, succ *ssa.BasicBlock) bool {
			iff, ok := pred.Instrs[len(pred.Instrs)-1].(*ssa.If)
			if !ok || len(pred.Succs) != 2 || pred.Succs[0] == pred.Succs[1] {
				return false
			}
			for _, cm := range trueCmps(fact{iff.Cond, pred.Succs[0] == succ}) {
				if cm.Y == nil {
					// the branch on a helper's boolean result (`if !d.release(c) { return nil }`)
					call, isCall := cm.X.(*ssa.Call)
					if !isCall || depth <= 0 {
						continue
					}
					k := cm.Op == token.EQL
					if h := calleeFunc(&call.Call); h != nil && inScope[h] && evicts(h, &k, depth-1) {
						return true
					}
					continue
				}
				if cm.Op != token.NEQ {
					continue
				}
				// cache[k] != conn: this connection is not registered (any more)
				for _, pr := range [][2]ssa.Value{{cm.X, cm.Y}, {cm.Y, cm.X}} {
					var lk *ssa.Lookup
					switch x := pr[0].(type) {
					case *ssa.Lookup:
						lk = x
					case *ssa.Extract:
						if l, isL := x.Tuple.(*ssa.Lookup); isL && x.Index == 0 {
							lk = l
						}
					}
					if lk != nil && cacheMapValue(lk.X) && namedOf(pr[1].Type()) == c.a.FileConnT && !isNilConst(pr[1]) {
						return true
					}
				}
			}
			return false
		}
	}
	// evicts: every path of h to a return that may yield *k (any return if k == nil) has evicted the connection
	evicts = func(h *ssa.Function, k *bool, depth int) bool {
		if h == nil || h.Blocks == nil || depth < 0 {
			return false
		}
		isRet := func(i ssa.Instruction) bool {
			ret, ok := i.(*ssa.Return)
			if !ok || isRecoverBlockReturn(ret) {
				return false
			}
			if k == nil || len(ret.Results) == 0 {
				return true
			}
			if b, isB := constBool(retVals(ret)[0]); isB && b != *k {
				return false
			}
			return true
		}
		// `last := n == 0; if last { evict }; return last`: when all these returns yield one (non-constant) value, an
		// edge on which that value is known to differ from *k leads to no return with *k
		var rv ssa.Value
		single := k != nil
		if single {
			allInstrs(h, func(i ssa.Instruction) {
				if !isRet(i) || len(i.(*ssa.Return).Results) == 0 {
					return
				}
				v := retVals(i.(*ssa.Return))[0]
				if _, isK := v.(*ssa.Const); isK {
					return
				}
				v = c17CellVal(v)
				if rv != nil && !sameValue(rv, v) {
					single = false
				}
				rv = v
			})
		}
		base := cutAt(depth)
		cut := func(pred, succ *ssa.BasicBlock) bool {
			if base(pred, succ) {
				return true
			}
			iff, ok := pred.Instrs[len(pred.Instrs)-1].(*ssa.If)
			if !ok || !single || rv == nil || len(pred.Succs) != 2 || pred.Succs[0] == pred.Succs[1] {
				return false
			}
			for _, cm := range trueCmps(fact{iff.Cond, pred.Succs[0] == succ}) {
				if cm.Y == nil && sameValue(c17CellVal(cm.X), rv) && (cm.Op == token.EQL) != *k {
					return true
				}
			}
			return false
		}
		return c.fc.pathFrom(h, nil, isRet, avoidAt(depth), cut) == nil
	}
	var unevicted func(fn *ssa.Function, target ssa.Instruction, depth int) []ssa.Instruction
	unevicted = func(fn *ssa.Function, target ssa.Instruction, depth int) []ssa.Instruction {
		p := c.fc.pathFrom(fn, nil, func(i ssa.Instruction) bool { return i == target }, avoidAt(2), cutAt(2))
		if p == nil || fn == c.a.FileConnClose || depth <= 0 {
			return p
		}
		// the function is a helper of Close: the eviction may have happened in the caller before the call
		callers := 0
		var w []ssa.Instruction
		for _, g := range scopeC {
			allInstrs(g, func(i ssa.Instruction) {
				if cc := callCommon(i); cc != nil && calleeFunc(cc) == fn && g != fn && w == nil {
					callers++
					if q := unevicted(g, i, depth-1); q != nil {
						w = append(append([]ssa.Instruction{}, q...), p...)
					}
				}
			})
		}
		if callers == 0 {
			return p
		}
		return w
	}
	for _, ic := range idxCloses {
		if p := unevicted(cl, ic, 2); p != nil {
			okAll = false
			c.r.bad(ev, safeFname(cl)+": close without evict", "the index is closed on a path that does not remove the connection from the cache: the next open of the same file is handed a connection whose index is closed", []string{c.w.ipos(ic)}, c.fc.witnessStrings(p)...)
		}
	}

	// --- E2 ---
	for _, d := range dels {
		if la.stateAt(d)[mtx] != lkW {
			okAll = false
			c.r.bad(ev, safeFname(d.Parent())+": delete", "the cache entry is deleted without holding "+lockName+" exclusively", []string{c.w.ipos(d)})
		}
	}

	// --- E3 ---
	// sites of x in g: x itself, or the calls in g through which x is reached
	sitesIn := func(x ssa.Instruction, g *ssa.Function) []ssa.Instruction {
		if x.Parent() == g {
			return []ssa.Instruction{x}
		}
		var out []ssa.Instruction
		allInstrs(g, func(i ssa.Instruction) {
			call, ok := i.(*ssa.Call)
			if !ok {
				return
			}
			if h := calleeFunc(&call.Call); h != nil && h != g && inScope[h] && c.fc.mayContain(h, func(j ssa.Instruction) bool { return j == x }, 2) {
				out = append(out, i)
			}
		})
		return out
	}
	unlockBetween := func(g *ssa.Function, a, b ssa.Instruction) ssa.Instruction {
		var hit ssa.Instruction
		allInstrs(g, func(u ssa.Instruction) {
			if hit == nil && isUnlock(u) && c.fc.reachableFrom(g, a, u) && c.fc.reachableFrom(g, u, b) {
				hit = u
			}
		})
		return hit
	}
	counterOf := func(i ssa.Instruction) *types.Var { return path(callCommon(i).Args[0]).lastField() }
	// rechecked: x (a delete, or the call that reaches it) executes only where a re-read of the counter cnt, made in the
	// same exclusive critical section, was found to be <= 0
	var rechecked func(g *ssa.Function, x ssa.Instruction, cnt *types.Var, depth int) bool
	rechecked = func(g *ssa.Function, x ssa.Instruction, cnt *types.Var, depth int) bool {
		if la.stateAt(x)[mtx] == lkW {
			for _, l := range loads {
				if l.Parent() != g || counterOf(l) != cnt || la.stateAt(l)[mtx] != lkW || unlockBetween(g, l, x) != nil {
					continue
				}
				for _, cm := range cmpsAt(x) {
					if cm.X != l.(ssa.Value) || cm.Y == nil {
						continue
					}
					k, isK := constInt(cm.Y)
					if isK && ((cm.Op == token.LEQ && k <= 0) || (cm.Op == token.EQL && k <= 0) || (cm.Op == token.LSS && k <= 1)) {
						return true
					}
				}
			}
		}
		if g == c.a.FileConnClose || depth <= 0 {
			return false
		}
		n := 0
		for _, g2 := range scopeC {
			if g2 == g {
				continue
			}
			for _, s := range sitesIn(x, g2) {
				if s.Parent() == g2 && s != x {
					n++
					if !rechecked(g2, s, cnt, depth-1) {
						return false
					}
				}
			}
		}
		return n > 0
	}
	for _, d := range decs {
		fd := d.Parent()
		dW := la.stateAt(d)[mtx] == lkW
		for _, x := range dels {
			same := false
			var split ssa.Instruction
			if dW {
				for _, s := range sitesIn(x, fd) {
					if la.stateAt(s)[mtx] != lkW {
						continue
					}
					if u := unlockBetween(fd, d, s); u != nil {
						split = u
						continue
					}
					same = true
				}
			}
			if same || rechecked(x.Parent(), x, counterOf(d), 2) {
				continue
			}
			okAll = false
			switch {
			case !dW:
				c.r.bad(ev, safeFname(fd)+": decrement", "the reference count is decremented outside the critical section that evicts the connection, and the eviction does not re-check the count under "+lockName+": a concurrent open can take a reference to a connection that is about to be closed", []string{c.w.ipos(d)}, c.w.ipos(x))
			case split != nil:
				c.r.bad(ev, safeFname(fd)+": unlock between decrement and delete", "the mutex is released between the decrement that reached zero and the eviction", []string{c.w.ipos(split)})
			default:
				c.r.bad(ev, safeFname(fd)+": decrement and delete in different critical sections", "the decrement that reaches zero and the eviction of the connection are not in one critical section of "+lockName+" (and the eviction does not re-check the count): in between the connection is still registered with no user, a concurrent open takes it and is handed a connection whose index is being closed", []string{c.w.ipos(d)}, c.w.ipos(x))
			}
		}
	}
	if okAll {
		c.r.ok(ev, safeFname(cl), "the last Close evicts the connection before closing the index, and decides to do so under the mutex (critical section of the decrement, or re-check of the count)", csite)
	}
}

// ---------- a driver map that is a pure memo of its key ----------

// plainData: values of type t consist of numbers, booleans and strings only (through pointers, structs of the module,
// slices, arrays, maps): they can hold no connection, index, cache, option closure or other identity.
func plainData(t types.Type, depth int) bool {
	if depth > 6 {
		return false
	}
	switch u := t.Underlying().(type) {
	case *types.Basic:
		return u.Kind() != types.UnsafePointer && u.Kind() != types.Uintptr
	case *types.Pointer:
		return plainData(u.Elem(), depth+1)
	case *types.Slice:
		return plainData(u.Elem(), depth+1)
	case *types.Array:
		return plainData(u.Elem(), depth+1)
	case *types.Map:
		return plainData(u.Key(), depth+1) && plainData(u.Elem(), depth+1)
	case *types.Struct:
		if n := namedOf(t); n != nil && n.Obj().Pkg() != nil && !strings.HasPrefix(n.Obj().Pkg().Path(), modPath) {
			return false
		}
		for i := 0; i < u.NumFields(); i++ {
			if !plainData(u.Field(i).Type(), depth+1) {
				return false
			}
		}
		return true
	}
	return false
}

// deterministicExtern: library functions whose results depend on their arguments only.
func deterministicExtern(name string) bool {
	for _, p := range []string{"strings.", "strconv.", "unicode.", "unicode/utf8.", "(net/url.Values).", "(*strings.Builder)."} {
		if strings.HasPrefix(name, p) {
			return true
		}
	}
	switch name {
	case "net/url.ParseQuery", "net/url.QueryUnescape", "net/url.PathUnescape", "fmt.Errorf", "fmt.Sprintf", "fmt.Sprint", "errors.New", "sort.Strings":
		return true
	}
	return false
}

// paramPure: the results of f depend on its (plain-data) parameters only: f reads no package-level variable, captures
// nothing, makes no dynamic call, ranges over no map, starts nothing, and calls only library functions of the reviewed deterministic table
// and module functions that are param-pure themselves. With skipRecv the receiver is exempt from the plain-data
// requirement (the caller accounts for its uses).
func (c *Ctx) paramPure(f *ssa.Function, skipRecv bool, depth int) bool {
	if f == nil || f.Blocks == nil || depth < 0 || len(f.FreeVars) > 0 || !c.w.inModule(f) {
		return false
	}
	for k, p := range f.Params {
		if k == 0 && skipRecv && f.Signature.Recv() != nil {
			continue
		}
		if !plainData(p.Type(), 0) {
			return false
		}
	}
	pure := true
	allInstrs(f, func(i ssa.Instruction) {
		if !pure {
			return
		}
		switch x := i.(type) {
		case *ssa.Go, *ssa.Defer, *ssa.Send, *ssa.Select, *ssa.MakeClosure, *ssa.Panic:
			pure = false
			return
		case *ssa.Range:
			// the iteration order of a map is not a function of anything
			if _, isMap := x.X.Type().Underlying().(*types.Map); isMap {
				pure = false
				return
			}
		}
		for _, op := range i.Operands(nil) {
			if op != nil && *op != nil {
				if _, isG := (*op).(*ssa.Global); isG {
					pure = false
					return
				}
			}
		}
		if call, ok := i.(*ssa.Call); ok {
			if _, isB := call.Call.Value.(*ssa.Builtin); isB {
				return
			}
			h := calleeFunc(&call.Call)
			switch {
			case h == nil:
				pure = false
			case c.w.inModule(h):
				pure = c.paramPure(h, false, depth-1)
			default:
				pure = deterministicExtern(calleeName(&call.Call))
			}
		}
	})
	return pure
}

// c17MemoMap: the driver map m (field of the driver type) is a memo of a pure function of its key, kept by ONE accessor
//
//	func (d *D) get(k K) (V, …) { if v, ok := d.m[k]; ok { return v, <consts> }; … v := pure(k) …; d.m[k] = v; return v, <consts> }
//
// so that a hit and a miss are indistinguishable for the caller, whatever was opened or closed before: (1) every access
// to m in what the driver's entry points reach is the accessor's one comma-ok lookup and one update (plus the creation
// of the map); (2) the accessor has, besides the receiver, exactly one parameter, of plain-data type; it is the key of
// both; (3) the hit branch returns the looked-up value and constants and does nothing else; (4) the accessor is
// param-pure apart from these two accesses (so the stored value is a function of the key alone) and every return that
// follows the update returns the stored value and the hit branch's constants; (5) the value type is plain data and no
// field of it is written outside its construction; (6) the lookup holds the mutex, the update holds it exclusively.
// Anything else — a value that depends on the file or on what is open, an entry whose mere presence changes the answer,
// a value holding a cache or an option closure — is not recognised, and the pairing obligation stays.
func c17MemoMap(c *Ctx, m *types.Var, reach []*ssa.Function, la *LockAn, mtx *types.Var, fr *Fresh) (bool, string) {
	mt, ok := m.Type().Underlying().(*types.Map)
	if !ok || !plainData(mt.Key(), 0) || !plainData(mt.Elem(), 0) {
		return false, "its values are not plain data"
	}
	var lookups []*ssa.Lookup
	var updates []*ssa.MapUpdate
	other := ""
	for _, fn := range reach {
		allInstrs(fn, func(i ssa.Instruction) {
			if f, isF := i.(*ssa.Field); isF && fieldOf(f.X.Type(), f.Field) == m {
				other = c.w.ipos(i)
			}
			fa, isFA := i.(*ssa.FieldAddr)
			if !isFA || fieldOf(fa.X.Type(), fa.Field) != m || fr.level(fa.X) >= shallow {
				return // (not the map, or the driver object under construction)
			}
			for _, r := range referrers(fa) {
				switch x := r.(type) {
				case *ssa.DebugRef:
				case *ssa.Store:
					// (lazy) creation of the map
					if _, isMk := x.Val.(*ssa.MakeMap); !isMk || x.Addr != ssa.Value(fa) {
						other = c.w.ipos(r)
					}
				case *ssa.UnOp:
					for _, rr := range referrers(x) {
						switch y := rr.(type) {
						case *ssa.DebugRef:
						case *ssa.Lookup:
							if y.X != ssa.Value(x) {
								other = c.w.ipos(rr)
							}
							lookups = append(lookups, y)
						case *ssa.MapUpdate:
							if y.Map != ssa.Value(x) {
								other = c.w.ipos(rr)
							}
							updates = append(updates, y)
						case *ssa.BinOp:
							if !isNilConst(y.X) && !isNilConst(y.Y) {
								other = c.w.ipos(rr)
							}
						default:
							other = c.w.ipos(rr)
						}
					}
				default:
					other = c.w.ipos(r)
				}
			}
		})
	}
	if other != "" || len(lookups) != 1 || len(updates) != 1 || lookups[0].Parent() != updates[0].Parent() || !lookups[0].CommaOk {
		return false, "it is accessed in more ways than one lookup and one update in one accessor function"
	}
	lk, up := lookups[0], updates[0]
	g := lk.Parent()
	if g.Signature.Recv() == nil || len(g.Params) != 2 || !sameValue(lk.Index, g.Params[1]) || !sameValue(up.Key, g.Params[1]) {
		return false, "the accessor's only parameter is not the key of both the lookup and the update"
	}
	// the receiver is used for the two accesses only
	for _, r := range referrers(g.Params[0]) {
		switch x := r.(type) {
		case *ssa.DebugRef:
		case *ssa.FieldAddr:
			if fieldOf(x.X.Type(), x.Field) != m {
				return false, "the accessor uses other state of the driver"
			}
		default:
			return false, "the accessor uses other state of the driver"
		}
	}
	if !c.paramPure(g, true, 3) {
		return false, "the accessor's result does not depend on the key alone"
	}
	// (3) hit branch
	okv, val := extractOf(lk, 1), extractOf(lk, 0)
	if okv == nil || val == nil {
		return false, "the lookup's result is not used as value, found"
	}
	var hitRet *ssa.Return
	for _, r := range referrers(okv) {
		switch x := r.(type) {
		case *ssa.DebugRef:
		case *ssa.If:
			for _, j := range x.Block().Succs[0].Instrs {
				switch y := j.(type) {
				case *ssa.DebugRef, *ssa.Extract:
				case *ssa.Return:
					hitRet = y
				default:
					return false, "the hit branch does more than return the stored value"
				}
			}
			if hitRet == nil {
				return false, "the hit branch does more than return the stored value"
			}
		default:
			return false, "the found flag is used for more than the hit branch"
		}
	}
	if hitRet == nil || len(hitRet.Results) == 0 || hitRet.Results[0] != ssa.Value(val) {
		return false, "the hit branch does not return the stored value"
	}
	for _, r := range hitRet.Results[1:] {
		if _, isK := r.(*ssa.Const); !isK {
			return false, "the hit branch does not return the stored value and constants"
		}
	}
	for _, r := range referrers(val) {
		if _, dbg := r.(*ssa.DebugRef); !dbg && r != ssa.Instruction(hitRet) {
			return false, "the looked-up value is used for more than the hit branch's return"
		}
	}
	// (4) after the update: the stored value and the same constants
	bad := ""
	allInstrs(g, func(i ssa.Instruction) {
		ret, isRet := i.(*ssa.Return)
		if !isRet || ret == hitRet || !c.fc.reachableFrom(g, up, ret) {
			return
		}
		rv := retVals(ret)
		if len(rv) != len(hitRet.Results) || !sameValue(rv[0], up.Value) {
			bad = "a return after the update does not return the stored value"
			return
		}
		for k := 1; k < len(rv); k++ {
			if !sameValue(rv[k], hitRet.Results[k]) {
				bad = "a miss returns something a hit does not"
			}
		}
	})
	if bad != "" {
		return false, bad
	}
	// (5) the memoised value is never written after its construction
	elemN := namedOf(mt.Elem())
	if elemN != nil {
		for _, fn := range reach {
			for _, e := range fr.writes(fn) {
				if e.Fresh {
					continue
				}
				for _, f := range e.fields() {
					if c.w.ownerOf(f) == elemN {
						return false, fmt.Sprintf("a memoised value is modified after it was stored (%s)", c.w.ipos(e.Ins))
					}
				}
			}
		}
	}
	// (6)
	if la.stateAt(lk)[mtx] == lkU || la.stateAt(up)[mtx] != lkW {
		return false, "it is accessed without the driver mutex"
	}
	return true, "a memo of a pure function of its key (" + safeFname(g) + "): a hit and a miss give the caller the same value"
}

// c17PairingMemo runs c17MemoMap with the lock analysis and reachable set of the driver's entry points (as runC17).
func c17PairingMemo(c *Ctx, m *types.Var) (bool, string) {
	mtx := mutexFieldOf(c.a.DriverT)
	if mtx == nil || c.a.DrvOpen == nil {
		return false, ""
	}
	entries := []*ssa.Function{c.a.DrvOpen}
	for _, tn := range []*types.Named{c.a.FileConnT, c.a.FileStmtT, c.a.RowsT} {
		if tn == nil {
			continue
		}
		for i := 0; i < tn.NumMethods(); i++ {
			if !tn.Method(i).Exported() {
				continue
			}
			if f := c.a.methodOf(tn, tn.Method(i).Name()); f != nil {
				entries = append(entries, f)
			}
		}
	}
	re := c.w.reach(entries...)
	la := newLockAn(c, entries, re.Funcs)
	return c17MemoMap(c, m, re.sorted(), la, mtx, newFresh(c))
}
