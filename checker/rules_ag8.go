package main

// Rules and rule helpers added for the gRPC path (C13/C14):
//   - C14.divzero: integer divisions in the code a request reaches have a divisor that cannot be zero;
//   - the handler's code (the handler itself and the module functions it reaches, outside the generated package) as the
//     scope of C14.bounds / C14.divzero;
//   - "delegating returns" (`return helper(v)`) for the oneof switch of the expression conversion (C13.kindmap, C14.exprnil);
//   - the per-query helper of the gRPC handler (C13.loop / C13.id / C13.nopartial / C14.errors).

import (
	"fmt"
	"go/token"
	"go/types"

	"golang.org/x/tools/go/ssa"
)

// ---- scope -------------------------------------------------------------------------------------------------------

// c14HandlerCode: the module functions a request can run: everything reachable from the gRPC handler, outside the
// generated protobuf package (generated getters are nil-safe and contain no indexing by wire values; trusted with
// protobuf-go). The functions of package updog come first, in the order the evaluation-code rules have always used, so
// that their obligation keys do not depend on what the handler's own package looks like.
func c14HandlerCode(c *Ctx) []*ssa.Function {
	var out []*ssa.Function
	seen := map[*ssa.Function]bool{}
	for _, fn := range c.w.reach(c.a.Execute).sorted() {
		if c.w.pkgPathOf(fn) == pkgRoot && !seen[fn] {
			seen[fn] = true
			out = append(out, fn)
		}
	}
	for _, fn := range c.w.reach(c.a.ServerQuery).sorted() {
		if c.w.pkgPathOf(fn) == pkgProto || seen[fn] {
			continue
		}
		seen[fn] = true
		out = append(out, fn)
	}
	return out
}

// ---- C14.divzero -------------------------------------------------------------------------------------------------
//
// An integer division or remainder by zero is a run-time panic; in the gRPC handler that ends the server process
// (grpc-go does not recover). Sizes that come from the wire (number of queries, of operands, of group-by columns, of
// results) can all be zero in a decodable request, so every such division needs a divisor that is a non-zero constant
// or is known to be non-zero where the division happens.

func isIntegerType(t types.Type) bool {
	b, ok := t.Underlying().(*types.Basic)
	return ok && b.Info()&types.IsInteger != 0
}

// intSize: size in bits of an integer type (int/uint/uintptr count as 64: the larger of the possible sizes is the safe
// answer for "is this conversion widening", see peelWiden).
func intSize(t types.Type) int {
	b, ok := t.Underlying().(*types.Basic)
	if !ok {
		return 0
	}
	switch b.Kind() {
	case types.Int8, types.Uint8:
		return 8
	case types.Int16, types.Uint16:
		return 16
	case types.Int32, types.Uint32:
		return 32
	case types.Int64, types.Uint64:
		return 64
	case types.Int, types.Uint, types.Uintptr:
		return 64
	}
	return 0
}

// peelWiden looks through integer-to-integer conversions that cannot turn a non-zero value into zero: those to a type
// at least as wide as the source (int -> int64 is one on every platform; int64 -> int is not, it truncates on 32 bit).
func peelWiden(v ssa.Value) ssa.Value {
	for n := 0; n < 16; n++ {
		switch x := v.(type) {
		case *ssa.ChangeType:
			v = x.X
			continue
		case *ssa.Convert:
			from, to := x.X.Type(), x.Type()
			if !isIntegerType(from) || !isIntegerType(to) {
				return v
			}
			fs, ts := intSize(from), intSize(to)
			fb := from.Underlying().(*types.Basic).Kind()
			srcIsWord := fb == types.Int || fb == types.Uint || fb == types.Uintptr
			tb := to.Underlying().(*types.Basic).Kind()
			dstIsWord := tb == types.Int || tb == types.Uint || tb == types.Uintptr
			switch {
			case srcIsWord && dstIsWord, srcIsWord && ts == 64, !srcIsWord && !dstIsWord && ts >= fs, !srcIsWord && dstIsWord && fs <= 32:
				v = x.X
				continue
			}
			return v
		}
		return v
	}
	return v
}

// peelIntConv looks through all integer-to-integer conversions (for the value a *test* was made on: whatever the
// conversion, a converted value that is non-zero comes from a non-zero value).
func peelIntConv(v ssa.Value) ssa.Value {
	for n := 0; n < 16; n++ {
		switch x := v.(type) {
		case *ssa.ChangeType:
			v = x.X
			continue
		case *ssa.Convert:
			if isIntegerType(x.X.Type()) && isIntegerType(x.Type()) {
				v = x.X
				continue
			}
		}
		return v
	}
	return v
}

func lenOrCapArg(v ssa.Value) (ssa.Value, bool) {
	c, ok := v.(*ssa.Call)
	if !ok {
		return nil, false
	}
	if b, ok := c.Call.Value.(*ssa.Builtin); ok && (b.Name() == "len" || b.Name() == "cap") && len(c.Call.Args) == 1 {
		return c.Call.Args[0], true
	}
	return nil, false
}

// sameInt: two (conversion-free) integer values denote the same number: the same SSA value, loads of the same
// unmodified field path or variable, or len() of the same unmodified slice.
func (fc *flowCtx) sameInt(a, b ssa.Value) bool {
	if sameValue(a, b) || fc.samePathLoad(a, b) || cellSame(a, b) {
		return true
	}
	ca, oka := a.(*ssa.Call)
	cb, okb := b.(*ssa.Call)
	if oka && okb {
		ba, ok1 := ca.Call.Value.(*ssa.Builtin)
		bb, ok2 := cb.Call.Value.(*ssa.Builtin)
		if ok1 && ok2 && ba.Name() == "len" && bb.Name() == "len" {
			return isLenOfAny(fc, a, cb.Call.Args[0])
		}
	}
	return false
}

// intNonZero: the integer value v cannot be zero, given the comparisons `facts` known where it is used:
// a non-zero constant; a value (or, for the test, any integer conversion of it) that a dominating test compared with a
// constant in a way that excludes zero (x != 0, x > 0, x >= 1, len(...) > 0 …); len(...)+k with k > 0; x|k with k != 0;
// max(…, k) with k > 0; a phi all of whose incoming values are non-zero on their edges; the result of a module function
// all of whose returns are non-zero. v is looked at through widening conversions only (a truncation can produce zero).
func (fc *flowCtx) intNonZero(v ssa.Value, facts []cmp, depth int) bool {
	if depth > 4 {
		return false
	}
	base := peelWiden(v)
	if c, ok := base.(*ssa.Const); ok {
		k, isInt := constInt(c)
		return isInt && k != 0
	}
	for _, cm := range facts {
		if cm.Y == nil {
			continue
		}
		x, y, op := cm.X, cm.Y, cm.Op
		if _, isK := constInt(x); isK {
			x, y, op = y, x, swapOp(op)
		}
		if _, isConst := peelIntConv(y).(*ssa.Const); !isConst {
			continue
		}
		k, isK := constInt(y)
		if !isK || !isIntegerType(x.Type()) || !fc.sameInt(peelIntConv(x), base) {
			continue
		}
		switch op {
		case token.NEQ:
			if k == 0 {
				return true
			}
		case token.EQL:
			if k != 0 {
				return true
			}
		case token.GTR:
			if k >= 0 {
				return true
			}
		case token.GEQ:
			if k >= 1 {
				return true
			}
		case token.LSS:
			if k <= 0 {
				return true
			}
		case token.LEQ:
			if k <= -1 {
				return true
			}
		}
	}
	switch x := base.(type) {
	case *ssa.BinOp:
		switch x.Op {
		case token.ADD:
			// a length plus a positive constant
			for _, pr := range [][2]ssa.Value{{x.X, x.Y}, {x.Y, x.X}} {
				if k, ok := constInt(pr[1]); ok && k > 0 {
					if _, isLen := lenOrCapArg(peelWiden(pr[0])); isLen {
						return true
					}
				}
			}
		case token.OR:
			for _, o := range []ssa.Value{x.X, x.Y} {
				if k, ok := constInt(o); ok && k != 0 {
					if _, isConst := peelIntConv(o).(*ssa.Const); isConst {
						return true
					}
				}
			}
		}
	case *ssa.Phi:
		for k, e := range x.Edges {
			if e == ssa.Value(x) {
				continue
			}
			if !fc.intNonZero(e, cmpsOnEdge(x.Block().Preds[k], x.Block()), depth+1) {
				return false
			}
		}
		return len(x.Edges) > 0
	case *ssa.Call:
		if b, ok := x.Call.Value.(*ssa.Builtin); ok {
			if b.Name() == "max" {
				for _, a := range x.Call.Args {
					if _, isConst := peelIntConv(a).(*ssa.Const); isConst {
						if k, ok := constInt(a); ok && k > 0 {
							return true
						}
					}
				}
			}
			return false
		}
		callee := calleeFunc(&x.Call)
		if callee == nil || !fc.w.inModule(callee) || callee.Blocks == nil || callee.Signature.Results().Len() != 1 {
			return false
		}
		n, all := 0, true
		allInstrs(callee, func(i ssa.Instruction) {
			ret, isRet := i.(*ssa.Return)
			if !isRet || isRecoverBlockReturn(ret) || len(ret.Results) != 1 {
				return
			}
			n++
			if !fc.intNonZero(retVals(ret)[0], cmpsAt(ret), depth+1) {
				all = false
			}
		})
		return n > 0 && all
	}
	return false
}

func c14DivZero(c *Ctx, scope []*ssa.Function) {
	const rule = "C14.divzero"
	n := 0
	for _, fn := range scope {
		k := 0
		allInstrs(fn, func(i ssa.Instruction) {
			b, ok := i.(*ssa.BinOp)
			if !ok || (b.Op != token.QUO && b.Op != token.REM) || !isIntegerType(b.Y.Type()) {
				return
			}
			k++
			n++
			key := fmt.Sprintf("%s: division#%d", safeFname(fn), k)
			if c.fc.intNonZero(b.Y, cmpsAt(b), 0) {
				c.r.ok(rule, key, "divisor is a non-zero constant or known non-zero from a dominating test", c.w.ipos(i))
				return
			}
			if _, isLen := lenOrCapArg(peelIntConv(b.Y)); isLen {
				c.r.bad(rule, key, "integer division by the length of a list that no dominating test shows to be non-empty: a decodable request can make every list empty (no queries, no operands, no group-by columns, no results), the division then panics (integer divide by zero) and, as grpc-go does not recover, the server process dies", []string{c.w.ipos(i)})
				return
			}
			c.r.undecided(rule, key, "integer division whose divisor is not a non-zero constant and is not shown non-zero by a dominating test (x != 0, x > 0, len(…) > 0): if a request can make it zero the handler panics and the server process dies", c.w.ipos(i))
		})
	}
	c.r.Stats["integer_divisions_examined"] = n
	if n == 0 {
		c.r.ok(rule, "request handling code", "no integer division or remainder in the code reachable from the gRPC handler")
	}
}

// ---- C14.exprnil: successful returns of the expression conversion -------------------------------------------------

// c14ExprReturns checks that every successful return of f — the expression conversion te, or a helper whose results te
// returns — yields a freshly allocated node, and returns the number of successful returns found. A return that hands on
// both results of a module helper (`return notToExpr(v)`), or that returns a helper's value with a nil error where the
// helper's own error is known to be nil, is successful exactly where the helper is: the helper's returns are checked in
// its place. Handing on te's own results (a recursive call) cannot introduce a nil node if no other return does.
func c14ExprReturns(c *Ctx, te, f *ssa.Function, depth int, visited map[*ssa.Function]bool) int {
	if visited[f] {
		return 1 // counted and checked where it was first reached
	}
	visited[f] = true
	const rule = "C14.exprnil"
	const bad = "the conversion can return an Expression that is not a freshly allocated node together with a nil error (e.g. nil for an unset or unknown oneof value): Execute then calls a method on a nil interface and the server dies"
	nRet, k := 0, 0
	allInstrs(f, func(i ssa.Instruction) {
		ret, isRet := i.(*ssa.Return)
		if !isRet || isRecoverBlockReturn(ret) || len(ret.Results) != 2 {
			return
		}
		rv := retVals(ret)
		var dc *ssa.Call
		// a helper may return the concrete node type (*ExprAnd): the conversion to the interface is then a wrapper around
		// the helper's result — and turns a nil pointer into a non-nil interface, so the nil tests of the callers are blind
		v0 := rv[0]
		if mi, isMI := v0.(*ssa.MakeInterface); isMI {
			if _, isPtr := mi.X.Type().Underlying().(*types.Pointer); isPtr {
				v0 = mi.X
			}
		}
		if e, ok := v0.(*ssa.Extract); ok && e.Index == 0 {
			if call, ok := e.Tuple.(*ssa.Call); ok {
				if h := calleeFunc(&call.Call); h != nil && c.w.inModule(h) && h.Blocks != nil {
					dc = call
				}
			}
		}
		success := isSuccessReturn(i)
		handsOn := false // both results of dc are returned together
		if dc != nil {
			if e, ok := rv[1].(*ssa.Extract); ok && e.Index == 1 && e.Tuple == ssa.Value(dc) {
				handsOn = true
			}
		}
		if !success && !handsOn {
			return // an error return
		}
		key := func() string { k++; return fmt.Sprintf("%s: return#%d", safeFname(f), k) }
		if dc != nil && (handsOn || errKnownNil(extractOf(dc, 1), i)) {
			h := calleeFunc(&dc.Call)
			switch {
			case h == te:
				if handsOn {
					return // te's own results, handed on unchanged
				}
				nRet++
				c.r.ok(rule, key(), "returns the node a nested conversion yielded, where that conversion's error is nil", c.w.ipos(i))
			case depth >= 2:
				nRet++
				c.r.undecided(rule, key(), "the returned node comes from helpers nested too deep for the rule to follow", c.w.ipos(i))
			default:
				n := c14ExprReturns(c, te, h, depth+1, visited)
				nRet += n
				if n == 0 {
					c.r.undecided(rule, key(), safeFname(h)+", whose result is returned, has no successful return", c.w.ipos(i))
				}
			}
			return
		}
		nRet++
		ok := false
		if mi, isMI := rv[0].(*ssa.MakeInterface); isMI {
			if _, isAlloc := peel(mi.X).(*ssa.Alloc); isAlloc {
				ok = true
			}
			// a constructor function of the library: every return of it is a node allocated there (rules_r8.go)
			if cc, isCall := peel(mi.X).(*ssa.Call); isCall && nodeCtor(c, calleeFunc(&cc.Call)) != nil {
				ok = true
			}
		}
		// a helper with a concrete pointer result returns the allocation itself
		if _, isAlloc := peel(rv[0]).(*ssa.Alloc); isAlloc && f != te {
			ok = true
		}
		c.r.check(ok, rule, key(), "returns a freshly allocated expression node", bad, c.w.ipos(i))
	})
	return nRet
}

// errKnownNil: at instruction `at`, a dominating test shows e == nil.
func errKnownNil(e ssa.Value, at ssa.Instruction) bool {
	if e == nil {
		return false
	}
	for _, cm := range cmpsAt(at) {
		if cm.Op == token.EQL && cm.Y != nil && ((cm.X == e && isNilConst(cm.Y)) || (cm.Y == e && isNilConst(cm.X))) {
			return true
		}
	}
	return false
}

// ---- the per-query helper of the gRPC handler ---------------------------------------------------------------------
//
// The body of the handler's loop over the request's queries may live in a helper of the handler's package
// (`pbr, err := s.executeQuery(idx, pbq)`). The rules about one query — which element is appended, which id it gets,
// what happens to conversion/execution errors — are then evaluated inside the helper, with its parameters bound to the
// current query and the range index at the call, plus, at the call, "the helper's error ends the handler with an error".

// errSite is a call in the handler's code whose error result must end the request: a conversion or execution
// (callee is an error source), or a call of a helper that contains one.
type errSite struct {
	f      *ssa.Function // function containing the call
	call   *ssa.Call
	callee *ssa.Function
	helper bool
}

// handlerErrSites lists, for the handler and the functions of its package it calls (its scope), the calls to error
// sources (isSrc) and to helpers of the scope that return an error and (transitively) contain such a call.
func handlerErrSites(c *Ctx, handler *ssa.Function, isSrc func(*ssa.Function) bool) (scope []*ssa.Function, sites []errSite) {
	scope = c.scope(handler, 2)
	inScope := map[*ssa.Function]bool{}
	for _, f := range scope {
		inScope[f] = true
	}
	srcCall := func(i ssa.Instruction) bool {
		cc := callCommon(i)
		if cc == nil {
			return false
		}
		f := calleeFunc(cc)
		return f != nil && isSrc(f)
	}
	for _, f := range scope {
		allInstrs(f, func(i ssa.Instruction) {
			call, ok := i.(*ssa.Call)
			if !ok {
				return
			}
			callee := calleeFunc(&call.Call)
			if callee == nil {
				return
			}
			if isSrc(callee) {
				sites = append(sites, errSite{f, call, callee, false})
				return
			}
			res := callee.Signature.Results()
			if inScope[callee] && callee != f && res.Len() > 0 && isErrorType(res.At(res.Len()-1).Type()) && c.fc.mayContain(callee, srcCall, 2) {
				sites = append(sites, errSite{f, call, callee, true})
			}
		})
	}
	return scope, sites
}

// errEndsRequest: the error result of `call` (in f, a function of the handler's scope) makes the handler return an
// error: in f the non-nil error only reaches error returns (errPropagated), and if f is not the handler itself, f's own
// error result is treated the same way at every place f is called from, up to the handler. A function that is started
// with go/defer, or is not called from the scope at all, cannot hand its error to the handler's return; a function that
// is handed to a helper which calls it (the callback of a map helper) hands it on through that helper (errThroughCallback).
func errEndsRequest(c *Ctx, handler *ssa.Function, scope []*ssa.Function, f *ssa.Function, call *ssa.Call, depth int) errOutcome {
	sig := call.Call.Signature().Results()
	out := c.fc.errPropagated(f, call, resultValue(call, sig.Len()-1))
	if !out.ok || f == handler {
		return out
	}
	if depth > 2 {
		return errOutcome{false, "the error is produced too deep in helpers for the rule to follow it to the handler", call, nil}
	}
	fres := f.Signature.Results()
	if fres.Len() == 0 || !isErrorType(fres.At(fres.Len()-1).Type()) {
		return errOutcome{false, "the error is produced in " + safeFname(f) + ", which has no error result: it cannot end the request", call, nil}
	}
	n := 0
	var worst *errOutcome
	for _, g := range scope {
		allInstrs(g, func(i ssa.Instruction) {
			cc := callCommon(i)
			if cc == nil || calleeFunc(cc) != f || g == f {
				return
			}
			n++
			cl, isCall := i.(*ssa.Call)
			if !isCall {
				if worst == nil {
					worst = &errOutcome{false, safeFname(f) + " is started with go/defer: its error cannot end the request", i, nil}
				}
				return
			}
			if o := errEndsRequest(c, handler, scope, g, cl, depth+1); !o.ok && worst == nil {
				worst = &o
			}
		})
	}
	if worst != nil {
		return *worst
	}
	// f may (also) be the callback of a map helper — the body of the handler's loop as a function literal: its error
	// then has to come out of the helper that calls it, and that helper's error has to end the request (rules_ag44.go)
	if o, isCb := errThroughCallback(c, handler, scope, f, call, depth); isCb {
		if !o.ok {
			return o
		}
		return errOutcome{true, out.msg + "; " + o.msg, call, nil}
	}
	if n == 0 {
		return errOutcome{false, safeFname(f) + " is not called directly from the handler's code: its error is not known to end the request", call, nil}
	}
	return errOutcome{true, out.msg + "; so does the error of " + safeFname(f) + " where it is called", call, nil}
}

// queryElem is the verdict of c13Element about the element the handler appends for one query.
type queryElem struct {
	chainOK bool
	why     string
	idOK    bool
	idWhy   string
}

// qctx is a function on the way from the handler into a per-query helper: f is entered through call (made in
// parent.f); cur is the value that denotes the current query in f (the element loaded in the handler's loop, or the
// parameter bound to it), idx the value positions are measured against in f (the range index, or the parameter that
// receives it) and idxOff what the call sites have already added to it. cur/idx are nil where f is not given them.
type qctx struct {
	f      *ssa.Function
	call   *ssa.Call
	parent *qctx
	cur    ssa.Value
	idx    ssa.Value
	idxOff int64
}

// resolve replaces a parameter by the argument it is bound to at the call through which its function was entered,
// repeatedly; it returns the value and the context the value lives in.
func (x *qctx) resolve(v ssa.Value) (ssa.Value, *qctx) {
	for x.parent != nil {
		p, ok := v.(*ssa.Parameter)
		if !ok {
			break
		}
		a := argFor(x.call, x.f, p)
		if a == nil {
			break
		}
		v, x = a, x.parent
	}
	return v, x
}

func (x *qctx) depth() int {
	n := 0
	for y := x; y.parent != nil; y = y.parent {
		n++
	}
	return n
}

// enter binds the parameters of callee at hcall (a call in x.f): the current query, and the range index with the
// offset the call adds.
func (x *qctx) enter(hcall *ssa.Call, callee *ssa.Function) *qctx {
	sub := &qctx{f: callee, call: hcall, parent: x}
	for k, a := range hcall.Call.Args {
		if k >= len(callee.Params) {
			continue
		}
		if x.cur != nil && a == x.cur {
			sub.cur = callee.Params[k]
		}
		if x.idx != nil && isIntegerType(a.Type()) {
			ab, ao := lin(a)
			ib, io := lin(x.idx)
			if ab == ib {
				sub.idx = callee.Params[k]
				sub.idxOff = x.idxOff + ao - io
			}
		}
	}
	return sub
}

// c13Element: elem (a value in x.f) is ToProtobufResult(Execute(ToQuery(current query)), qid) with qid = query.Id, or
// position+1 where that is 0 — directly, or as the value of a helper of the module whose every non-nil result is such an
// element. Inside a helper, a parameter stands for the argument it is bound to at the call (resolve), so the helper may
// be given the request's query and the range index, or the converted query, or the id the handler computed.
func c13Element(c *Ctx, x *qctx, elem ssa.Value) queryElem {
	noID := "the id passed on is not `query.Id, or range index + 1 when Id is 0`"
	if call, ok := elem.(*ssa.Call); ok && calleeFunc(&call.Call) == c.a.ToPBResult {
		res := queryElem{}
		// the result converted: Execute(ToQuery(current query)), possibly through a helper that hands the result on, or
		// the result remembered for an identical query of the same batch (rules_ag31.go)
		res.chainOK, res.why = c13Executed(c, x, call.Call.Args[0], true)
		qv, xq := x.resolve(call.Call.Args[1])
		res.idOK, res.idWhy = c13IDValue(c, qv, func(y ssa.Value) bool { return xq.cur != nil && derivesFrom(y, xq.cur) }, xq.idx, xq.idxOff, 0)
		return res
	}
	hcall, callee, vals, ok := resultOrigins(c.w, elem)
	if !ok || callee == c.a.ToPBResult {
		if c13StoredMessage(elem) {
			// a finished response message taken out of a map or slice: the message of an earlier query
			w := "the appended element is a response message that was kept from an earlier query of the batch, not a message built for this query: it carries the earlier query's id, and one message object is sent twice"
			return queryElem{why: w, idWhy: w}
		}
		return queryElem{why: "the appended element is not ToProtobufResult(...)", idWhy: noID}
	}
	if x.depth() >= 2 {
		w := "the element is built too deep in helpers for the rule to follow"
		return queryElem{why: w, idWhy: w}
	}
	sub := x.enter(hcall, callee)
	res := queryElem{chainOK: true, idOK: true}
	n := 0
	for _, rv := range vals {
		if isNilConst(rv) {
			continue // error returns: their error must end the request (C13.nopartial)
		}
		n++
		r := c13Element(c, sub, rv)
		if !r.chainOK && res.chainOK {
			res.chainOK, res.why = false, r.why
		}
		if !r.idOK && res.idOK {
			res.idOK, res.idWhy = false, r.idWhy
		}
	}
	if n == 0 {
		w := "the helper that answers one query (" + safeFname(callee) + ") never returns a result"
		return queryElem{why: w, idWhy: w}
	}
	return res
}
