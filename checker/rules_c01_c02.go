package main

import (
	"fmt"
	"go/token"
	"go/types"
	"sort"
	"strings"

	"golang.org/x/tools/go/ssa"
)

func init() {
	register(&propDef{
		id:  "C01",
		run: runC01,
		explanation: "Decided (structural, for every dataset, expression tree, writer and open mode): " +
			"C01.codec — writers and readers of the bitmap key, the row counter and the big writer's temp key agree on byte order, width and offsets; C01.keyflow — the bitmap of (column, value) is stored and looked up under the same function of the pair: both writers record a row under the index schema.add returns for the pair, schema.add yields getValueIndex(column, value), and an equality test looks up getValueIndex(its column, its value); " +
			"C01.universe — NOT complements with a roaring Flip over [0, Index.rowCount) where that field is assigned only by the open function from the decoded row-counter item (if the field sits in a struct that the Index holds by value and shares with the writers, only stores into an Index's struct count, including those of a method of that struct called on an Index), and both writers persist their own row counter (one per AddRow call, so rows without columns are counted); " +
			"C01.unknowncol — every lookup of a column in the schema during execution returns an error on the not-found branch (no silent empty result), and the equality test checks the column before consulting the cache; " +
			"C01.nilbitmap — a bitmap obtained for a value that may not exist in the data (key computed from the query) is nil-guarded before any roaring operation; " +
			"C01.opmap — AND evaluates every operand in order and intersects exactly those results (the operand loop is left only through its header or with an error: no successful return or break-to-return before all operands were evaluated, which would lose an unknown-column error of a later operand), OR unites them, NOT flips its operand's result; " +
			"C01.rowid / C01.persist / C01.txlife — as C18.rowid, C05.persist, C05.txlife. " +
			"NOT decided: that cardinalities are numerically right (roaring's arithmetic, trusted); 64-bit hash collisions and NUL bytes in column names (excluded by the property); equivalence of on-demand and preloaded bitmaps beyond key/codec agreement.",
		assumptions: []string{"roaring set operations and Flip are correct", "xxhash collisions assumed away (property)", "bbolt returns what was stored"},
	})
	register(&propDef{
		id:  "C02",
		run: runC02,
		explanation: "Decided (structural, for every dataset, expression and group-by list): " +
			"C02.alias — in the evaluation code no append inside a loop uses a base slice that is the same in every iteration (sibling groups would share one backing array once the field list has spare capacity, i.e. from the 4th group-by column on); " +
			"C02.sorted — the per-column value list built from the schema's map is sorted ascending by value before it is used (sort.Slice / slices.SortFunc with an ascending string comparison, or built by walking slices.Sorted over the map's keys) and not reversed afterwards; " +
			"C02.unknowncol — an unknown group-by column yields an error (not a silently skipped column), and Execute never reports success without having walked the whole group-by list through the schema lookup (directly or in a per-column helper; a loop that can be left early towards a result does not count); " +
			"C02.nonzero — a refined group is appended only on the branch where its bitmap's cardinality is known to be non-zero; " +
			"C02.fresh — Execute keeps no resolved state in the Query (= C08.readonly), so a repeated execution does not duplicate columns; C02.inplace — no bitmap that is stored, preloaded, cached or an operand's result is modified in place while refining groups (= C03.pure); " +
			"C02.fields — every group's field for a level is {Column: that level's column, Value: the value whose bitmap refined it}, also when the refinement is split over helpers (level, column or value list passed as parameters; a list of candidate values that carry their pre-fetched bitmap, which must be a new list unless resolved lists cannot be shared between levels). " +
			"NOT decided: exact counts and the exact tuple set (values); lexicographic order of the result list beyond each level being sorted (follows from nested iteration in sorted order).",
		assumptions: []string{"roaring.And / GetCardinality are correct", "sort.Slice sorts by the given less function"},
	})
}

func runC01(c *Ctx) {
	if !c.need("C01.universe", c.a.Execute, c.a.IndexT, c.a.OpenFromDB, c.a.GetValueIndex, c.a.SchemaAdd, c.a.MemAddRow, c.a.BigAddRow, c.a.MemWrite, c.a.BigFlush) {
		return
	}
	codecRule(c, "C01.codec")
	keyflowRule(c, "C01.keyflow")
	keyInjRule(c, "C01.keyinj")
	universeRule(c, "C01.universe")
	rowCountRule(c, "C01.rowcount")
	unknownColRule(c, "C01.unknowncol", true)
	nilBitmapRule(c, "C01.nilbitmap")
	opmapRule(c, "C01.opmap")
	for _, wr := range []struct {
		name   string
		addRow *ssa.Function
		typ    *types.Named
	}{{"IndexWriter", c.a.MemAddRow, c.a.MemWriterT}, {"BigIndexWriter", c.a.BigAddRow, c.a.BigWriterT}} {
		rowidRule(c, "C01.rowid", wr.name, wr.addRow, wr.typ)
	}
	persistRule(c, "C01.persist", c.a.BigFlush)
	txlifeRule(c, "C01.txlife", c.a.MemWrite)
	c03PureAs(c, "C01.inplace")
}

// exprMethod: the method of an (exported) expression type that implements the given method of the Expression interface;
// the interface's methods are unexported, so callers pass the resolved name (c.a.EvalName / c.a.KeyName, rules_ag10.go).
func exprMethod(c *Ctx, typeName, method string) *ssa.Function {
	if method == "" {
		return nil
	}
	return c.w.method(pkgRoot, typeName, method)
}

// nameOr: the resolved name of an unexported role for obligation keys and messages; today's name when it did not resolve.
func nameOr(resolved, role string) string {
	if resolved != "" {
		return resolved
	}
	return role
}

func keyflowRule(c *Ctx, rule string) {
	gvi := c.a.GetValueIndex
	// schema.add: the value it returns / stores for a new pair is getValueIndex(k, v) of its own arguments
	sa := c.a.SchemaAdd
	// (arguments are compared after peel: a parameter captured by a closure is spilled into a cell and loaded again)
	isOwnGvi := func(call *ssa.Call) bool {
		return calleeFunc(&call.Call) == gvi && len(sa.Params) == 3 && len(call.Call.Args) == 2 &&
			peel(call.Call.Args[0]) == ssa.Value(sa.Params[1]) && peel(call.Call.Args[1]) == ssa.Value(sa.Params[2])
	}
	// createsOwnGvi: the constructor handed to a get-or-create helper is a function literal of schema.add every return
	// of which yields getValueIndex(k, v) of schema.add's own parameters (its free variables bound to them).
	createsOwnGvi := func(create ssa.Value) bool {
		f := funcOfValue(create)
		if f == nil || f.Blocks == nil || f.Parent() != sa {
			return false
		}
		n, good := 0, true
		allInstrs(f, func(i ssa.Instruction) {
			ret, ok := i.(*ssa.Return)
			if !ok || isRecoverBlockReturn(ret) {
				return
			}
			n++
			if len(ret.Results) != 1 {
				good = false
				return
			}
			if cl, ok := retVals(ret)[0].(*ssa.Call); !ok || !isOwnGvi(cl) {
				good = false
			}
		})
		return n > 0 && good
	}
	// ownGoc: a call `getOrCreate(m, v, func() … { return getValueIndex(k, v) })` — the index stored in m under schema.add's
	// value argument, or getValueIndex(k, v) entered under it if there was none.
	ownGoc := func(i ssa.Instruction) bool {
		_, key, create, ok := getOrCreateCall(c, i)
		return ok && len(sa.Params) == 3 && peel(key) == ssa.Value(sa.Params[2]) && createsOwnGvi(create)
	}
	okAdd := false
	allInstrs(sa, func(i ssa.Instruction) {
		call, ok := i.(*ssa.Call)
		if !ok {
			return
		}
		if isOwnGvi(call) || ownGoc(call) {
			okAdd = true
		}
	})
	// and every return of schema.add is that value or the value stored in the column's map for v
	okRet := true
	allInstrs(sa, func(i ssa.Instruction) {
		ret, ok := i.(*ssa.Return)
		if !ok {
			return
		}
		v := retVals(ret)[0]
		var chk func(v ssa.Value) bool
		chk = func(v ssa.Value) bool {
			switch x := v.(type) {
			case *ssa.Phi:
				for _, e := range x.Edges {
					if !chk(e) {
						return false
					}
				}
				return true
			case *ssa.Call:
				return calleeFunc(&x.Call) == gvi || ownGoc(x)
			case *ssa.Extract:
				if lk, ok := x.Tuple.(*ssa.Lookup); ok && x.Index == 0 && len(sa.Params) == 3 && peel(lk.Index) == ssa.Value(sa.Params[2]) {
					return true
				}
			}
			return false
		}
		if !chk(v) {
			okRet = false
		}
	})
	c.r.check(okAdd && okRet, rule, safeFname(sa), "returns getValueIndex(column, value) (or the index stored for that value)", "schema.add does not yield getValueIndex(column, value) of its own arguments: writers would store a pair's bitmap under a key queries do not look up", c.w.pos(sa.Pos()))
	// equality test: GetCol(getValueIndex(e.Column, e.Value))
	ev := exprMethod(c, "ExprEqual", c.a.EvalName)
	if ev == nil {
		c.r.undecided(rule, "(*ExprEqual)."+nameOr(c.a.EvalName, "eval"), "method not found")
		return
	}
	okLookup, n := true, 0
	// (the lookup may sit in a function literal that eval hands to a get/compute/put helper: evalBodies; the key computed
	// outside the literal is seen through the captured variable)
	bodies := evalBodies(c, ev)
	// keyOK: v is getValueIndex(e.Column, e.Value) of eval's own receiver
	keyOK := func(v ssa.Value) bool {
		kc, ok := peel(v).(*ssa.Call)
		if !ok || calleeFunc(&kc.Call) != gvi {
			return false
		}
		fc, fv := srcField(kc.Call.Args[0]), srcField(kc.Call.Args[1])
		return fc != nil && fv != nil && fc.Name() == "Column" && fv.Name() == "Value" && derivesFrom(kc.Call.Args[0], ev.Params[0]) && derivesFrom(kc.Call.Args[1], ev.Params[0])
	}
	instrsOf(bodies, func(i ssa.Instruction) {
		call, ok := i.(*ssa.Call)
		if !ok || !call.Call.IsInvoke() || call.Call.Method.Name() != getColName {
			return
		}
		n++
		if !keyOK(call.Call.Args[0]) {
			okLookup = false
		}
	})
	// the lookup may sit in a helper that eval hands the index to (`loadValueBitmap(idx, valueIdx)`): the helper's key is
	// its parameter, bound at eval's call to getValueIndex(e.Column, e.Value)
	instrsOf(bodies, func(i ssa.Instruction) {
		hc, ok := i.(*ssa.Call)
		if !ok {
			return
		}
		h := hc.Call.StaticCallee()
		if h == nil || h == gvi || !c.w.inModule(h) || h.Blocks == nil {
			return
		}
		allInstrs(h, func(j ssa.Instruction) {
			call, ok := j.(*ssa.Call)
			if !ok || !call.Call.IsInvoke() || call.Call.Method.Name() != getColName {
				return
			}
			n++
			par, isPar := peel(call.Call.Args[0]).(*ssa.Parameter)
			if !isPar {
				okLookup = false
				return
			}
			a := argFor(hc, h, par)
			if a == nil || !keyOK(a) {
				okLookup = false
			}
		})
	})
	c.r.check(okLookup && n > 0, rule, safeFname(ev), "looks up getValueIndex(e.Column, e.Value)", "the equality test does not look up the bitmap under getValueIndex(its column, its value)", c.w.pos(ev.Pos()))
	// getValueIndex itself: hash of column, separator, value — both arguments must reach the hash
	okHash := false
	allInstrs(gvi, func(i ssa.Instruction) {
		call, ok := i.(*ssa.Call)
		if !ok || !hashSinks[calleeName(&call.Call)] {
			return
		}
		t := newTaint(c, false)
		for _, p := range gvi.Params {
			_ = p
		}
		// both parameters flow into the hashed bytes
		reach := 0
		for _, p := range gvi.Params {
			tt := newTaint(c, false)
			tt.tainted[p] = true
			tt.run(gvi)
			if tt.sinkHits > 0 {
				reach++
			}
		}
		_ = t
		if reach == len(gvi.Params) && len(gvi.Params) == 2 {
			okHash = true
		}
	})
	c.r.check(okHash, rule, safeFname(gvi), "hashes both column and value", "the value index is not a hash of both the column and the value", c.w.pos(gvi.Pos()))
}

func universeRule(c *Ctx, rule string) {
	en := exprMethod(c, "ExprNot", c.a.EvalName)
	if en == nil {
		c.r.undecided(rule, "(*ExprNot)."+nameOr(c.a.EvalName, "eval"), "method not found")
		return
	}
	// (the Index's row-count field: by shape, rules_ag10.go)
	rows := c.a.IdxRowsF
	if rows == nil {
		c.r.undecided(rule, "<anchor>", "Index row-count field not found")
		return
	}
	flipNames := map[string]bool{roaringPkg + ".Flip": true, roaringPkg + ".FlipInt": true, "(*" + roaringPkg + ".Bitmap).Flip": true, "(*" + roaringPkg + ".Bitmap).FlipInt": true}
	n := 0
	// The complement may be computed in a function literal that eval hands to a get/compute/put helper, and the Flip
	// itself may sit in a small helper (`complement(bm, idx.rowCount)`): the Flip calls of eval's bodies and of the
	// module helpers those call directly are judged, a helper's parameters standing for the arguments of its call.
	type flipSite struct {
		call *ssa.Call // the Flip
		via  *ssa.Call // the call of the helper that contains it (nil: in eval's own bodies)
	}
	var flips []flipSite
	bodies := evalBodies(c, en)
	for _, b := range bodies {
		allInstrs(b, func(i ssa.Instruction) {
			if call, ok := i.(*ssa.Call); ok && flipNames[calleeName(&call.Call)] {
				flips = append(flips, flipSite{call, nil})
			}
		})
	}
	for _, hc := range helperCallsIn(c, bodies) {
		allInstrs(calleeFunc(&hc.Call), func(i ssa.Instruction) {
			if call, ok := i.(*ssa.Call); ok && flipNames[calleeName(&call.Call)] {
				flips = append(flips, flipSite{call, hc})
			}
		})
	}
	for _, fs := range flips {
		call := fs.call
		n++
		args := call.Call.Args
		lo, hi := boundArg(fs.via, args[len(args)-2]), args[len(args)-1]
		k, isK := constInt(lo)
		okLo := isK && k == 0
		hb, ho := lin(hi)
		if a := boundArg(fs.via, hb); a != hb {
			ab, ao := lin(a)
			hb, ho = ab, ho+ao
		}
		// (the Index's own counter: with the counter in a struct the Index shares with the writers — an embedded header — the
		// field must be selected from an Index)
		okHi := ho == 0 && srcField(hb) == rows && srcHolder(hb) == c.a.IndexT
		// an accessor method that returns the field
		if !okHi && ho == 0 {
			if _, callee, vals, ok := resultOrigins(c.w, hb); ok && callee.Signature.Recv() != nil && namedOf(callee.Signature.Recv().Type()) == c.a.IndexT {
				all := len(vals) > 0
				for _, rv := range vals {
					if srcField(peelConv(rv)) != rows || srcHolder(peelConv(rv)) != c.a.IndexT {
						all = false
					}
				}
				okHi = all
			}
		}
		why := ""
		if !okLo {
			why = "the range does not start at row 0"
		} else if !okHi {
			why = fmt.Sprintf("the range does not end at the index's row count (offset %+d or a different value)", ho)
		}
		// the flipped bitmap must be the operand's result
		opnd := boundArg(fs.via, args[len(args)-3])
		if e, ok := opnd.(*ssa.Extract); !ok || e.Index != 0 {
			why = "what is flipped is not the operand's evaluation result"
		} else if ec, ok := e.Tuple.(*ssa.Call); !ok || !ec.Call.IsInvoke() || ec.Call.Method.Name() != evalName {
			why = "what is flipped is not the operand's evaluation result"
		}
		c.r.check(why == "", rule, safeFname(en)+": complement", "Flip(operand, 0, rowCount)", "NOT does not complement exactly within the rows of the index: "+why, c.w.ipos(call))
	}
	if n == 0 {
		c.r.bad(rule, safeFname(en)+": complement", "NOT is not computed with a roaring Flip over the row universe", []string{c.w.pos(en.Pos())})
	}
	// the row count field is assigned only while opening, from the decoded counter item
	nSt := 0
	for _, fn := range c.w.ModFuncs {
		allInstrs(fn, func(i ssa.Instruction) {
			st, ok := i.(*ssa.Store)
			if !ok {
				return
			}
			fa, ok := st.Addr.(*ssa.FieldAddr)
			if !ok || fieldOf(fa.X.Type(), fa.Field) != rows {
				return
			}
			// whose row count: the field may sit in a struct that the writers hold as well (an embedded header). A store into
			// an Index's is judged below; a writer's own counter is C18's business; a store in a method of the nested struct
			// (`func (h *header) rowAdded()`) is a store into the Index's row count exactly if the method is called on an
			// Index's struct somewhere — outside the open function, or with anything but the decoded item, that is reported.
			if hT := holderType(fa); hT != c.a.IndexT {
				if p := nestedParam(fa, c.a.IndexT); p != nil {
					key := safeFname(fn) + ": row count"
					if c.usedAsValue(fn) {
						c.r.undecided(rule, key, safeFname(fn)+" assigns the row count of the struct it is called on and is used as a function value: whether it runs on an Index is not followed", c.w.ipos(i))
						return
					}
					for _, s := range c.bindingSites(fn, p) {
						switch {
						case s.T == c.a.IndexT:
							nSt++
							c.r.bad(rule, key, "the index's row count is assigned by "+safeFname(fn)+", called on the Index by "+safeFname(s.in)+": it is assigned from something other than the decoded row-counter item, or outside the open function", []string{c.w.ipos(s.at), c.w.ipos(i)})
						case s.T == nil:
							c.r.undecided(rule, key, safeFname(fn)+" assigns the row count of the "+typeString(p.Type())+" it is called on; at this call that is not the struct held by a writer or the Index: whether an Index's row count changes is not followed", c.w.ipos(s.at))
						}
					}
					return
				}
				if c.a.isRowsHolder(hT) {
					return // a writer's counter
				}
				if k, isK := constInt(st.Val); isK && k == 0 {
					return // explicit zero initialisation of a struct value
				}
				c.r.undecided(rule, safeFname(fn)+": row count", "the row count of a "+typeString(fieldHolder(fa).Type())+" that is not identified as part of the Index or of a writer is assigned: if it becomes the Index's, NOT complements within the wrong universe", c.w.ipos(i))
				return
			}
			nSt++
			var okRowSrc func(v ssa.Value, depth int) bool
			okRowSrc = func(v ssa.Value, depth int) bool {
				if call, ok := v.(*ssa.Call); ok && strings.HasSuffix(calleeName(&call.Call), ".Uint32") {
					src := call.Call.Args[len(call.Call.Args)-1]
					if gc, ok := peel(src).(*ssa.Call); ok && calleeName(&gc.Call) == "(*go.etcd.io/bbolt.Bucket).Get" && keyKind(c, gc.Call.Args[1]) == "rows" {
						return true
					}
					return false
				}
				// a local variable assigned (possibly inside the View callback) from the decoded item
				if ld, ok := v.(*ssa.UnOp); ok && ld.Op == token.MUL && depth < 3 {
					if vals, ok := cellValues(ld.X); ok && len(vals) > 0 {
						n, good := 0, true
						for _, sv := range vals {
							if k, isK := constInt(sv); isK && k == 0 {
								continue // zero initialisation
							}
							n++
							if !okRowSrc(sv, depth+1) {
								good = false
							}
						}
						return n > 0 && good
					}
				}
				// a field of a local struct variable of the open function (a "header" read as a whole, possibly by a
				// method of the struct that is called on it or handed to View as a method value): every store into that
				// field, wherever the variable's address goes, is the decoded item. If the address goes somewhere that
				// is not followed the provenance is not established.
				if ld, ok := v.(*ssa.UnOp); ok && ld.Op == token.MUL && depth < 3 {
					if fa, ok := ld.X.(*ssa.FieldAddr); ok {
						if al, ok := peelCell(fa.X).(*ssa.Alloc); ok {
							if stores, ok := structFieldStores(c, al, fa.Field); ok {
								n, good := 0, true
								for _, fs := range stores {
									if k, isK := constInt(fs.Val); isK && k == 0 {
										continue // zero initialisation
									}
									n++
									if !okRowSrc(fs.Val, depth+1) {
										good = false
									}
								}
								return n > 0 && good
							}
							return false
						}
					}
				}
				// the result of a header-reading helper: every return that carries a nil error returns the decoded item
				if depth < 2 {
					if _, callee, _, ok := resultOrigins(c.w, v); ok {
						idx := 0
						if e, isE := v.(*ssa.Extract); isE {
							idx = e.Index
						}
						n, good := 0, true
						allInstrs(callee, func(i ssa.Instruction) {
							if !isSuccessReturn(i) {
								return
							}
							n++
							if !okRowSrc(retVals(i.(*ssa.Return))[idx], depth+1) {
								good = false
							}
						})
						return n > 0 && good
					}
				}
				return false
			}
			okSrc := okRowSrc(st.Val, 0)
			inOpen := false
			for _, of := range c.scope(c.a.OpenFromDB, 2) {
				if of == fn {
					inOpen = true
				}
			}
			c.r.check(okSrc && inOpen, rule, safeFname(fn)+": row count", "row count := decoded row-counter item, while opening", "the index's row count is assigned from something other than the decoded row-counter item, or outside the open function", c.w.ipos(i))
		})
	}
	if nSt == 0 {
		c.r.bad(rule, "row count", "the index's row count is never assigned", []string{c.w.pos(c.a.OpenFromDB.Pos())})
	}
}

// unknownColRule: lookups in schema.Columns during execution: the not-found branch reaches only error returns.
func unknownColRule(c *Ctx, rule string, withCacheOrder bool) {
	colsF := structFieldNamed(c.a.SchemaT, "Columns")
	re := c.w.reach(c.a.Execute)
	n := 0
	for _, fn := range re.sorted() {
		allInstrs(fn, func(i ssa.Instruction) {
			lk, ok := i.(*ssa.Lookup)
			if !ok || !lk.CommaOk || path(lk.X).lastField() != colsF {
				return
			}
			n++
			key := fmt.Sprintf("%s: column lookup#%d", safeFname(fn), n)
			okv := extractOf(lk, 1)
			if okv == nil {
				c.r.bad(rule, key, "the result of the column lookup's found flag is ignored: an unknown column is treated like an empty one", []string{c.w.ipos(lk)})
				return
			}
			// not-found blocks
			found := false
			for _, b := range fn.Blocks {
				if len(b.Preds) != 1 {
					continue
				}
				p := b.Preds[0]
				iff, ok := p.Instrs[len(p.Instrs)-1].(*ssa.If)
				if !ok {
					continue
				}
				isNotFound := false
				for _, cm := range trueCmps(fact{iff.Cond, p.Succs[0] == b}) {
					if cm.Y == nil && cm.Op == token.NEQ && cm.X == ssa.Value(okv) {
						isNotFound = true
					}
				}
				if !isNotFound {
					continue
				}
				found = true
				first := b.Instrs[0]
				bad := func(x ssa.Instruction) bool { return isSuccessReturn(x) || x == ssa.Instruction(lk) }
				if bad(first) {
					c.r.bad(rule, key, "the not-found branch returns success", []string{c.w.ipos(first)})
					return
				}
				if pth := c.fc.pathAvoiding(fn, first, bad, nil); pth != nil {
					c.r.bad(rule, key, "when the column does not exist, execution continues (the column is skipped or treated as empty) instead of returning an error", []string{c.w.ipos(lk)}, c.fc.witnessStrings(pth)...)
					return
				}
			}
			if !found {
				c.r.bad(rule, key, "no branch on the lookup's found flag: an unknown column is not rejected", []string{c.w.ipos(lk)})
				return
			}
			if withCacheOrder {
				// the check precedes any cache lookup in the same function
				for _, g := range cacheCalls(fn, "Get") {
					if !lk.Block().Dominates(g.Block()) || (lk.Block() == g.Block() && pointOf(lk).i > pointOf(g).i) {
						c.r.bad(rule, key, "the cache is consulted before the column is checked: a cached key would answer for an unknown column", []string{c.w.ipos(g)})
						return
					}
				}
			}
			c.r.ok(rule, key, "not found -> error", c.w.ipos(lk))
		})
	}
	c.r.min[rule] = 2
	if !withCacheOrder {
		groupByResolvedRule(c, rule, colsF)
	}
}

// groupByResolvedRule: Execute never reports success without having resolved the group-by list against the schema. The
// resolution (the lookup of each listed column in the schema's column map, which is what rejects an unknown column) is
// reached on every path to a successful return: a shortcut that returns early (nothing matched, cached total, …) makes
// the error for an unknown column depend on the data.
func groupByResolvedRule(c *Ctx, rule string, colsF *types.Var) {
	ex := c.a.Execute
	// the key is an element of a list of strings (the group-by list), not a field of an expression node. The lookup may
	// live in a per-column helper (`idx.groupByColumn(colName)`): its key is then a parameter, which must be bound to such
	// an element at every call of the helper.
	var isListElem func(v ssa.Value, depth int) bool
	isListElem = func(v ssa.Value, depth int) bool {
		v = peel(v)
		if ld, ok := v.(*ssa.UnOp); ok && ld.Op == token.MUL {
			_, isElem := ld.X.(*ssa.IndexAddr)
			return isElem
		}
		p, ok := v.(*ssa.Parameter)
		if !ok || depth >= 2 {
			return false
		}
		sites := staticCallSites(c, p.Parent())
		for _, site := range sites {
			if !isListElem(argFor(site, p.Parent(), p), depth+1) {
				return false
			}
		}
		return len(sites) > 0
	}
	isGB := func(i ssa.Instruction) bool {
		lk, ok := i.(*ssa.Lookup)
		if !ok || !lk.CommaOk || path(lk.X).lastField() != colsF {
			return false
		}
		return isListElem(lk.Index, 0)
	}
	// resolves: the instruction looks a listed column up, itself or in a helper it calls
	resolves := func(i ssa.Instruction) bool {
		if isGB(i) {
			return true
		}
		if call, ok := i.(*ssa.Call); ok {
			if h := calleeFunc(&call.Call); h != nil && c.w.inModule(h) && h != ex && h != i.Parent() {
				return c.fc.mayContain(h, isGB, 2)
			}
		}
		return false
	}
	// the loop over the group-by list: with an empty list its body never runs, and that is a complete resolution too.
	// The loop must walk the whole list: it is left through its header (the list is exhausted) or towards an error
	// return only. A `break` once no group is left, from which a result can still be returned, leaves the columns behind
	// it unchecked — whether an unknown column is an error then depends on the data.
	okReturn := func(i ssa.Instruction) bool {
		ret, ok := i.(*ssa.Return)
		return ok && !isRecoverBlockReturn(ret) && !isErrorReturn(i)
	}
	canReturnOKFrom := func(s *ssa.BasicBlock) bool {
		seen := map[*ssa.BasicBlock]bool{s: true}
		work := []*ssa.BasicBlock{s}
		for len(work) > 0 {
			b := work[0]
			work = work[1:]
			if okReturn(b.Instrs[len(b.Instrs)-1]) {
				return true
			}
			for _, n := range b.Succs {
				if !seen[n] {
					seen[n] = true
					work = append(work, n)
				}
			}
		}
		return false
	}
	inLoopHeaderOf := map[*ssa.BasicBlock]bool{}
	inPartialLoop := map[*ssa.BasicBlock]bool{}
	for _, fn := range c.scope(ex, 3) {
		for _, l := range loopsOf(fn) {
			has := false
			for b := range l.blocks {
				for _, ins := range b.Instrs {
					if resolves(ins) {
						has = true
					}
				}
			}
			if !has {
				continue
			}
			whole := true
			for b := range l.blocks {
				for _, s := range b.Succs {
					if !l.blocks[s] && b != l.header && canReturnOKFrom(s) {
						whole = false
					}
				}
			}
			if whole {
				inLoopHeaderOf[l.header] = true
			} else {
				for b := range l.blocks {
					inPartialLoop[b] = true
				}
			}
		}
	}
	direct := func(i ssa.Instruction) bool {
		return (isGB(i) && !inPartialLoop[i.Block()]) || inLoopHeaderOf[i.Block()]
	}
	// a call resolves the list if its callee does so on every path to a return that does not report an error
	var isEventD func(i ssa.Instruction, depth int) bool
	isEventD = func(i ssa.Instruction, depth int) bool {
		if direct(i) {
			return true
		}
		if call, ok := i.(*ssa.Call); ok && depth > 0 {
			h := calleeFunc(&call.Call)
			if h == nil || !c.w.inModule(h) || h == ex || h == i.Parent() || h.Blocks == nil {
				return false
			}
			inner := func(j ssa.Instruction) bool { return isEventD(j, depth-1) }
			return c.fc.mayContain(h, direct, depth-1) && c.fc.pathAvoiding(h, nil, okReturn, inner) == nil
		}
		return false
	}
	isEvent := func(i ssa.Instruction) bool { return isEventD(i, 3) }
	any := false
	instrsOf(c.scope(ex, 3), func(i ssa.Instruction) {
		if isGB(i) {
			any = true
		}
	})
	key := safeFname(ex) + ": group-by resolved before success"
	if !any {
		c.r.bad(rule, key, "no lookup of the group-by columns in the schema is reachable from Execute: an unknown group-by column cannot be rejected", []string{c.w.pos(ex.Pos())})
		return
	}
	if p := c.fc.pathAvoiding(ex, nil, isSuccessReturn, isEvent); p != nil {
		c.r.bad(rule, key, "Execute can return a result without having looked the group-by columns up in the schema: whether an unknown group-by column is an error then depends on the data (e.g. on whether anything matched)", []string{c.w.ipos(p[len(p)-1])}, c.fc.witnessStrings(p)...)
	} else {
		c.r.ok(rule, key, "every successful return has passed the resolution of the group-by list", c.w.pos(ex.Pos()))
	}
}

func nilBitmapRule(c *Ctx, rule string) {
	re := c.w.reach(c.a.Execute)
	n := 0
	for _, fn := range re.sorted() {
		allInstrs(fn, func(i ssa.Instruction) {
			call, ok := i.(*ssa.Call)
			if !ok || !call.Call.IsInvoke() || call.Call.Method.Name() != getColName {
				return
			}
			// keys taken from the schema exist in the data; keys computed from the query (getValueIndex) may not
			fromQuery := false
			if kc, isCall := peel(call.Call.Args[0]).(*ssa.Call); isCall && calleeFunc(&kc.Call) == c.a.GetValueIndex {
				fromQuery = true
			}
			// the key may be a parameter of a lookup helper that some caller fills with getValueIndex(…)
			if par, isPar := peel(call.Call.Args[0]).(*ssa.Parameter); isPar {
				if node := c.w.CG.Nodes[fn]; node != nil {
					for _, e := range node.In {
						if e.Site == nil || e.Site.Common().StaticCallee() != fn {
							continue
						}
						if sc, ok := e.Site.(*ssa.Call); ok {
							if a := argFor(sc, fn, par); a != nil {
								if kc, isCall := peel(a).(*ssa.Call); isCall && calleeFunc(&kc.Call) == c.a.GetValueIndex {
									fromQuery = true
								}
							}
						}
					}
				}
			}
			if !fromQuery {
				return
			}
			n++
			bm := extractOf(call, 0)
			key := fmt.Sprintf("%s: GetCol#%d", safeFname(fn), n)
			if bm == nil {
				c.r.ok(rule, key, "result unused", c.w.ipos(call))
				return
			}
			okAll := true
			var visit func(v ssa.Value, depth int)
			visit = func(v ssa.Value, depth int) {
				if depth > 3 {
					return
				}
				for _, u := range usesOf(v) {
					switch x := u.(type) {
					case *ssa.Phi:
						// edge-sensitive: the incoming edge from this value must carry bm != nil
						for k, e := range x.Edges {
							if e != v {
								continue
							}
							pred := x.Block().Preds[k]
							guarded := false
							for _, cm := range cmpsOnEdge(pred, x.Block()) {
								if cm.Op == token.NEQ && cm.Y != nil && cm.X == ssa.Value(bm) && isNilConst(cm.Y) {
									guarded = true
								}
							}
							if !guarded {
								// the merged value is used further: follow it, requiring guards there
								visit(x, depth+1)
							}
						}
					case *ssa.Call:
						cc := &x.Call
						if f := calleeFunc(cc); f != nil && (f.Pkg != nil && f.Pkg.Pkg.Path() == roaringPkg) {
							if !knownNonNil(v, x) && !knownNonNil(bm, x) {
								okAll = false
							}
						}
						if cc.IsInvoke() && cc.Method.Name() == "Put" {
							if !knownNonNil(v, x) && !knownNonNil(bm, x) {
								okAll = false
							}
						}
					case *ssa.Return:
						if !knownNonNil(v, x) && !knownNonNil(bm, x) {
							okAll = false
						}
					case *ssa.BinOp:
					}
				}
			}
			visit(bm, 0)
			c.r.check(okAll, rule, key, "nil result replaced / guarded before use", "the bitmap for a value that may not occur in the data (a preloaded index returns nil for it) is used, cached or returned without a nil test: the query panics or a nil bitmap is cached", c.w.ipos(call))
		})
	}
	c.r.min[rule] = 1
}

func opmapRule(c *Ctx, rule string) {
	inter := map[string]bool{roaringPkg + ".FastAnd": true, roaringPkg + ".And": true, roaringPkg + ".ParAnd": true}
	union := map[string]bool{roaringPkg + ".FastOr": true, roaringPkg + ".Or": true, roaringPkg + ".ParOr": true, roaringPkg + ".HeapOr": true, roaringPkg + ".ParHeapOr": true}
	for _, spec := range []struct {
		typ   string
		allow map[string]bool
		what  string
	}{{"ExprAnd", inter, "intersection"}, {"ExprOr", union, "union"}} {
		fn := exprMethod(c, spec.typ, c.a.EvalName)
		if fn == nil {
			c.r.undecided(rule, "(*"+spec.typ+")."+nameOr(c.a.EvalName, "eval"), "method not found")
			continue
		}
		name := safeFname(fn)
		exprsF := structFieldNamed(c.w.namedType(pkgRoot, spec.typ), "Exprs")
		var comb []*ssa.Call
		// (the combining call may sit in a function literal that eval hands to a get/compute/put helper: evalBodies)
		bodies := evalBodies(c, fn)
		instrsOf(bodies, func(i ssa.Instruction) {
			call, ok := i.(*ssa.Call)
			if !ok {
				return
			}
			f := calleeFunc(&call.Call)
			if f != nil && f.Pkg != nil && f.Pkg.Pkg.Path() == roaringPkg && f.Signature.Recv() == nil && f.Name() != "New" && f.Name() != "NewBitmap" {
				comb = append(comb, call)
			}
		})
		if len(comb) == 0 {
			// the evaluation is shared with the sibling operator: a helper receives the operand list and the combining function
			done := false
			instrsOf(bodies, func(i ssa.Instruction) {
				call, ok := i.(*ssa.Call)
				if !ok || done {
					return
				}
				h := calleeFunc(&call.Call)
				if h == nil || !c.w.inModule(h) || h.Blocks == nil {
					return
				}
				var pComb, pExprs ssa.Value
				combName := ""
				for k, a := range call.Call.Args {
					if k >= len(h.Params) {
						continue
					}
					av := a
					if ct, ok := av.(*ssa.ChangeType); ok {
						av = ct.X
					}
					if f, ok := av.(*ssa.Function); ok && f.Pkg != nil && f.Pkg.Pkg.Path() == roaringPkg {
						pComb, combName = h.Params[k], funcFullName(f)
					}
					if path(a).lastField() == exprsF {
						pExprs = h.Params[k]
					}
				}
				if pComb == nil || pExprs == nil {
					return
				}
				done = true
				if !spec.allow[combName] {
					c.r.bad(rule, name, "operands are combined with "+shortName(combName)+", which is not a "+spec.what, []string{c.w.ipos(call)})
					return
				}
				// inside the helper: the combining parameter is called on the slice built from every operand's result
				var dyn *ssa.Call
				allInstrs(h, func(j ssa.Instruction) {
					if dc, ok := j.(*ssa.Call); ok && dc.Call.Value == pComb {
						dyn = dc
					}
				})
				if dyn == nil {
					c.r.bad(rule, name, "the helper that evaluates the operands never calls the combining function it is given", []string{c.w.ipos(call)})
					return
				}
				okOps, why := elementLoop(c, h, dyn.Call.Args[len(dyn.Call.Args)-1], func(x ssa.Value) bool { return x == pExprs }, evalCallElem, 0)
				c.r.check(okOps, rule, name, spec.what+" of the evaluation results of every operand (through "+safeFname(h)+")", why, c.w.ipos(call))
			})
			if done {
				continue
			}
		}
		if len(comb) != 1 {
			c.r.undecided(rule, name, fmt.Sprintf("expected one roaring combining call, found %d", len(comb)), c.w.pos(fn.Pos()))
			continue
		}
		cb := comb[0]
		if !spec.allow[calleeName(&cb.Call)] {
			c.r.bad(rule, name, "operands are combined with "+shortName(calleeName(&cb.Call))+", which is not a "+spec.what, []string{c.w.ipos(cb)})
			continue
		}
		// the combined slice is built by appending, for every element of e.Exprs in range order, that element's eval result
		arg := cb.Call.Args[len(cb.Call.Args)-1]
		isExprsField := func(v ssa.Value) bool { return path(v).lastField() == exprsF }
		okOps, why := operandLoop(c, cb.Parent(), arg, isExprsField, 0)
		c.r.check(okOps, rule, name, spec.what+" of the evaluation results of every operand", why, c.w.ipos(cb))
	}
}

// variadicElem: the single element of a compiler-built variadic slice.
func variadicElem(v ssa.Value) ssa.Value {
	sl, ok := v.(*ssa.Slice)
	if !ok {
		return nil
	}
	al, ok := sl.X.(*ssa.Alloc)
	if !ok {
		return nil
	}
	var out ssa.Value
	for _, r := range referrers(al) {
		if ia, ok := r.(*ssa.IndexAddr); ok {
			for _, rr := range referrers(ia) {
				if st, ok := rr.(*ssa.Store); ok {
					out = st.Val
				}
			}
		}
	}
	return out
}

// c03PureAs runs the in-place-mutation rule of C03 under another rule name.
func c03PureAs(c *Ctx, rule string) {
	sub := newReport(c.r.Prop)
	saved := c.r
	c.r = sub
	c03Pure(c)
	c.r = saved
	for _, o := range sub.Obs {
		o.Rule = rule
		c.r.add(o.Status, rule, o.Construct, o.Msg, o.Sites, o.Witness)
	}
	for k, v := range sub.Stats {
		c.r.Stats[k] = v
	}
}

// ---------------- C02 ----------------

func runC02(c *Ctx) {
	if !c.need("C02.alias", c.a.Execute, c.a.SchemaT) {
		return
	}
	re := c.w.reach(c.a.Execute, c.a.GetSchema)
	var fns []*ssa.Function
	for _, fn := range re.sorted() {
		if c.w.pkgPathOf(fn) == pkgRoot {
			fns = append(fns, fn)
		}
	}
	aliasRule(c, "C02.alias", fns)
	n := 0
	for _, fn := range c.w.reach(c.a.Execute).sorted() {
		n += orderRule(c, "C02.sorted", fn)
	}
	if n < 1 {
		c.r.undecided("C02.sorted", "<vacuity>", "no slice filled from a map found in the execution path; the per-column value list was confirmed on the reference tree")
	}
	unknownColRule(c, "C02.unknowncol", false)
	nonzeroRule(c, "C02.nonzero")
	fieldsRule(c, "C02.fields")
	readonlyRule(c, "C02.fresh", []*ssa.Function{c.a.Execute}, exprProtected(c), "a second execution of the same query would see state left by the first (e.g. every group-by column twice)")
	c03PureAs(c, "C02.inplace")
}

// groupRefinements: calls to roaring.And (or the like) in the group-by code whose result is stored into a group.
func nonzeroRule(c *Ctx, rule string) {
	// (the partial group's bitmap field: by shape — the struct with a bitmap and a []ResultField, rules_ag10.go)
	resF := c.a.ResGroupBMF
	if resF == nil {
		c.r.undecided(rule, "<anchor>", "the bitmap field of the group-by working type (resultGroup.result) was not found"+c.a.SH.whyText())
		return
	}
	n := 0
	for _, fn := range c.w.reach(c.a.Execute).sorted() {
		loops := loopsOf(fn)
		allInstrs(fn, func(i ssa.Instruction) {
			st, ok := i.(*ssa.Store)
			if !ok {
				return
			}
			fa, ok := st.Addr.(*ssa.FieldAddr)
			if !ok || fieldOf(fa.X.Type(), fa.Field) != resF {
				return
			}
			inLoop := false
			for _, l := range loops {
				if l.blocks[st.Block()] {
					inLoop = true
				}
			}
			if !inLoop {
				return // the seed group holding the whole result
			}
			n++
			v := st.Val
			okG := false
			for _, cm := range cmpsAt(st) {
				if cm.Y == nil {
					// IsEmpty() == false
					if call, ok := cm.X.(*ssa.Call); ok && cm.Op == token.NEQ && strings.HasSuffix(calleeName(&call.Call), ".IsEmpty") && call.Call.Args[0] == v {
						okG = true
					}
					continue
				}
				x, y, op := cm.X, cm.Y, cm.Op
				if _, isK := constInt(x); isK {
					x, y, op = y, x, swapOp(op)
				}
				k, isK := constInt(y)
				call, isCall := peelConv(x).(*ssa.Call)
				if !isK || !isCall || !strings.HasSuffix(calleeName(&call.Call), ".GetCardinality") || call.Call.Args[0] != v {
					continue
				}
				if (op == token.NEQ && k == 0) || (op == token.GTR && k == 0) || (op == token.GEQ && k == 1) {
					okG = true
				}
			}
			c.r.check(okG, rule, fmt.Sprintf("%s: refined group#%d", safeFname(fn), n), "appended only when its bitmap is non-empty",
				"a refined group is appended without its bitmap being known to be non-empty: groups with count 0 appear in the result", c.w.ipos(st))
		})
	}
	if n == 0 {
		c.r.undecided(rule, "group-by", "no refined group is stored in a loop; the rule expects the group-by refinement")
	}
}

// fieldsRule: the ResultField appended for a level names that level's column and the value whose bitmap refined the group.
func fieldsRule(c *Ctx, rule string) {
	rfT := c.w.namedType(pkgRoot, "ResultField")
	colF, valF := structFieldNamed(rfT, "Column"), structFieldNamed(rfT, "Value")
	// (the group-by level and value types and their fields: by shape, rules_ag10.go)
	if !c.need(rule, c.a.LevelColF, c.a.LevelValsF, c.a.ValIdxF, c.a.ValValueF) {
		return
	}
	n := 0
	for _, fn := range c.w.reach(c.a.Execute).sorted() {
		if c.w.pkgPathOf(fn) != pkgRoot {
			continue
		}
		var colSrc, valSrc ssa.Value
		var at ssa.Instruction
		allInstrs(fn, func(i ssa.Instruction) {
			st, ok := i.(*ssa.Store)
			if !ok {
				return
			}
			fa, ok := st.Addr.(*ssa.FieldAddr)
			if !ok {
				return
			}
			switch fieldOf(fa.X.Type(), fa.Field) {
			case colF:
				colSrc, at = st.Val, i
			case valF:
				valSrc, at = st.Val, i
			}
		})
		if colSrc == nil && valSrc == nil {
			continue
		}
		n++
		key := safeFname(fn)
		okF, why := groupFieldOK(c, fn, colSrc, valSrc)
		c.r.check(okF, rule, key, "field = {level's column, refining value}", "a group's field does not name the level's column and the value whose bitmap refined it: "+why, c.w.ipos(at))
	}
	if n == 0 {
		c.r.undecided(rule, "group-by", "no ResultField is built in the execution path")
	}
}

// operandLoop: slice value v (in fn) is built by appending, for every element of the source slice (isSrc) in range order,
// the result of calling eval on that element, and every evaluated operand is appended. v may also be the result of a
// module helper that does exactly that for one of its parameters, which is bound to the source slice at the call.
func operandLoop(c *Ctx, fn *ssa.Function, v ssa.Value, isSrc func(ssa.Value) bool, depth int) (bool, string) {
	return elementLoop(c, fn, v, isSrc, evalCallElem, depth)
}

// evalCallElem recognises `x.eval(idx)` on an Expression and returns x.
func evalCallElem(ec *ssa.Call) (ssa.Value, bool) {
	if !ec.Call.IsInvoke() || ec.Call.Method.Name() != evalName {
		return nil, false
	}
	return ec.Call.Value, true
}

// elementLoop is operandLoop for an arbitrary per-element call (elemCall returns the element the call works on).
func elementLoop(c *Ctx, fn *ssa.Function, v ssa.Value, isSrc func(ssa.Value) bool, elemCall func(*ssa.Call) (ssa.Value, bool), depth int) (bool, string) {
	return elementLoopX(c, fn, v, isSrc, elemCall, depth, false)
}

// elementLoopX: single = the per-element call has one result (its value is collected) instead of (value, error).
func elementLoopX(c *Ctx, fn *ssa.Function, v ssa.Value, isSrc func(ssa.Value) bool, elemCall func(*ssa.Call) (ssa.Value, bool), depth int, single bool) (bool, string) {
	return elementLoopF(c, fn, v, isSrc, elemCall, depth, single, nil)
}

// elementLoopF is elementLoopX with the binding of function-typed parameters: the collecting loop may live in a *map
// helper* — a module function, possibly an instance of a generic one such as mapSlice[T, U any](xs []T, f func(T) U) []U —
// that makes the per-element call through its function parameter (`out = append(out, f(x))`). fnOf resolves a
// function-typed parameter of fn to the function the caller passed (nil at the top level, where only function values
// written in fn itself resolve). The helper's body is checked exactly like a hand-written loop (whole list, in order,
// nothing skipped), and the function passed must be a *per-element function* (perElemFunc): a method expression
// `Expression.cacheKey` (an ssa thunk that invokes the method on its first parameter), a function literal
// `func(e Expression) uint64 { return e.cacheKey() }` or a named function of that shape. Mapping another method, a
// literal that returns something else, a helper that filters, or a re-sliced operand list are still reported.
func elementLoopF(c *Ctx, fn *ssa.Function, v ssa.Value, isSrc func(ssa.Value) bool, elemCall func(*ssa.Call) (ssa.Value, bool), depth int, single bool, fnOf func(ssa.Value) *ssa.Function) (bool, string) {
	if depth > 2 {
		return false, "operand collection is nested too deep in helpers"
	}
	// the source is the operand list as a whole: path() looks through re-slicing, so xs[1:] or xs[:n] would otherwise
	// pass for xs although the loop over it (from its first to its last element) leaves operands of xs out
	whole := isSrc
	isSrc = func(x ssa.Value) bool { return whole(x) && !partOfList(x) }
	if call, callee, vals, ok := resultOrigins(c.w, v); ok {
		// which parameter receives the source slice?
		var srcParam ssa.Value
		for k, a := range call.Call.Args {
			if isSrc(a) && k < len(callee.Params) {
				srcParam = callee.Params[k]
			}
		}
		if srcParam == nil {
			for _, a := range call.Call.Args {
				if whole(a) {
					return false, "the helper that collects the operands is given only a part of the operand list (a re-slicing of it)"
				}
			}
			return false, "the helper that collects the operands is not given the operand list"
		}
		for _, rv := range vals {
			if isNilConst(rv) {
				continue // error returns
			}
			// a function-typed parameter of the helper stands for what this call passes for it
			inner := func(x ssa.Value) *ssa.Function {
				p, isParam := x.(*ssa.Parameter)
				if !isParam || p.Parent() != callee {
					return nil
				}
				return funcValueOf(argFor(call, callee, p), fnOf)
			}
			if ok, why := elementLoopF(c, callee, rv, func(x ssa.Value) bool { return x == srcParam }, elemCall, depth+1, single, inner); !ok {
				return false, why
			}
		}
		return true, ""
	}
	var appends []*ssa.Call
	seen := map[ssa.Value]bool{}
	var walk func(v ssa.Value)
	walk = func(v ssa.Value) {
		if seen[v] {
			return
		}
		seen[v] = true
		switch x := v.(type) {
		case *ssa.Phi:
			for _, e := range x.Edges {
				walk(e)
			}
		case *ssa.Call:
			if b, ok := x.Call.Value.(*ssa.Builtin); ok && b.Name() == "append" {
				appends = append(appends, x)
				walk(x.Call.Args[0])
			}
		}
	}
	walk(v)
	var ap ssa.Instruction
	var el, storeIdx ssa.Value
	if ms, isMake := peel(v).(*ssa.MakeSlice); isMake && len(appends) == 0 {
		// make([]T, len(src)) filled by index: out[i] = f(src[i])
		okLen := false
		if lc, ok := peelConv(ms.Len).(*ssa.Call); ok {
			if b, ok := lc.Call.Value.(*ssa.Builtin); ok && b.Name() == "len" && isSrc(lc.Call.Args[0]) {
				okLen = true
			}
		}
		if !okLen {
			return false, "the slice of results is not made as long as the operand list"
		}
		n := 0
		for _, r := range referrers(ms) {
			ia, ok := r.(*ssa.IndexAddr)
			if !ok {
				continue
			}
			for _, rr := range referrers(ia) {
				if st, ok := rr.(*ssa.Store); ok && st.Addr == ssa.Value(ia) {
					n++
					ap, el, storeIdx = st, st.Val, ia.Index
				}
			}
		}
		if n != 1 {
			return false, fmt.Sprintf("the slice of results is filled at %d store sites", n)
		}
	} else {
		if len(appends) != 1 {
			return false, fmt.Sprintf("operands are collected at %d append sites", len(appends))
		}
		ac := appends[0]
		ap = ac
		el = variadicElem(ac.Call.Args[1])
	}
	var ec *ssa.Call
	if single {
		cl, ok := el.(*ssa.Call)
		if !ok {
			return false, "what is collected is not the result of the per-operand call"
		}
		ec = cl
	} else {
		e, ok := el.(*ssa.Extract)
		if !ok || e.Index != 0 {
			return false, "what is appended is not an operand's evaluation result"
		}
		cl, ok := e.Tuple.(*ssa.Call)
		if !ok {
			return false, "what is appended is not an operand's evaluation result"
		}
		ec = cl
	}
	elemV, ok := elemCall(ec)
	if !ok && !ec.Call.IsInvoke() {
		// the per-element call made through a function value: g(x) counts as the per-element call on x when every
		// return of g hands back the result of that call on g's own parameter
		if g := funcValueOf(ec.Call.Value, fnOf); g != nil {
			if k, isPE := perElemFunc(g, elemCall, single); isPE && k < len(ec.Call.Args) {
				elemV, ok = ec.Call.Args[k], true
			}
		}
	}
	if !ok {
		return false, "what is appended is not an operand's evaluation result"
	}
	ld, ok := elemV.(*ssa.UnOp)
	if !ok {
		return false, "the evaluated operand is not an element of the operand list"
	}
	ia, ok := ld.X.(*ssa.IndexAddr)
	if ok && whole(ia.X) && !isSrc(ia.X) {
		return false, "the operand loop runs over a part of the operand list only (a re-slicing of it)"
	}
	if !ok || !isSrc(ia.X) {
		return false, "the evaluated operand is not an element of the operand list"
	}
	if storeIdx != nil && storeIdx != ia.Index {
		return false, "an operand's result is not stored at the operand's own position"
	}
	ib, io := lin(ia.Index)
	lb, isCtr := phiLower(ib)
	if !isCtr || lb+io != 0 {
		return false, "the operand loop does not start at the first operand"
	}
	upper := false
	for _, cm := range cmpsAt(ec) {
		if cm.Y != nil && cm.Op == token.LSS && cm.X == ia.Index && isLenOf(cm.Y, ia.X) {
			upper = true
		}
	}
	if !upper {
		return false, "the operand loop does not run over the whole operand list"
	}
	hdr := ib.(*ssa.Phi).Block().Instrs[0]
	errv := extractOf(ec, 1)
	cutErr := func(pred, succ *ssa.BasicBlock) bool {
		iff, ok := pred.Instrs[len(pred.Instrs)-1].(*ssa.If)
		if !ok || errv == nil {
			return false
		}
		for _, cm := range trueCmps(fact{iff.Cond, pred.Succs[0] == succ}) {
			if cm.Op == token.NEQ && cm.Y != nil && cm.X == ssa.Value(errv) && isNilConst(cm.Y) {
				return true
			}
		}
		return false
	}
	if p := c.fc.pathFrom(fn, ec, func(x ssa.Instruction) bool { return x == hdr }, func(x ssa.Instruction) bool { return x == ap }, cutErr); p != nil {
		return false, "an operand can be evaluated without its result being combined (it is skipped on some path)"
	}
	// no way out of the loop other than through its header (all operands done) or with an error: once an operand has been
	// evaluated, a return that reports success (or, in a function without an error result, any return) that is reached
	// without passing the loop header again ends the evaluation early — directly, or by a break to a return behind the
	// loop. The remaining operands are then never evaluated, so an error in one of them (an unknown column) is lost and
	// the outcome depends on the data seen so far.
	hasErr := false
	if res := fn.Signature.Results(); res.Len() > 0 && isErrorType(res.At(res.Len()-1).Type()) {
		hasErr = true
	}
	early := func(x ssa.Instruction) bool {
		if hasErr {
			return isSuccessReturn(x)
		}
		r, ok := x.(*ssa.Return)
		return ok && !isRecoverBlockReturn(r)
	}
	if p := c.fc.pathFrom(fn, ec, early, func(x ssa.Instruction) bool { return x == hdr }, nil); p != nil {
		return false, "the operand loop can be left with a successful return before every operand has been evaluated (" + c.w.ipos(p[len(p)-1]) + "): the remaining operands are not evaluated, so an error in one of them, e.g. an unknown column, is no longer reported"
	}
	return true, ""
}

// partOfList: v is a re-slicing x[lo:hi] (possibly of a re-slicing) that may leave elements of x out, i.e. lo is not
// absent/0 or hi is not absent/len(x).
func partOfList(v ssa.Value) bool {
	for n := 0; n < 16; n++ {
		sl, ok := peel(v).(*ssa.Slice)
		if !ok {
			return false
		}
		if sl.Low != nil {
			if k, isK := constInt(sl.Low); !isK || k != 0 {
				return true
			}
		}
		if sl.High != nil && !isLenOf(sl.High, sl.X) {
			return true
		}
		v = sl.X
	}
	return true
}

// funcValueOf resolves a function-typed value to the function it denotes: a function or method expression (for an
// interface method that is the thunk ssa synthesises), a function literal (closure), or — through outer — a parameter
// of the enclosing helper bound at the helper's call. nil if it is not known statically.
func funcValueOf(v ssa.Value, outer func(ssa.Value) *ssa.Function) *ssa.Function {
	if v == nil {
		return nil
	}
	switch x := peel(v).(type) {
	case *ssa.Function:
		return x
	case *ssa.MakeClosure:
		g, _ := x.Fn.(*ssa.Function)
		return g
	case *ssa.Parameter:
		if outer != nil {
			return outer(x)
		}
	}
	return nil
}

// perElemFunc: g is a per-element function for elemCall — every return of g hands back exactly the result(s) of one
// per-element call (elemCall) made on one and the same parameter of g; its index is returned. Thunks of method
// expressions (`Expression.cacheKey`: invoke the method on arg0 and return), one-line literals and named wrappers
// qualify; a function that returns a constant, another method's result, or the key of something other than its
// parameter on any path does not.
func perElemFunc(g *ssa.Function, elemCall func(*ssa.Call) (ssa.Value, bool), single bool) (int, bool) {
	if g == nil || g.Blocks == nil {
		return -1, false
	}
	k, n, good := -1, 0, true
	allInstrs(g, func(i ssa.Instruction) {
		ret, isRet := i.(*ssa.Return)
		if !isRet || isRecoverBlockReturn(ret) || !good {
			return
		}
		n++
		rv := retVals(ret)
		var call *ssa.Call
		if single {
			if len(rv) != 1 {
				good = false
				return
			}
			call, _ = peel(rv[0]).(*ssa.Call)
		} else {
			for j, r := range rv {
				e, isE := peel(r).(*ssa.Extract)
				if !isE || e.Index != j {
					good = false
					return
				}
				cl, isCall := e.Tuple.(*ssa.Call)
				if !isCall || (call != nil && cl != call) {
					good = false
					return
				}
				call = cl
			}
		}
		if call == nil || call.Parent() != g {
			good = false
			return
		}
		el, isEl := elemCall(call)
		if !isEl {
			good = false
			return
		}
		idx := -1
		for j, p := range g.Params {
			if peel(el) == ssa.Value(p) {
				idx = j
			}
		}
		if idx < 0 || (k >= 0 && k != idx) {
			good = false
			return
		}
		k = idx
	})
	return k, good && n > 0 && k >= 0
}

// keyInjRule: the bytes getValueIndex hashes determine (column, value). Two recognisable ways of breaking that are
// reported; shapes the rule does not recognise are left to C01.keyflow (both arguments reach the hash):
//   - truncation: the hash input is assembled with copy() in a fixed-size array (copy silently stops at the end of the
//     destination) and no dominating test bounds the total length of everything copied by the array's length — two
//     values that differ only beyond the cut get the same index and their bitmaps merge;
//   - no separator: column and value are concatenated with nothing between them, so ("ab","c") and ("a","bc") collide.
func keyInjRule(c *Ctx, rule string) {
	gvi := c.a.GetValueIndex
	if gvi == nil || len(gvi.Params) != 2 {
		return
	}
	name := safeFname(gvi)
	// linear forms over len(param)
	type linForm struct {
		coef map[ssa.Value]int64
		k    int64
	}
	var lf func(v ssa.Value, depth int) (linForm, bool)
	lf = func(v ssa.Value, depth int) (linForm, bool) {
		if depth > 6 {
			return linForm{}, false
		}
		v = peelConv(v)
		if k, ok := constInt(v); ok {
			return linForm{map[ssa.Value]int64{}, k}, true
		}
		switch x := v.(type) {
		case *ssa.Call:
			if b, ok := x.Call.Value.(*ssa.Builtin); ok && b.Name() == "len" {
				a := peelConv(x.Call.Args[0])
				if s, ok := constString(a); ok {
					return linForm{map[ssa.Value]int64{}, int64(len(s))}, true
				}
				if p, ok := a.(*ssa.Parameter); ok {
					return linForm{map[ssa.Value]int64{p: 1}, 0}, true
				}
				if al, ok := a.(*ssa.Alloc); ok {
					if n, ok := arrayLen(al.Type()); ok {
						return linForm{map[ssa.Value]int64{}, n}, true
					}
				}
				if sl, ok := a.(*ssa.Slice); ok && sl.Low == nil && sl.High == nil {
					if al, ok := sl.X.(*ssa.Alloc); ok {
						if n, ok := arrayLen(al.Type()); ok {
							return linForm{map[ssa.Value]int64{}, n}, true
						}
					}
				}
			}
		case *ssa.BinOp:
			if x.Op == token.ADD || x.Op == token.SUB {
				a, ok1 := lf(x.X, depth+1)
				b, ok2 := lf(x.Y, depth+1)
				if !ok1 || !ok2 {
					return linForm{}, false
				}
				out := linForm{map[ssa.Value]int64{}, a.k}
				for p, cf := range a.coef {
					out.coef[p] += cf
				}
				sg := int64(1)
				if x.Op == token.SUB {
					sg = -1
				}
				out.k += sg * b.k
				for p, cf := range b.coef {
					out.coef[p] += sg * cf
				}
				return out, true
			}
		}
		return linForm{}, false
	}
	found := false
	for _, fn := range c.scope(gvi, 1) {
		// --- truncation ---
		type buf struct {
			al     *ssa.Alloc
			n      int64
			copies []*ssa.Call
		}
		bufs := map[*ssa.Alloc]*buf{}
		allInstrs(fn, func(i ssa.Instruction) {
			call, ok := i.(*ssa.Call)
			if !ok {
				return
			}
			b, isB := call.Call.Value.(*ssa.Builtin)
			if !isB || b.Name() != "copy" {
				return
			}
			sl, ok := call.Call.Args[0].(*ssa.Slice)
			if !ok {
				return
			}
			al, ok := sl.X.(*ssa.Alloc)
			if !ok {
				return
			}
			n, ok := arrayLen(al.Type())
			if !ok {
				return
			}
			if bufs[al] == nil {
				bufs[al] = &buf{al: al, n: n}
			}
			bufs[al].copies = append(bufs[al].copies, call)
		})
		for _, b := range bufs {
			// is (a slice of) this array hashed?
			hashed := false
			allInstrs(fn, func(i ssa.Instruction) {
				if call, ok := i.(*ssa.Call); ok && hashSinks[calleeName(&call.Call)] {
					for _, a := range call.Call.Args {
						if sl, ok := a.(*ssa.Slice); ok && sl.X == ssa.Value(b.al) {
							hashed = true
						}
					}
				}
			})
			if !hashed {
				continue
			}
			found = true
			// total length of everything copied
			total := linForm{map[ssa.Value]int64{}, 0}
			okTotal := true
			for _, cp := range b.copies {
				src := peelConv(cp.Call.Args[1])
				switch {
				case func() bool { _, ok := constString(src); return ok }():
					s, _ := constString(src)
					total.k += int64(len(s))
				default:
					if p, ok := src.(*ssa.Parameter); ok {
						total.coef[p]++
					} else {
						okTotal = false
					}
				}
			}
			key := name + ": fixed buffer"
			if !okTotal {
				c.r.ok(rule, key, "the hash input is assembled in a fixed-size array from sources the rule does not measure; truncation not decided here", c.w.ipos(b.copies[0]))
				continue
			}
			// dominating upper bound at the first copy
			first := b.copies[0]
			for _, cp := range b.copies {
				if cp.Block().Dominates(first.Block()) && cp != first {
					first = cp
				}
			}
			fits := false
			for _, cm := range cmpsAt(first) {
				if cm.Y == nil {
					continue
				}
				x, okx := lf(cm.X, 0)
				y, oky := lf(cm.Y, 0)
				if !okx || !oky {
					continue
				}
				// normalise to d := x - y  (op) 0
				d := linForm{map[ssa.Value]int64{}, x.k - y.k}
				for p, cf := range x.coef {
					d.coef[p] += cf
				}
				for p, cf := range y.coef {
					d.coef[p] -= cf
				}
				op := cm.Op
				if op == token.GTR || op == token.GEQ {
					// -d (<|<=) 0
					for p := range d.coef {
						d.coef[p] = -d.coef[p]
					}
					d.k = -d.k
					if op == token.GTR {
						op = token.LSS
					} else {
						op = token.LEQ
					}
				}
				if op != token.LSS && op != token.LEQ {
					continue
				}
				// d <= -1 (LSS) or d <= 0 (LEQ): Σ coef·len + d.k <= slack
				slack := int64(0)
				if op == token.LSS {
					slack = -1
				}
				same := len(d.coef) > 0
				for p, cf := range total.coef {
					if d.coef[p] != cf {
						same = false
					}
				}
				for p, cf := range d.coef {
					if cf != 0 && total.coef[p] != cf {
						same = false
					}
				}
				if !same {
					continue
				}
				// Σ len <= slack - d.k  =>  total = Σ len + total.k <= slack - d.k + total.k
				if slack-d.k+total.k <= b.n {
					fits = true
				}
			}
			c.r.check(fits, rule, key, fmt.Sprintf("a dominating test bounds the %d-byte buffer's contents", b.n),
				fmt.Sprintf("the hash input is copied into a %d-byte array and no dominating test guarantees that column, separator and value fit: copy() silently truncates, so long pairs that differ only beyond the cut share an index and their bitmaps merge", b.n), c.w.ipos(first))
		}
		// --- separator ---
		allInstrs(fn, func(i ssa.Instruction) {
			call, ok := i.(*ssa.Call)
			if !ok || !hashSinks[calleeName(&call.Call)] || len(call.Call.Args) == 0 {
				return
			}
			parts, ok := concatParts(call.Call.Args[len(call.Call.Args)-1], 0)
			if !ok {
				return
			}
			found = true
			adjacent := false
			for k := 0; k+1 < len(parts); k++ {
				_, p1 := parts[k].(*ssa.Parameter)
				_, p2 := parts[k+1].(*ssa.Parameter)
				if p1 && p2 {
					adjacent = true
				}
			}
			c.r.check(!adjacent, rule, name+": separator", "column and value are separated in the hash input", "column and value are concatenated without a separator: (\"ab\",\"c\") and (\"a\",\"bc\") get the same index", c.w.ipos(call))
		})
	}
	// --- streamed into a digest: d.WriteString(k); d.WriteString(v); d.Sum64() ---
	for _, fn := range c.scope(gvi, 1) {
		allInstrs(fn, func(i ssa.Instruction) {
			sum, ok := i.(*ssa.Call)
			if !ok || len(sum.Call.Args) == 0 {
				return
			}
			sf := sum.Call.StaticCallee()
			if sf == nil || sf.Signature.Recv() == nil || c.w.inModule(sf) || (sf.Name() != "Sum64" && sf.Name() != "Sum" && sf.Name() != "Sum32") {
				return
			}
			recv := sum.Call.Args[0]
			// the writes on the same digest that dominate the Sum, in execution order
			var writes []*ssa.Call
			allInstrs(fn, func(j ssa.Instruction) {
				w, ok := j.(*ssa.Call)
				if !ok || len(w.Call.Args) < 2 || w.Call.Args[0] != recv {
					return
				}
				wf := w.Call.StaticCallee()
				if wf == nil || (wf.Name() != "Write" && wf.Name() != "WriteString" && wf.Name() != "WriteByte") {
					return
				}
				if w.Block() == sum.Block() || w.Block().Dominates(sum.Block()) {
					writes = append(writes, w)
				}
			})
			if len(writes) < 2 {
				return
			}
			sort.SliceStable(writes, func(a, b int) bool {
				if writes[a].Block() != writes[b].Block() {
					return writes[a].Block().Dominates(writes[b].Block())
				}
				return pointOf(writes[a]).i < pointOf(writes[b]).i
			})
			found = true
			adjacent := false
			isPar := func(w *ssa.Call) bool {
				_, ok := peelConv(w.Call.Args[1]).(*ssa.Parameter)
				return ok
			}
			for k := 0; k+1 < len(writes); k++ {
				if isPar(writes[k]) && isPar(writes[k+1]) {
					adjacent = true
				}
			}
			c.r.check(!adjacent, rule, name+": separator", "column and value are separated in what is written to the digest", "column and value are written to the hash one after the other without a separator: (\"ab\",\"c\") and (\"a\",\"bc\") get the same index", c.w.ipos(sum))
		})
	}
	if !found {
		c.r.ok(rule, name, "the hash input is not built by a shape this rule examines (append/concatenation chain, fixed buffer or writes to a digest); C01.keyflow applies", c.w.pos(gvi.Pos()))
	}
}

// concatParts flattens an append chain / string concatenation into its ordered parts (parameters, constants). ok is
// false when the value is not such a chain.
func concatParts(v ssa.Value, depth int) ([]ssa.Value, bool) {
	if depth > 8 {
		return nil, false
	}
	v = peelConv(v)
	switch x := v.(type) {
	case *ssa.Parameter:
		return []ssa.Value{x}, true
	case *ssa.Const:
		return []ssa.Value{x}, true
	case *ssa.Convert:
		return concatParts(x.X, depth+1)
	case *ssa.BinOp:
		if x.Op == token.ADD {
			a, ok1 := concatParts(x.X, depth+1)
			b, ok2 := concatParts(x.Y, depth+1)
			if ok1 && ok2 {
				return append(a, b...), true
			}
		}
	case *ssa.Call:
		if b, ok := x.Call.Value.(*ssa.Builtin); ok && b.Name() == "append" && len(x.Call.Args) == 2 {
			base, ok := concatParts(x.Call.Args[0], depth+1)
			if !ok {
				return nil, false
			}
			// variadic element(s): a compiler-built one-element slice, or a slice/string spread
			if el := variadicElem(x.Call.Args[1]); el != nil {
				return append(base, el), true
			}
			rest, ok := concatParts(x.Call.Args[1], depth+1)
			if !ok {
				return nil, false
			}
			return append(base, rest...), true
		}
	}
	return nil, false
}
