package main

// Shape recognisers shared by C01.keyflow, C05.schemaadd and C01.universe:
//   - the *get-or-create helper* ("look the key up; if it is missing, build the element, store it under the key and
//     return it") and calls of it, so that `getOrCreate(m, k, func() V {…})` counts as the lookup-or-insert it performs;
//   - the stores into one field of a local struct variable, followed into the module functions (methods, bound method
//     values) that receive the variable's address.

import (
	"go/token"
	"go/types"

	"golang.org/x/tools/go/ssa"
)

// gocInfo: positions of the map, key and constructor parameters of a recognised get-or-create helper.
type gocInfo struct{ m, key, create int }

// getOrCreateHelper recognises h structurally as a get-or-create helper. h is a module function (possibly an
// instantiation of a generic one: the program is built with ssa.InstantiateGenerics, so the instance has its own body)
// with one result that
//   - looks its key parameter up in its map parameter with the comma-ok form, exactly once;
//   - calls its function parameter only where the lookup is known to have failed;
//   - after each such call stores the call's result under the same key in the same map before it returns
//     (a helper that returns create() without storing it is NOT a get-or-create helper);
//   - returns the looked-up element only where the lookup is known to have succeeded, and otherwise the stored result;
//   - does nothing else to the map (no other update, no delete, map not handed on).
//
// Anything else is not recognised, and the callers then treat the call like any other call (i.e. the rule reports that
// the pair is not entered / not yielded), so the broken variants of such a helper are still reported.
func getOrCreateHelper(c *Ctx, h *ssa.Function) (gocInfo, bool) {
	var none gocInfo
	if h == nil || h.Blocks == nil || !c.w.inModule(h) || h.Signature.Results().Len() != 1 {
		return none, false
	}
	paramIdx := func(v ssa.Value) int {
		v = peel(v)
		for k, p := range h.Params {
			if ssa.Value(p) == v {
				return k
			}
		}
		return -1
	}
	var lk *ssa.Lookup
	nLk := 0
	allInstrs(h, func(i ssa.Instruction) {
		if x, ok := i.(*ssa.Lookup); ok && x.CommaOk {
			lk = x
			nLk++
		}
	})
	if nLk != 1 {
		return none, false
	}
	mi, ki := paramIdx(lk.X), paramIdx(lk.Index)
	if mi < 0 || ki < 0 || mi == ki {
		return none, false
	}
	if _, isMap := h.Params[mi].Type().Underlying().(*types.Map); !isMap {
		return none, false
	}
	val, okv := extractOf(lk, 0), extractOf(lk, 1)
	if val == nil || okv == nil {
		return none, false
	}
	// the constructor calls, and nothing else that could touch the map
	ci := -1
	var creates []*ssa.Call
	clean := true
	allInstrs(h, func(i ssa.Instruction) {
		cc := callCommon(i)
		if cc == nil {
			return
		}
		call, isCall := i.(*ssa.Call)
		if isCall && !cc.IsInvoke() {
			if k := paramIdx(cc.Value); k >= 0 && k != mi && k != ki {
				if _, isFn := h.Params[k].Type().Underlying().(*types.Signature); isFn && (ci < 0 || ci == k) {
					ci = k
					creates = append(creates, call)
					return
				}
			}
		}
		if b, isB := cc.Value.(*ssa.Builtin); isB && b.Name() == "delete" {
			clean = false
		}
		for _, a := range callArgs(cc) {
			if paramIdx(a) == mi {
				if b, isB := cc.Value.(*ssa.Builtin); isB && b.Name() == "len" {
					continue
				}
				clean = false
			}
		}
	})
	if !clean || len(creates) == 0 {
		return none, false
	}
	isCreate := func(v ssa.Value) bool {
		for _, cc := range creates {
			if ssa.Value(cc) == v {
				return true
			}
		}
		return false
	}
	nUpd := 0
	allInstrs(h, func(i ssa.Instruction) {
		if mu, ok := i.(*ssa.MapUpdate); ok {
			nUpd++
			if paramIdx(mu.Map) != mi || paramIdx(mu.Key) != ki || !isCreate(mu.Value) {
				clean = false
			}
		}
	})
	if !clean || nUpd == 0 {
		return none, false
	}
	// the edge on which the lookup is known to have succeeded / failed
	edgeKnows := func(pred, succ *ssa.BasicBlock, found bool) bool {
		iff, ok := pred.Instrs[len(pred.Instrs)-1].(*ssa.If)
		if !ok || len(pred.Succs) != 2 || pred.Succs[0] == pred.Succs[1] {
			return false
		}
		want := token.EQL
		if !found {
			want = token.NEQ
		}
		for _, cm := range trueCmps(fact{iff.Cond, pred.Succs[0] == succ}) {
			if cm.Y == nil && cm.X == ssa.Value(okv) && cm.Op == want {
				return true
			}
		}
		return false
	}
	foundEdge := func(pred, succ *ssa.BasicBlock) bool { return edgeKnows(pred, succ, true) }
	missEdge := func(pred, succ *ssa.BasicBlock) bool { return edgeKnows(pred, succ, false) }
	isRet := func(i ssa.Instruction) bool {
		r, ok := i.(*ssa.Return)
		return ok && !isRecoverBlockReturn(r)
	}
	is := func(t ssa.Instruction) func(ssa.Instruction) bool {
		return func(i ssa.Instruction) bool { return i == t }
	}
	fc := c.fc
	// every path to a return has found the key or has stored a new element under it
	isStore := func(i ssa.Instruction) bool { _, ok := i.(*ssa.MapUpdate); return ok }
	if fc.pathAvoidingEdges(h, isRet, isStore, foundEdge) != nil {
		return none, false
	}
	for _, cc := range creates {
		// the constructor runs only for a missing key …
		if fc.pathAvoidingEdges(h, is(cc), nil, missEdge) != nil {
			return none, false
		}
		// … and what it built is in the map before the helper returns
		stored := func(i ssa.Instruction) bool { mu, ok := i.(*ssa.MapUpdate); return ok && mu.Value == ssa.Value(cc) }
		if fc.pathFrom(h, cc, isRet, stored, nil) != nil {
			return none, false
		}
	}
	// what is returned: the looked-up element where it was found, else the element just built
	onlyViaFound := func(t ssa.Instruction) bool { return fc.pathAvoidingEdges(h, is(t), nil, foundEdge) == nil }
	seen := map[ssa.Value]bool{}
	var retOK func(v ssa.Value, viaFound func() bool) bool
	retOK = func(v ssa.Value, viaFound func() bool) bool {
		switch x := v.(type) {
		case *ssa.Extract:
			return x == val && viaFound()
		case *ssa.Call:
			return isCreate(x)
		case *ssa.Phi:
			if seen[x] {
				return true
			}
			seen[x] = true
			for k, e := range x.Edges {
				pred, blk := x.Block().Preds[k], x.Block()
				if !retOK(e, func() bool {
					return foundEdge(pred, blk) || onlyViaFound(pred.Instrs[len(pred.Instrs)-1])
				}) {
					return false
				}
			}
			return true
		}
		return false
	}
	good, nRet := true, 0
	allInstrs(h, func(i ssa.Instruction) {
		if !isRet(i) {
			return
		}
		nRet++
		if !retOK(retVals(i.(*ssa.Return))[0], func() bool { return onlyViaFound(i) }) {
			good = false
		}
	})
	if !good || nRet == 0 {
		return none, false
	}
	return gocInfo{mi, ki, ci}, true
}

// getOrCreateCall: i is a call of a get-or-create helper; returns the map, key and constructor arguments. Such a call
// is "lookup-or-insert of key in m, yielding the stored element or the constructor's result".
func getOrCreateCall(c *Ctx, i ssa.Instruction) (m, key, create ssa.Value, ok bool) {
	call, isCall := i.(*ssa.Call)
	if !isCall || call.Call.IsInvoke() {
		return nil, nil, nil, false
	}
	h := calleeFunc(&call.Call)
	info, isGoc := getOrCreateHelper(c, h)
	if !isGoc {
		return nil, nil, nil, false
	}
	args := call.Call.Args
	if info.m >= len(args) || info.key >= len(args) || info.create >= len(args) {
		return nil, nil, nil, false
	}
	return args[info.m], args[info.key], args[info.create], true
}

// funcOfValue: the function a function-typed value denotes when that is statically known (closure or named function).
func funcOfValue(v ssa.Value) *ssa.Function {
	switch x := peel(v).(type) {
	case *ssa.MakeClosure:
		f, _ := x.Fn.(*ssa.Function)
		return f
	case *ssa.Function:
		return x
	}
	return nil
}

// structFieldStores: every store into field idx of the local struct variable al — in the function that declares it, in
// closures that capture it, and in the module functions that receive its address as an argument (a method called on
// it, or a method value `v.m` handed to a callback-taking API such as db.View: go/ssa represents that as a closure over
// a synthetic `m$bound` wrapper that calls the method with the captured receiver). ok is false when the variable's
// address goes somewhere that is not followed (stored, returned, passed to a function outside the module or through an
// interface, assigned as a whole), so that a caller can only rely on the list when it is complete.
func structFieldStores(c *Ctx, al *ssa.Alloc, idx int) (stores []*ssa.Store, ok bool) {
	pt, isPtr := al.Type().Underlying().(*types.Pointer)
	if !isPtr {
		return nil, false
	}
	if _, isStruct := pt.Elem().Underlying().(*types.Struct); !isStruct {
		return nil, false
	}
	ok = true
	seen := map[ssa.Value]bool{}
	var visit func(v ssa.Value, depth int)
	visit = func(v ssa.Value, depth int) {
		if seen[v] {
			return
		}
		seen[v] = true
		if depth > 4 {
			ok = false
			return
		}
		for _, r := range referrers(v) {
			switch x := r.(type) {
			case *ssa.FieldAddr:
				if x.Field != idx {
					continue // another field: whatever happens to its address does not write this one
				}
				for _, rr := range referrers(x) {
					switch y := rr.(type) {
					case *ssa.Store:
						if y.Addr == ssa.Value(x) {
							stores = append(stores, y)
						} else {
							ok = false
						}
					case *ssa.UnOp, *ssa.DebugRef:
					default:
						ok = false // the field's address is passed on
					}
				}
			case *ssa.UnOp, *ssa.DebugRef:
			case *ssa.MakeClosure:
				fn, _ := x.Fn.(*ssa.Function)
				if fn == nil || fn.Blocks == nil {
					ok = false
					continue
				}
				for bi, b := range x.Bindings {
					if b == v && bi < len(fn.FreeVars) {
						visit(fn.FreeVars[bi], depth+1)
					}
				}
			case *ssa.Call, *ssa.Defer, *ssa.Go:
				cc := callCommon(x)
				callee := calleeFunc(cc)
				if cc.IsInvoke() || callee == nil || callee.Blocks == nil || !c.w.inModule(callee) {
					ok = false
					continue
				}
				if _, isClosure := cc.Value.(*ssa.MakeClosure); !isClosure && cc.Value == v {
					ok = false
					continue
				}
				for k, a := range cc.Args {
					if a == v {
						if k < len(callee.Params) {
							visit(callee.Params[k], depth+1)
						} else {
							ok = false
						}
					}
				}
			default:
				ok = false // stored, returned, merged, converted, assigned as a whole: not followed
			}
		}
	}
	visit(al, 0)
	if !ok {
		return nil, false
	}
	return stores, true
}
