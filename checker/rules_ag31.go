package main

import (
	"fmt"
	"go/token"
	"go/types"

	"golang.org/x/tools/go/ssa"
)

// ---- reading a field of a protobuf message: directly, or through its generated getter -------------------------------

// pbGetterField: call is a call of a generated getter of the protobuf package — a method without arguments every
// return of which yields either the load of one and the same field of the receiver or the zero value (the shape
// protoc-gen-go emits: `if x != nil { return x.F }; return <zero>`). It returns the receiver at the call and that field.
// The body is inspected, the method's name is not: a hand-written method that computes something else is not a getter.
func pbGetterField(c *Ctx, call *ssa.Call) (ssa.Value, *types.Var) {
	callee := calleeFunc(&call.Call)
	if callee == nil || callee.Blocks == nil || c.w.pkgPathOf(callee) != pkgProto || callee.Signature.Recv() == nil ||
		len(callee.Params) != 1 || len(call.Call.Args) != 1 || callee.Signature.Results().Len() != 1 {
		return nil, nil
	}
	recv := callee.Params[0]
	var field *types.Var
	ok := true
	allInstrs(callee, func(i ssa.Instruction) {
		ret, isRet := i.(*ssa.Return)
		if !isRet || !ok {
			return
		}
		rv := ret.Results[0]
		if k, isK := rv.(*ssa.Const); isK {
			if !k.IsNil() && k.Value != nil && k.Value.ExactString() != "0" && k.Value.ExactString() != `""` && k.Value.ExactString() != "false" {
				ok = false
			}
			return
		}
		ld, isLd := rv.(*ssa.UnOp)
		if !isLd || ld.Op != token.MUL {
			ok = false
			return
		}
		fa, isFA := ld.X.(*ssa.FieldAddr)
		if !isFA || fa.X != ssa.Value(recv) {
			ok = false
			return
		}
		f := fieldOf(fa.X.Type(), fa.Field)
		if field != nil && field != f {
			ok = false
		}
		field = f
	})
	if !ok || field == nil {
		return nil, nil
	}
	return call.Call.Args[0], field
}

// fieldRead: v is (a numeric conversion of) the value of a field of some object: a load through a field address, a
// field of a struct value, or the result of the generated getter of a message (which yields the field, or its zero
// value for a nil message). It returns the object the field is read from and the field.
func fieldRead(c *Ctx, v ssa.Value) (ssa.Value, *types.Var) {
	v = peelConv(v)
	switch x := v.(type) {
	case *ssa.UnOp:
		if x.Op == token.MUL {
			if fa, ok := x.X.(*ssa.FieldAddr); ok {
				return fa.X, fieldOf(fa.X.Type(), fa.Field)
			}
		}
	case *ssa.Field:
		return x.X, fieldOf(x.X.Type(), x.Field)
	case *ssa.Call:
		return pbGetterField(c, x)
	}
	return nil, nil
}

// ---- the library result a response element is built from -------------------------------------------------------------

// c13Executed: v (a value of x.f) is the library result of executing the conversion of the current query:
// Execute(ToQuery(current request element)) — the call may sit in a helper of the module that hands the result on
// (`result, elapsed, err := s.execute(q)`): every non-nil value the helper returns at that position is then judged in
// the helper, its parameters bound to the arguments of the call —, or a result remembered for an identical query of
// the same batch (c13Remembered).
func c13Executed(c *Ctx, x *qctx, v ssa.Value, memo bool) (bool, string) {
	v, x = x.resolve(v)
	if e1, ok := v.(*ssa.Extract); ok && e1.Index == 0 {
		if ex, ok := e1.Tuple.(*ssa.Call); ok && calleeFunc(&ex.Call) == c.a.Execute {
			a1, x1 := x.resolve(ex.Call.Args[1])
			if e2, ok := a1.(*ssa.Extract); ok && e2.Index == 0 {
				if tq, ok := e2.Tuple.(*ssa.Call); ok && calleeFunc(&tq.Call) == c.a.ToQuery {
					a2, x2 := x1.resolve(tq.Call.Args[0])
					if x2.parent == nil && x2.cur != nil && a2 == x2.cur {
						return true, ""
					}
					return false, "the query converted is not the current element of the request"
				}
			}
			return false, "the executed query is not the conversion of the current request element"
		}
		if lk, ok := e1.Tuple.(*ssa.Lookup); ok && lk.CommaOk && memo {
			return c13Remembered(c, x, lk)
		}
	}
	if lk, ok := v.(*ssa.Lookup); ok && !lk.CommaOk && memo {
		if _, isMap := lk.X.Type().Underlying().(*types.Map); isMap {
			return c13Remembered(c, x, lk)
		}
	}
	if hcall, callee, vals, ok := resultOrigins(c.w, v); ok && c.w.pkgPathOf(callee) == c.w.pkgPathOf(c.a.ServerQuery) && x.depth() < 2 {
		sub := x.enter(hcall, callee)
		n := 0
		for _, rv := range vals {
			if isNilConst(rv) {
				continue
			}
			n++
			if ok, why := c13Executed(c, sub, rv, memo); !ok {
				return false, why
			}
		}
		if n > 0 {
			return true, ""
		}
	}
	return false, "the converted result is not what Execute returned for this query"
}

// c13Remembered: lk (in x.f) reads a library result out of a map that remembers, during one batch, the result of every
// distinct query, so that a query that is repeated in the batch is executed only once. The element built from it is
// that query's own result iff
//   - the map is only touched where it is created, looked up and filled (it is a field, or a local map, whose value
//     goes nowhere else), and every statement that fills it is in the function that reads it,
//   - each of these statements stores, under the key computed for the current query, the result of executing the
//     current query (c13Executed, without a further memo),
//   - the key read and the key stored are the same value: the result of one call key(current query) of a function of
//     the handler's package that is given nothing but the query and reads both its expression and its group-by list
//     (a key that leaves one of them out makes different queries share a result); where the key function can fail,
//     its error is known to be nil at the lookup or at every store (the key of a failed call is the same for all
//     queries; a result stored under it is harmless as long as it is never looked up, and vice versa),
//   - the value is used only where the lookup found something.
//
// Equality of keys implying equality of queries (the encoding being injective) is not decided; see the explanation.
func c13Remembered(c *Ctx, x *qctx, lk *ssa.Lookup) (bool, string) {
	return c13KeyedMemo(c, x, lk, "a result remembered for an identical query of the batch is used, but ", func(mu *ssa.MapUpdate) (bool, string) {
		if ok, w := c13Executed(c, x, mu.Value, false); !ok {
			return false, "what is remembered under the query's key is not the result of executing that query: " + w
		}
		return true, ""
	})
}

// c13KeyedMemo is the part of c13Remembered that is about the map and its key; what may be stored under the key of the
// current query is decided by fillOK (the query's result; or, where the queries are converted ahead of the loop that
// executes them, the query's position).
func c13KeyedMemo(c *Ctx, x *qctx, lk *ssa.Lookup, pre string, fillOK func(mu *ssa.MapUpdate) (bool, string)) (bool, string) {
	f := x.f
	// the key
	var keyCall *ssa.Call
	switch k := lk.Index.(type) {
	case *ssa.Extract:
		if k.Index == 0 {
			keyCall, _ = k.Tuple.(*ssa.Call)
		}
	case *ssa.Call:
		keyCall = k
	}
	var keyFn *ssa.Function
	if keyCall != nil {
		keyFn = calleeFunc(&keyCall.Call)
	}
	if keyFn == nil || keyFn.Blocks == nil || c.w.pkgPathOf(keyFn) != c.w.pkgPathOf(c.a.ServerQuery) || len(keyFn.FreeVars) > 0 ||
		len(keyFn.Params) != 1 || len(keyCall.Call.Args) != 1 {
		return false, pre + "its key is not computed from the current query alone by a function of the handler's package"
	}
	if a, xa := x.resolve(keyCall.Call.Args[0]); xa.parent != nil || xa.cur == nil || a != xa.cur {
		return false, pre + "its key is not computed from the current element of the request"
	}
	if missing := c13KeyReads(c, keyFn); missing != "" {
		return false, pre + "the key does not depend on the query's " + missing + ": queries that differ in it share one result"
	}
	keyErr := ssa.Value(nil)
	if res := keyFn.Signature.Results(); res.Len() == 2 && isErrorType(res.At(1).Type()) {
		keyErr = resultValue(keyCall, 1)
		if keyErr == nil {
			return false, pre + "the error of the key function is ignored: the key of a query that cannot be encoded is the same for all such queries"
		}
	} else if res.Len() != 1 {
		return false, pre + "its key function has an unexpected signature"
	}
	keyValid := func(at ssa.Instruction) bool { return keyErr == nil || errKnownNil(keyErr, at) }
	// the lookup found something wherever its value is used
	found := func(at ssa.Instruction) bool {
		if lk.CommaOk {
			okv := extractOf(lk, 1)
			return okv != nil && knownTrue(okv, at)
		}
		return knownNonNil(lk, at)
	}
	var val ssa.Value = lk
	if lk.CommaOk {
		e0 := extractOf(lk, 0)
		if e0 == nil {
			return false, pre + "the value looked up is not used"
		}
		val = e0
	}
	for _, u := range usesOf(val) {
		if _, isDbg := u.(*ssa.DebugRef); isDbg {
			continue
		}
		if !found(u) {
			return false, pre + "it is used also where the lookup found nothing (a nil result)"
		}
	}
	// the map: every access of it in the module
	fills, why := c13MemoFills(c, lk.X)
	if why != "" {
		return false, pre + why
	}
	if len(fills) == 0 {
		return false, pre + "nothing is ever remembered in that map"
	}
	for _, mu := range fills {
		if mu.Parent() != f {
			return false, pre + "the map is also filled in " + safeFname(mu.Parent()) + ", which the rule does not follow"
		}
		if mu.Key != lk.Index {
			return false, pre + "it is stored under a key other than the one it is looked up with"
		}
		if !keyValid(lk) && !keyValid(mu) {
			return false, pre + "it is remembered and looked up also where the key function has failed: the key of a failed call is the same for all queries, so two queries that cannot be encoded share one result"
		}
		if ok, w := fillOK(mu); !ok {
			return false, pre + w
		}
	}
	return true, ""
}

// c13KeyReads names the part of the query (expression, group-by list) that the key function, or a function of the
// module it hands its parameter to, never reads; "" if both are read. What ToQuery converts are exactly these two.
func c13KeyReads(c *Ctx, keyFn *ssa.Function) string {
	read := map[string]bool{}
	var visit func(f *ssa.Function, p ssa.Value, depth int)
	visit = func(f *ssa.Function, p ssa.Value, depth int) {
		allInstrs(f, func(i ssa.Instruction) {
			v, isVal := i.(ssa.Value)
			if !isVal {
				return
			}
			if base, fld := fieldRead(c, v); fld != nil && base == p {
				read[fld.Name()] = true
				return
			}
			if call, isCall := i.(*ssa.Call); isCall && depth < 1 {
				if g := calleeFunc(&call.Call); g != nil && g.Blocks != nil && c.w.inModule(g) && c.w.pkgPathOf(g) != pkgProto {
					for k, a := range call.Call.Args {
						if a == p && k < len(g.Params) {
							visit(g, g.Params[k], depth+1)
						}
					}
				}
			}
		})
	}
	visit(keyFn, keyFn.Params[0], 0)
	switch {
	case !read["Expr"]:
		return "expression"
	case !read["GroupBy"]:
		return "group-by list"
	}
	return ""
}

// c13MemoFills: m is the map value a remembered result is read from. It lists the statements that put something into
// that map — anywhere in the module if the map is kept in a field, in the function if it is a local — and says why the
// map cannot be followed ("" if it can): apart from being created, looked up, filled and measured, the map value must
// not go anywhere.
func c13MemoFills(c *Ctx, m ssa.Value) (fills []*ssa.MapUpdate, why string) {
	okUse := func(mv ssa.Value) bool {
		for _, u := range usesOf(mv) {
			switch y := u.(type) {
			case *ssa.DebugRef:
			case *ssa.Lookup:
				if y.X != mv {
					return false
				}
			case *ssa.MapUpdate:
				if y.Map != mv {
					return false
				}
				fills = append(fills, y)
			case *ssa.Call:
				if b, isB := y.Call.Value.(*ssa.Builtin); !isB || b.Name() != "len" {
					return false
				}
			default:
				return false
			}
		}
		return true
	}
	if mk, ok := m.(*ssa.MakeMap); ok {
		if !okUse(mk) {
			return nil, "the map it is kept in is handed on to code the rule does not follow"
		}
		return fills, ""
	}
	ld, ok := m.(*ssa.UnOp)
	if !ok || ld.Op != token.MUL {
		return nil, "the map it is kept in is not a local map or a field"
	}
	fa, ok := ld.X.(*ssa.FieldAddr)
	if !ok {
		return nil, "the map it is kept in is not a local map or a field"
	}
	field := fieldOf(fa.X.Type(), fa.Field)
	for _, g := range c.w.ModFuncs {
		bad := false
		allInstrs(g, func(i ssa.Instruction) {
			a, isFA := i.(*ssa.FieldAddr)
			if !isFA || fieldOf(a.X.Type(), a.Field) != field {
				return
			}
			for _, u := range usesOf(a) {
				switch y := u.(type) {
				case *ssa.DebugRef:
				case *ssa.Store:
					// created: a fresh empty map (or none)
					if _, isMk := y.Val.(*ssa.MakeMap); y.Addr != ssa.Value(a) || (!isMk && !isNilConst(y.Val)) {
						bad = true
					}
				case *ssa.UnOp:
					if y.Op != token.MUL || !okUse(y) {
						bad = true
					}
				default:
					bad = true
				}
			}
		})
		if bad {
			return nil, "the map it is kept in (field " + field.Name() + ") is handed on or replaced in " + safeFname(g) + ", which the rule does not follow"
		}
	}
	return fills, ""
}

// c13StoredMessage: v is a protobuf result message read out of a map or out of a slice element (not built here).
func c13StoredMessage(v ssa.Value) bool {
	if !typeIs(v.Type(), pkgProto, "Result") {
		return false
	}
	switch x := v.(type) {
	case *ssa.Extract:
		_, ok := x.Tuple.(*ssa.Lookup)
		return ok
	case *ssa.Lookup:
		return true
	case *ssa.UnOp:
		_, ok := x.X.(*ssa.IndexAddr)
		return ok && x.Op == token.MUL
	}
	return false
}

// c13EmptyList: v is an empty slice: nil, or make(T, 0[, n]).
func c13EmptyList(v ssa.Value) bool {
	if isNilConst(v) {
		return true
	}
	if mk, ok := v.(*ssa.MakeSlice); ok {
		n, isK := constInt(mk.Len)
		return isK && n == 0
	}
	return false
}

// ---- two phases: the queries are converted ahead of the loop that executes them ----------------------------------------
//
//	entries, invalid := prepareBatch(req.Queries)      // one entry per query: id, converted query, position of an
//	for pos, e := range entries { ... }                // identical earlier query
//
// The handler's loop then runs over the entries instead of the request's queries. What C13.loop and C13.id say about
// "the current query" is carried over to "the current entry" by showing that the preparing function builds exactly one
// entry per query, in order (c13Prepare), and by reading every field of the current entry as the value the preparing
// function stored in that field for the current query (fieldCands). A response may then only be returned where the
// preparing function is known to have succeeded — when it fails it has stopped early, and its entries are only those
// of the queries before the invalid one.

// c13Prep is the verified preparing function: cur is the load of its current query, idx that query's position, alloc
// the local entry that is appended (ld: the load of it that is appended) once per iteration.
type c13Prep struct {
	fn    *ssa.Function
	cur   *ssa.UnOp
	idx   ssa.Value
	alloc *ssa.Alloc
	ld    *ssa.UnOp
	x     *qctx
}

// fcand is one value a field of the appended entry may have, with the comparisons known where it is that value.
type fcand struct {
	val   ssa.Value
	facts []cmp
}

// appendedOne: ac is `append(list, one element)`; it returns the list and the element (nil, nil otherwise).
func appendedOne(i ssa.Instruction) (*ssa.Call, ssa.Value, ssa.Value) {
	ac, ok := i.(*ssa.Call)
	if !ok {
		return nil, nil, nil
	}
	if b, ok := ac.Call.Value.(*ssa.Builtin); !ok || b.Name() != "append" || len(ac.Call.Args) != 2 {
		return nil, nil, nil
	}
	sl, ok := ac.Call.Args[1].(*ssa.Slice)
	if !ok {
		return nil, nil, nil
	}
	al, ok := sl.X.(*ssa.Alloc)
	if !ok {
		return nil, nil, nil
	}
	if n, ok := arrayLen(al.Type()); !ok || n != 1 {
		return nil, nil, nil
	}
	var elem ssa.Value
	n := 0
	for _, r := range referrers(al) {
		if ia, ok := r.(*ssa.IndexAddr); ok {
			for _, rr := range referrers(ia) {
				if s2, ok := rr.(*ssa.Store); ok {
					elem = s2.Val
					n++
				}
			}
		}
	}
	if n != 1 {
		return nil, nil, nil
	}
	return ac, ac.Call.Args[0], elem
}

// loopHeaderOf: the first instruction of the header of the loop whose counter idx is (range loops pre-increment a phi).
func loopHeaderOf(idx ssa.Value) ssa.Instruction {
	ins, ok := idx.(ssa.Instruction)
	if !ok {
		return nil
	}
	header := ins.Block()
	if b, ok := idx.(*ssa.BinOp); ok {
		if phi, ok := b.X.(*ssa.Phi); ok {
			header = phi.Block()
		}
	}
	return header.Instrs[0]
}

// elemLoadsAtCounter: the loads of an element of slice s in f at a loop counter that starts at position 0.
func elemLoadsAtCounter(f *ssa.Function, s ssa.Value) []*ssa.UnOp {
	var out []*ssa.UnOp
	allInstrs(f, func(i ssa.Instruction) {
		u, ok := i.(*ssa.UnOp)
		if !ok || u.Op != token.MUL {
			return
		}
		ia, ok := u.X.(*ssa.IndexAddr)
		if !ok || ia.X != s {
			return
		}
		if b, off := lin(ia.Index); b != nil {
			if lb, isCtr := phiLower(b); isCtr && lb+off == 0 {
				out = append(out, u)
			}
		}
	})
	return out
}

// c13Prepare: P, given the request's queries as its k-th parameter, returns one entry per query, in order, or an error:
// it loads the current query at a loop counter starting at 0, appends exactly one entry (a local struct) to a list
// that starts empty, in every iteration that does not leave the function, returns that list without error only after
// the loop, and any other return carries an error. why says what is not so.
func c13Prepare(c *Ctx, P *ssa.Function, k int) (*c13Prep, string) {
	param := P.Params[k]
	elems := elemLoadsAtCounter(P, param)
	if len(elems) != 1 {
		return nil, "it does not read the current query at one place, at a loop counter that starts with the first query"
	}
	pr := &c13Prep{fn: P, cur: elems[0], idx: elems[0].X.(*ssa.IndexAddr).Index}
	pr.x = &qctx{f: P, cur: pr.cur, idx: pr.idx}
	hdr := loopHeaderOf(pr.idx)
	if hdr == nil {
		return nil, "its loop over the queries is not recognised"
	}
	var app *ssa.Call
	var acc, elem ssa.Value
	n := 0
	allInstrs(P, func(i ssa.Instruction) {
		if ac, l, e := appendedOne(i); ac != nil && types.Identical(ac.Type(), P.Signature.Results().At(0).Type()) {
			app, acc, elem = ac, l, e
			n++
		}
	})
	if n != 1 {
		return nil, "it does not append to the list of entries at exactly one place"
	}
	isApp := func(i ssa.Instruction) bool { return i == ssa.Instruction(app) }
	isHdr := func(i ssa.Instruction) bool { return i == hdr }
	if p := c.fc.pathAvoiding(P, pr.cur, isHdr, isApp); p != nil {
		return nil, "an iteration can go on to the next query without appending an entry: the entries after it no longer sit at the positions of their queries"
	}
	phi, ok := acc.(*ssa.Phi)
	if !ok || ssa.Instruction(phi).Block() != hdr.Block() {
		return nil, "the list of entries is not carried from one iteration to the next"
	}
	for _, e := range phi.Edges {
		if e != ssa.Value(app) && !c13EmptyList(e) {
			return nil, "the list of entries does not start empty, or is replaced on the way"
		}
	}
	ld, ok := elem.(*ssa.UnOp)
	if !ok || ld.Op != token.MUL {
		return nil, "the entry appended is not a local struct filled in this iteration"
	}
	al, ok := ld.X.(*ssa.Alloc)
	if !ok {
		return nil, "the entry appended is not a local struct filled in this iteration"
	}
	if _, isStruct := al.Type().Underlying().(*types.Pointer).Elem().Underlying().(*types.Struct); !isStruct {
		return nil, "the entry appended is not a local struct filled in this iteration"
	}
	pr.alloc, pr.ld = al, ld
	for _, u := range usesOf(al) {
		switch y := u.(type) {
		case *ssa.UnOp:
			if y != ld {
				return nil, "the entry is copied at more than one place"
			}
		case *ssa.FieldAddr:
			for _, uu := range usesOf(y) {
				switch z := uu.(type) {
				case *ssa.Store:
					if z.Addr != ssa.Value(y) {
						return nil, "the address of a field of the entry is handed on"
					}
				case *ssa.UnOp:
				default:
					return nil, "the address of a field of the entry is handed on"
				}
			}
		default:
			return nil, "the entry is handed on to code the rule does not follow"
		}
	}
	why := ""
	allInstrs(P, func(i ssa.Instruction) {
		ret, isRet := i.(*ssa.Return)
		if !isRet || isRecoverBlockReturn(ret) || why != "" {
			return
		}
		switch {
		case isSuccessReturn(ret):
			if retVals(ret)[0] != acc {
				why = "what it returns without error is not the list the entries were appended to"
			}
		case isErrorReturn(ret):
		default:
			why = "one of its returns is neither a success nor an error return"
		}
	})
	if why != "" {
		return nil, why
	}
	if p := c.fc.pathAvoiding(P, pr.cur, isSuccessReturn, isHdr); p != nil {
		return nil, "it can return without error from inside its loop, before all queries were converted"
	}
	return pr, ""
}

// fieldStores: the stores into field f of the local entry.
func (pr *c13Prep) fieldStores(f *types.Var) []*ssa.Store {
	var out []*ssa.Store
	for _, u := range usesOf(pr.alloc) {
		fa, ok := u.(*ssa.FieldAddr)
		if !ok || fieldOf(fa.X.Type(), fa.Field) != f {
			continue
		}
		for _, uu := range usesOf(fa) {
			if st, ok := uu.(*ssa.Store); ok {
				out = append(out, st)
			}
		}
	}
	return out
}

// reaching: the stores into field f whose value can still be in the field at `at` (a path leads from the store to `at`
// without another store into f); unset: `at` can also be reached without any store into f.
func (pr *c13Prep) reaching(c *Ctx, f *types.Var, at ssa.Instruction) (out []*ssa.Store, unset bool) {
	stores := pr.fieldStores(f)
	isAt := func(i ssa.Instruction) bool { return i == at }
	other := func(s *ssa.Store) func(ssa.Instruction) bool {
		return func(i ssa.Instruction) bool {
			st, ok := i.(*ssa.Store)
			if !ok || st == s {
				return false
			}
			for _, t := range stores {
				if t == st {
					return true
				}
			}
			return false
		}
	}
	for _, s := range stores {
		if c.fc.pathAvoiding(pr.fn, s, isAt, other(s)) != nil {
			out = append(out, s)
		}
	}
	unset = c.fc.pathAvoiding(pr.fn, pr.alloc, isAt, other(nil)) != nil
	return out, unset
}

// valueOf replaces a load of a field of the local entry by the value stored there, where only one store can reach the load.
func (pr *c13Prep) valueOf(c *Ctx, v ssa.Value) ssa.Value {
	for n := 0; n < 4; n++ {
		ld, ok := v.(*ssa.UnOp)
		if !ok || ld.Op != token.MUL {
			return v
		}
		fa, ok := ld.X.(*ssa.FieldAddr)
		if !ok || fa.X != ssa.Value(pr.alloc) {
			return v
		}
		rs, unset := pr.reaching(c, fieldOf(fa.X.Type(), fa.Field), ld)
		if unset || len(rs) != 1 {
			return v
		}
		v = rs[0].Val
	}
	return v
}

func (pr *c13Prep) rewrite(c *Ctx, in []cmp) []cmp {
	out := make([]cmp, 0, len(in))
	for _, cm := range in {
		cm.X = pr.valueOf(c, cm.X)
		if cm.Y != nil {
			cm.Y = pr.valueOf(c, cm.Y)
		}
		out = append(out, cm)
	}
	return out
}

// fieldCands: the values field f of the entry may have when the entry is appended, each with the comparisons known
// when it is that value: those that hold where it is stored, and, for every later store into f that sits alone on one
// side of a branch the append cannot be reached without, that the branch went the other way. Loads of the entry's own
// fields in these comparisons are replaced by what was stored (`if e.id == 0` speaks about the query's id).
func (pr *c13Prep) fieldCands(c *Ctx, f *types.Var) ([]fcand, string) {
	rs, unset := pr.reaching(c, f, pr.ld)
	if unset || len(rs) == 0 {
		return nil, "field " + f.Name() + " of the entry is not set on every path to the append"
	}
	all := pr.fieldStores(f)
	var out []fcand
	for _, s := range rs {
		facts := cmpsAt(s)
		for _, t := range all {
			if t == s || !c.fc.reachableFrom(pr.fn, s, t) {
				continue
			}
			b := t.Block()
			if len(b.Preds) != 1 {
				continue
			}
			p := b.Preds[0]
			iff, ok := p.Instrs[len(p.Instrs)-1].(*ssa.If)
			if !ok || len(p.Succs) != 2 || p.Succs[0] == p.Succs[1] || !p.Dominates(pr.ld.Block()) {
				continue
			}
			facts = append(facts, trueCmps(fact{iff.Cond, p.Succs[0] != b})...)
		}
		out = append(out, fcand{s.Val, pr.rewrite(c, facts)})
	}
	return out, ""
}

// c13TwoPhase handles a handler that does not loop over the request's queries itself but over the entries a function
// of its package made of them. It returns false if there is no such function (the caller then reports what it misses).
func c13TwoPhase(c *Ctx, fn *ssa.Function, req ssa.Value, name, site string) bool {
	// the call that is given req.Queries
	var call *ssa.Call
	var P *ssa.Function
	k, n := 0, 0
	allInstrs(fn, func(i ssa.Instruction) {
		cl, ok := i.(*ssa.Call)
		if !ok {
			return
		}
		callee := calleeFunc(&cl.Call)
		if callee == nil || callee.Blocks == nil || c.w.pkgPathOf(callee) != c.w.pkgPathOf(fn) {
			return
		}
		for j, a := range cl.Call.Args {
			p := path(a)
			whole := true // the list itself, not an element of it
			for _, st := range p.Steps {
				if st.Elem {
					whole = false
				}
			}
			if f := p.lastField(); f != nil && f.Name() == "Queries" && p.Root == req && whole && j < len(callee.Params) {
				call, P, k = cl, callee, j
				n++
			}
		}
	})
	if n != 1 {
		return false
	}
	res := P.Signature.Results()
	if res.Len() != 2 || !isErrorType(res.At(1).Type()) {
		return false
	}
	if _, isSlice := res.At(0).Type().Underlying().(*types.Slice); !isSlice {
		return false
	}
	pname := safeFname(P)
	pr, why := c13Prepare(c, P, k)
	if pr == nil {
		c.r.bad("C13.loop", name+": prepared batch", "the handler loops over what "+pname+" makes of the request's queries, but that is not one entry per query in request order: "+why, []string{c.w.pos(P.Pos())})
		return true
	}
	c.r.ok("C13.loop", name+": prepared batch", pname+" appends one entry per query, in order, and returns the list without error only after its loop", c.w.pos(P.Pos()))
	entries, perr := resultValue(call, 0), resultValue(call, 1)
	if entries == nil || perr == nil {
		c.r.bad("C13.loop", name+": whole batch", "the error of "+pname+" is ignored: when a query is invalid it has only the entries of the queries before it, and the response would hold fewer results than the request has queries", []string{c.w.ipos(call)})
		return true
	}
	elems := elemLoadsAtCounter(fn, entries)
	if len(elems) != 1 {
		c.r.undecided("C13.loop", name, fmt.Sprintf("expected one load of the current entry of the prepared batch at a loop counter, found %d", len(elems)), site)
		return true
	}
	pbe := elems[0]
	// the current entry: the loaded struct, or the local it is copied to (which is then only read)
	var ecopy *ssa.Alloc
	followable := true
	for _, u := range usesOf(pbe) {
		switch y := u.(type) {
		case *ssa.Field:
		case *ssa.Store:
			al, isAl := y.Addr.(*ssa.Alloc)
			if !isAl || y.Val != ssa.Value(pbe) || ecopy != nil {
				followable = false
				break
			}
			ecopy = al
		default:
			followable = false
		}
	}
	if ecopy != nil {
		for _, u := range usesOf(ecopy) {
			switch y := u.(type) {
			case *ssa.Store:
				if y.Val != ssa.Value(pbe) {
					followable = false
				}
			case *ssa.FieldAddr:
				for _, uu := range usesOf(y) {
					if ld, isLd := uu.(*ssa.UnOp); !isLd || ld.Op != token.MUL {
						followable = false
					}
				}
			default:
				followable = false
			}
		}
	}
	curField := func(v ssa.Value) *types.Var {
		if !followable {
			return nil
		}
		base, f := fieldRead(c, v)
		if f != nil && (base == ssa.Value(pbe) || (ecopy != nil && base == ssa.Value(ecopy))) {
			return f
		}
		return nil
	}
	tp := &c13Two{c: c, fn: fn, pr: pr, pbe: pbe, curField: curField}
	c13LoopBody(c, fn, name, site, pbe, tp.judge)
	// a response only where the whole batch was converted
	var bad ssa.Instruction
	allInstrs(fn, func(i ssa.Instruction) {
		if isSuccessReturn(i) && !errKnownNil(perr, i) && bad == nil {
			bad = i
		}
	})
	if bad != nil {
		c.r.bad("C13.loop", name+": whole batch", "a response can be returned although "+pname+" failed: it stops at the first invalid query, so the response holds results only for the queries before that one instead of the call failing", []string{c.w.ipos(bad)})
	} else {
		c.r.ok("C13.loop", name+": whole batch", "a response is returned only where "+pname+" is known to have converted every query", c.w.ipos(call))
	}
	return true
}

// c13Two judges the element the handler appends for the current entry of a prepared batch.
type c13Two struct {
	c        *Ctx
	fn       *ssa.Function
	pr       *c13Prep
	pbe      *ssa.UnOp
	curField func(ssa.Value) *types.Var
}

func (t *c13Two) judge(idx, elem ssa.Value) queryElem {
	c, pr := t.c, t.pr
	call, ok := elem.(*ssa.Call)
	if !ok || calleeFunc(&call.Call) != c.a.ToPBResult {
		w := "the appended element is not ToProtobufResult(...) called in the loop over the prepared entries"
		if c13StoredMessage(elem) {
			w = "the appended element is a response message that was kept from an earlier query of the batch, not a message built for this query: it carries the earlier query's id, and one message object is sent twice"
		}
		return queryElem{why: w, idWhy: w}
	}
	res := queryElem{}
	// id: the field of the current entry, judged on what the preparing function stored there for the current query
	isQ := func(y ssa.Value) bool { return derivesFrom(y, pr.cur) }
	if f := t.curField(call.Call.Args[1]); f == nil {
		res.idWhy = "the id passed on is not the one " + safeFname(pr.fn) + " computed for this entry"
	} else if cands, w := pr.fieldCands(c, f); w != "" {
		res.idWhy = w
	} else {
		res.idOK = true
		for _, cd := range cands {
			if ok, w := c13IDCand(c, cd.val, cd.facts, isQ, pr.idx, 0); !ok && res.idOK {
				res.idOK, res.idWhy = false, w
			}
		}
	}
	res.chainOK, res.why = t.result(idx, call.Call.Args[0])
	return res
}

// executedEntry: v is Execute(e.query)'s result for the current entry e, and the preparing function stored
// ToQuery(current query) in that field.
func (t *c13Two) executedEntry(v ssa.Value) (bool, string) {
	c, pr := t.c, t.pr
	e1, ok := v.(*ssa.Extract)
	if !ok || e1.Index != 0 {
		return false, ""
	}
	ex, ok := e1.Tuple.(*ssa.Call)
	if !ok || calleeFunc(&ex.Call) != c.a.Execute {
		return false, ""
	}
	f := t.curField(ex.Call.Args[1])
	if f == nil {
		return false, "the executed query is not the converted query of the current entry"
	}
	cands, w := pr.fieldCands(c, f)
	if w != "" {
		return false, w
	}
	for _, cd := range cands {
		e2, ok := cd.val.(*ssa.Extract)
		if !ok || e2.Index != 0 {
			return false, "the query kept in the entry is not the conversion of the current request element"
		}
		tq, ok := e2.Tuple.(*ssa.Call)
		if !ok || calleeFunc(&tq.Call) != c.a.ToQuery || tq.Call.Args[0] != ssa.Value(pr.cur) {
			return false, "the query kept in the entry is not the conversion of the current request element"
		}
	}
	return true, ""
}

// result: r, the library result that is converted, is the result of executing the current entry's query, directly or
// through a list of results by position that is filled in every iteration at the current position with either that
// result or the result at an earlier position which the preparing function found to hold an identical query.
func (t *c13Two) result(idx, r ssa.Value) (bool, string) {
	c, fn := t.c, t.fn
	if ok, w := t.executedEntry(r); ok || w != "" {
		return ok, w
	}
	const miss = "the converted result is not what Execute returned for this entry's query"
	sameIdx := func(j ssa.Value) bool {
		jb, jo := lin(j)
		ib, io := lin(idx)
		return jb == ib && jo == io
	}
	memoElem := func(v ssa.Value) (*ssa.MakeSlice, ssa.Value) {
		ld, ok := v.(*ssa.UnOp)
		if !ok || ld.Op != token.MUL {
			return nil, nil
		}
		ia, ok := ld.X.(*ssa.IndexAddr)
		if !ok {
			return nil, nil
		}
		mk, _ := ia.X.(*ssa.MakeSlice)
		return mk, ia.Index
	}
	memo, j := memoElem(r)
	if memo == nil {
		return false, miss
	}
	if !sameIdx(j) {
		return false, "the result converted is taken from a position of the result list other than the current one"
	}
	var stores []*ssa.Store
	for _, u := range usesOf(memo) {
		switch y := u.(type) {
		case *ssa.IndexAddr:
			for _, uu := range usesOf(y) {
				switch z := uu.(type) {
				case *ssa.Store:
					if z.Addr != ssa.Value(y) {
						return false, "the list of results by position is handed on to code the rule does not follow"
					}
					if !sameIdx(y.Index) {
						return false, "a result is stored at a position other than the current one: it replaces, or is taken for, the result of another query"
					}
					stores = append(stores, z)
				case *ssa.UnOp:
				default:
					return false, "the list of results by position is handed on to code the rule does not follow"
				}
			}
		case *ssa.Call:
			if b, isB := y.Call.Value.(*ssa.Builtin); !isB || (b.Name() != "len" && b.Name() != "cap") {
				return false, "the list of results by position is handed on to code the rule does not follow"
			}
		default:
			return false, "the list of results by position is handed on to code the rule does not follow"
		}
	}
	isStore := func(i ssa.Instruction) bool {
		for _, s := range stores {
			if i == ssa.Instruction(s) {
				return true
			}
		}
		return false
	}
	rl := r.(*ssa.UnOp)
	if p := c.fc.pathAvoiding(fn, t.pbe, func(i ssa.Instruction) bool { return i == ssa.Instruction(rl) }, isStore); p != nil {
		return false, "the result at the current position can be read without having been filled in this iteration"
	}
	for _, s := range stores {
		if ok, w := t.executedEntry(s.Val); ok {
			continue
		} else if w != "" {
			return false, w
		}
		// the result at an earlier position
		m2, j2 := memoElem(s.Val)
		if m2 != memo {
			return false, miss
		}
		f := t.curField(j2)
		if f == nil {
			return false, "a result is taken over from a position that is not the one the entry names"
		}
		earlier := false
		for _, cm := range cmpsAt(s.Val.(*ssa.UnOp)) {
			if cm.Y == nil {
				continue
			}
			x, y, op := cm.X, cm.Y, cm.Op
			if op == token.GTR {
				x, y, op = y, x, token.LSS
			}
			if op == token.LSS && t.curField(x) == f && sameIdx(y) {
				earlier = true
			}
		}
		if !earlier {
			return false, "a result is taken over from another position without a test that this position comes before the current one: it may not be filled yet"
		}
		if ok, w := t.earlierIdentical(f); !ok {
			return false, w
		}
	}
	return true, ""
}

// earlierIdentical: field f of an entry, as the preparing function sets it, is negative (no earlier query) or the
// position that was remembered under the key of the current query: the position of an earlier query with the same key.
func (t *c13Two) earlierIdentical(f *types.Var) (bool, string) {
	c, pr := t.c, t.pr
	cands, w := pr.fieldCands(c, f)
	if w != "" {
		return false, w
	}
	const pre = "the result of an earlier position is taken over for a repeated query, but "
	for _, cd := range cands {
		if k, isK := constInt(cd.val); isK && k < 0 {
			continue
		}
		e0, ok := cd.val.(*ssa.Extract)
		if !ok || e0.Index != 0 {
			return false, pre + "that position is not looked up under the key of the query"
		}
		lk, ok := e0.Tuple.(*ssa.Lookup)
		if !ok || !lk.CommaOk {
			return false, pre + "that position is not looked up under the key of the query"
		}
		if ok, w := c13KeyedMemo(c, pr.x, lk, pre, func(mu *ssa.MapUpdate) (bool, string) {
			vb, vo := lin(mu.Value)
			ib, io := lin(pr.idx)
			if vb != ib || vo != io {
				return false, "what is remembered under the query's key is not the position of that query"
			}
			return true, ""
		}); !ok {
			return false, w
		}
	}
	return true, ""
}

// c13SharedMessage (refutation; silent on every shape it does not recognise): the handler fills the list it answers with
// by position, and copies the message at one position of that list to another position — `results[pos] =
// results[e.sameAs]` for a query that is repeated in the batch. The repeated query is then answered with the very
// message built for the earlier one, which carries that one's id. (Sharing the library result and converting it once
// per position is the correct way to save the execution.)
func c13SharedMessage(c *Ctx, fn *ssa.Function, name string) {
	allInstrs(fn, func(i ssa.Instruction) {
		st, ok := i.(*ssa.Store)
		if !ok {
			return
		}
		dst, ok := st.Addr.(*ssa.IndexAddr)
		if !ok || !c13StoredMessage(st.Val) {
			return
		}
		ld, ok := st.Val.(*ssa.UnOp)
		if !ok {
			return
		}
		src := ld.X.(*ssa.IndexAddr)
		if src.X != dst.X || src.Index == dst.Index {
			return
		}
		// the list is what the response is made of
		answers := false
		for _, u := range usesOf(dst.X) {
			if s2, isSt := u.(*ssa.Store); isSt && s2.Val == dst.X {
				dp := path(s2.Addr)
				if f := dp.lastField(); f != nil && f.Name() == "Results" && typeIs(dp.Root.Type(), pkgProto, "QueryResponse") {
					answers = true
				}
			}
		}
		if answers {
			c.r.bad("C13.loop", name+": shared message", "the response message at one position of the result list is copied to another position: a query that is repeated in the batch is answered with the message built for the earlier one, which carries that query's id (and the same message object is sent twice)", []string{c.w.ipos(st)})
		}
	})
}

// ---- C14.bounds: an index that is known to lie before a valid index ------------------------------------------------------

// c14BelowValidIndex: at `at`, 0 <= idx < y is known from dominating tests for some y that is itself a valid index of s
// there (fc.indexInBounds: the range index of a loop over a list of the same length, say) — `executed[e.sameAs]` under
// `e.sameAs >= 0 && e.sameAs < pos` inside `for pos := range entries`, executed being made with len(entries). The two
// tests are both required; a position taken from the request without them stays reported.
func c14BelowValidIndex(fc *flowCtx, s, idx ssa.Value, at ssa.Instruction) bool {
	ib, io := lin(idx)
	upper, lower := false, false
	for _, cm := range cmpsAt(at) {
		if cm.Y == nil {
			continue
		}
		x, y, op := cm.X, cm.Y, cm.Op
		if op == token.GTR || op == token.GEQ {
			if _, yk := constInt(y); !yk {
				x, y, op = y, x, swapOp(op) // y > x  ==>  x < y
			}
		}
		xb, xo := lin(x)
		if k, isK := constInt(y); isK {
			// lower bound: xb+xo >= k (or > k)
			if fc.sameBase(xb, ib) {
				if (op == token.GEQ && k-xo+io >= 0) || (op == token.GTR && k+1-xo+io >= 0) {
					lower = true
				}
			}
			continue
		}
		if k, isK := constInt(x); isK {
			// k <= yb+yo (or <)
			yb, yo := lin(y)
			if fc.sameBase(yb, ib) {
				if (op == token.LEQ && k-yo+io >= 0) || (op == token.LSS && k+1-yo+io >= 0) {
					lower = true
				}
			}
			continue
		}
		if !fc.sameBase(xb, ib) {
			continue
		}
		// xb+xo < y (or <= y): idx = ib+io is below y if io <= xo (or io < xo)
		if (op == token.LSS && io <= xo) || (op == token.LEQ && io < xo) {
			if ok, _ := fc.indexInBounds(s, y, at); ok {
				upper = true
			}
		}
	}
	return upper && lower
}
