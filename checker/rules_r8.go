package main

// Round 8: node constructors. A library may offer constructor functions for its expression nodes
// (`func And(exprs ...Expression) *ExprAnd { return &ExprAnd{Exprs: copyExprs(exprs)} }`) and the conversion from the
// wire format may build its nodes through them instead of through composite literals. The rules that look at "the node
// that is returned" (C13.kindmap, C13.convmap, C14.exprnil) then need to know what such a function does: it always
// returns a fresh, non-nil node of one struct type, and which parameter initialises which field.

import (
	"fmt"
	"go/constant"
	"go/token"
	"go/types"
	"sort"
	"strings"

	"golang.org/x/tools/go/ssa"
)

// ctorSum is the summary of a node constructor.
type ctorSum struct {
	T      *types.Named
	fields map[int]*types.Var // parameter index -> the field it initialises (as it is, or as an order-preserving copy)
}

var ctorCache = map[*ssa.Function]*ctorSum{}
var ctorDone = map[*ssa.Function]bool{}

// nodeCtor returns the summary of h if h is a node constructor: a module function with a body and a single result of
// type pointer-to-named-struct whose every return yields a struct allocated in h itself (so never nil), each of whose
// fields is stored at most once, from a parameter or an order-preserving copy of one (copyOfParam), the same way on
// every return; anything else stored into the node (constants, computed values) is allowed but not part of the
// summary. nil if h is anything else.
func nodeCtor(c *Ctx, h *ssa.Function) *ctorSum {
	if h == nil {
		return nil
	}
	if ctorDone[h] {
		return ctorCache[h]
	}
	ctorDone[h] = true
	if !c.w.inModule(h) || h.Blocks == nil || h.Signature.Results().Len() != 1 {
		return nil
	}
	pt, ok := h.Signature.Results().At(0).Type().Underlying().(*types.Pointer)
	if !ok {
		return nil
	}
	T := namedOf(pt.Elem())
	if T == nil {
		return nil
	}
	if _, isStruct := T.Underlying().(*types.Struct); !isStruct {
		return nil
	}
	var sum *ctorSum
	okAll, nRet := true, 0
	allInstrs(h, func(i ssa.Instruction) {
		ret, isRet := i.(*ssa.Return)
		if !isRet || !okAll || isRecoverBlockReturn(ret) {
			return
		}
		nRet++
		al, isAlloc := peel(retVals(ret)[0]).(*ssa.Alloc)
		if !isAlloc || !al.Heap || namedOf(al.Type().Underlying().(*types.Pointer).Elem()) != T {
			okAll = false
			return
		}
		s := &ctorSum{T: T, fields: map[int]*types.Var{}}
		seenF := map[*types.Var]bool{}
		for _, r := range referrers(al) {
			fa, isFA := r.(*ssa.FieldAddr)
			if !isFA {
				continue
			}
			f := fieldOf(fa.X.Type(), fa.Field)
			for _, r2 := range referrers(fa) {
				st, isSt := r2.(*ssa.Store)
				if !isSt || st.Addr != ssa.Value(fa) {
					continue
				}
				if seenF[f] {
					okAll = false // stored twice: which value the node ends up with depends on the path
					return
				}
				seenF[f] = true
				if p := copyOfParam(c, st.Val, 0); p != nil && p.Parent() == h {
					for k, q := range h.Params {
						if q == p {
							if _, dup := s.fields[k]; dup {
								okAll = false
								return
							}
							s.fields[k] = f
						}
					}
				}
			}
		}
		if sum == nil {
			sum = s
			return
		}
		if len(sum.fields) != len(s.fields) {
			okAll = false
			return
		}
		for k, f := range s.fields {
			if sum.fields[k] != f {
				okAll = false
			}
		}
	})
	if !okAll || nRet == 0 || sum == nil {
		return nil
	}
	ctorCache[h] = sum
	return sum
}

// copyOfParam: v is a parameter, or an order-preserving copy of the whole of a slice parameter — append(<empty>, p...),
// slices.Clone(p), make([]T, len(p)) filled by copy(_, p), or the result of a module helper whose every return is nil or
// such a copy of one and the same of its parameters (`if len(xs) == 0 { return nil }; return append(make(…, 0, len(xs)), xs...)`).
// A re-slice (p[1:], p[:n]) is not a copy of the whole.
func copyOfParam(c *Ctx, v ssa.Value, depth int) *ssa.Parameter {
	if depth > 2 {
		return nil
	}
	switch x := v.(type) {
	case *ssa.Parameter:
		return x
	case *ssa.ChangeType:
		return copyOfParam(c, x.X, depth)
	case *ssa.Phi:
		var p *ssa.Parameter
		for _, e := range x.Edges {
			if k, isConst := e.(*ssa.Const); isConst && k.IsNil() {
				continue
			}
			q := copyOfParam(c, e, depth)
			if q == nil || (p != nil && p != q) {
				return nil
			}
			p = q
		}
		return p
	case *ssa.MakeSlice:
		// make([]T, len(p)) + copy(v, p)
		lc, ok := x.Len.(*ssa.Call)
		if !ok {
			return nil
		}
		if b, ok := lc.Call.Value.(*ssa.Builtin); !ok || b.Name() != "len" {
			return nil
		}
		p, ok := lc.Call.Args[0].(*ssa.Parameter)
		if !ok {
			return nil
		}
		for _, r := range referrers(x) {
			if call, ok := r.(*ssa.Call); ok {
				if b, ok := call.Call.Value.(*ssa.Builtin); ok && b.Name() == "copy" && call.Call.Args[0] == ssa.Value(x) && call.Call.Args[1] == ssa.Value(p) {
					return p
				}
			}
		}
		return nil
	case *ssa.Call:
		if b, ok := x.Call.Value.(*ssa.Builtin); ok {
			if b.Name() != "append" || len(x.Call.Args) != 2 || !emptySliceBase(x.Call.Args[0]) {
				return nil
			}
			return copyOfParam(c, x.Call.Args[1], depth)
		}
		g := calleeFunc(&x.Call)
		if g == nil {
			return nil
		}
		if c.w.pkgPathOf(g) == "slices" && g.Name() == "Clone" && len(x.Call.Args) == 1 {
			return copyOfParam(c, x.Call.Args[0], depth)
		}
		if !c.w.inModule(g) || g.Blocks == nil || g.Signature.Results().Len() != 1 {
			return nil
		}
		var gp *ssa.Parameter
		bad := false
		allInstrs(g, func(i ssa.Instruction) {
			ret, isRet := i.(*ssa.Return)
			if !isRet || bad || isRecoverBlockReturn(ret) {
				return
			}
			rv := retVals(ret)[0]
			if k, isConst := rv.(*ssa.Const); isConst && k.IsNil() {
				return
			}
			q := copyOfParam(c, rv, depth+1)
			if q == nil || q.Parent() != g || (gp != nil && gp != q) {
				bad = true
				return
			}
			gp = q
		})
		if bad || gp == nil {
			return nil
		}
		for k, q := range g.Params {
			if q == gp && k < len(x.Call.Args) {
				return copyOfParam(c, x.Call.Args[k], depth)
			}
		}
	}
	return nil
}

// emptySliceBase: the first argument of an append that makes a copy: nil, make([]T, 0[, n]), or x[:0] of a fresh make.
func emptySliceBase(v ssa.Value) bool {
	switch x := v.(type) {
	case *ssa.Const:
		return x.IsNil()
	case *ssa.ChangeType:
		return emptySliceBase(x.X)
	case *ssa.MakeSlice:
		k, ok := x.Len.(*ssa.Const)
		return ok && k.Value != nil && k.Value.Kind() == constant.Int && constant.Sign(k.Value) == 0
	case *ssa.Slice:
		if _, isMake := x.X.(*ssa.MakeSlice); !isMake || x.Low != nil {
			return false
		}
		k, ok := x.High.(*ssa.Const)
		return ok && k.Value != nil && constant.Sign(k.Value) == 0
	}
	return false
}

// ctorArgField: v is handed to the constructor call cc as the argument of a parameter that initialises a field of the
// node (directly, or as the variadic slice built from the array v was stored into): the field, else nil.
func ctorArgField(cc *ssa.Call, s *ctorSum, v ssa.Value) *types.Var {
	if cc == nil || s == nil {
		return nil
	}
	for k, a := range cc.Call.Args {
		if a == v {
			if f := s.fields[k]; f != nil {
				return f
			}
		}
		// explicit variadic arguments: And(a, b) — the compiler builds an array, stores the operands and passes arr[:]
		if sl, ok := a.(*ssa.Slice); ok && sl.Low == nil && sl.High == nil {
			if al, ok := sl.X.(*ssa.Alloc); ok {
				for _, r := range referrers(al) {
					ia, ok := r.(*ssa.IndexAddr)
					if !ok {
						continue
					}
					for _, r2 := range referrers(ia) {
						if st, ok := r2.(*ssa.Store); ok && st.Addr == ssa.Value(ia) && st.Val == v {
							if f := s.fields[k]; f != nil {
								return f
							}
						}
					}
				}
			}
		}
	}
	return nil
}

// cacheOptionKept (second half of cacheowner): outside the library, no value that may hold a WithCache option — the
// option itself, a slice of options it was appended to, a struct carrying such a slice, also as the result of a helper —
// is stored into memory that outlives the activation that created it (a map, a field of an object that was not created
// here, a package-level variable). A memo of parsed options keyed by the option string hands the same cache object to
// every index opened with equal options, and cache keys do not identify the file.
func cacheOptionKept(c *Ctx, rule string, fr *Fresh) {
	n := 0
	for _, fn := range c.w.ModFuncs {
		if p := c.w.pkgPathOf(fn); p != pkgDriver && p != pkgCmd {
			continue
		}
		allInstrs(fn, func(i ssa.Instruction) {
			var val ssa.Value
			where := ""
			switch x := i.(type) {
			case *ssa.Store:
				if isValueType(x.Val.Type()) {
					return
				}
				switch a := x.Addr.(type) {
				case *ssa.Global:
					where = "the package-level variable " + a.Name()
				case *ssa.FieldAddr:
					if fr.level(a.X) < shallow {
						where = "a field (" + fieldOf(a.X.Type(), a.Field).Name() + ") of an object that was not created in this call"
					}
				case *ssa.IndexAddr:
					if fr.level(a.X) < shallow {
						where = "an element of a slice or array that was not created in this call"
					}
				}
				val = x.Val
			case *ssa.MapUpdate:
				if isValueType(x.Value.Type()) {
					return
				}
				if fr.level(x.Map) < shallow {
					where = "a map that was not created in this call"
					if f := path(x.Map).lastField(); f != nil {
						where = "the map " + f.Name() + ", which was not created in this call"
					}
				}
				val = x.Value
			}
			if where == "" || val == nil {
				return
			}
			if site := mayHoldCacheOption(c, val, 0, map[ssa.Value]bool{}); site != nil {
				n++
				c.r.bad(rule, fmt.Sprintf("%s: kept option#%d", safeFname(fn), n), "a value that may hold a WithCache option is stored into "+where+": whoever reads it back opens another index with the same cache object, and cache keys do not identify the index file, so the two indexes return each other's bitmaps",
					[]string{c.w.ipos(i)}, "the option comes from "+c.w.ipos(site))
			}
		})
	}
}

// mayHoldCacheOption: the WithCache call whose result may be (inside) v, followed backwards through appends, phis,
// conversions, local variables and local structs (everything stored under the same local allocation), closures'
// captured variables and the results of module helpers; nil if none is found.
func mayHoldCacheOption(c *Ctx, v ssa.Value, depth int, seen map[ssa.Value]bool) *ssa.Call {
	if v == nil || seen[v] || depth > 3 || isValueType(v.Type()) {
		return nil
	}
	seen[v] = true
	rec := func(x ssa.Value) *ssa.Call { return mayHoldCacheOption(c, x, depth, seen) }
	switch x := v.(type) {
	case *ssa.Call:
		if _, isBuiltin := x.Call.Value.(*ssa.Builtin); isBuiltin {
			for _, a := range x.Call.Args {
				if s := rec(a); s != nil {
					return s
				}
			}
			return nil
		}
		g := calleeFunc(&x.Call)
		if g == nil {
			return nil
		}
		if g == c.a.WithCache {
			return x
		}
		if c.w.inModule(g) && g.Blocks != nil && c.w.pkgPathOf(g) != pkgRoot {
			var found *ssa.Call
			allInstrs(g, func(i ssa.Instruction) {
				if ret, ok := i.(*ssa.Return); ok && found == nil {
					for _, rv := range ret.Results {
						if s := mayHoldCacheOption(c, rv, depth+1, seen); s != nil {
							found = s
							return
						}
					}
				}
			})
			return found
		}
	case *ssa.Extract:
		return rec(x.Tuple)
	case *ssa.Phi:
		for _, e := range x.Edges {
			if s := rec(e); s != nil {
				return s
			}
		}
	case *ssa.ChangeType:
		return rec(x.X)
	case *ssa.MakeInterface:
		return rec(x.X)
	case *ssa.Slice:
		return rec(x.X)
	case *ssa.Field:
		return rec(x.X)
	case *ssa.MakeClosure:
		for _, b := range x.Bindings {
			if s := rec(b); s != nil {
				return s
			}
		}
	case *ssa.FieldAddr:
		return rec(x.X)
	case *ssa.IndexAddr:
		return rec(x.X)
	case *ssa.Alloc:
		// everything stored under this local allocation
		fn := x.Parent()
		var found *ssa.Call
		visit := func(f *ssa.Function) {
			allInstrs(f, func(i ssa.Instruction) {
				st, ok := i.(*ssa.Store)
				if !ok || found != nil {
					return
				}
				a := st.Addr
				for k := 0; k < 8; k++ {
					switch y := a.(type) {
					case *ssa.FieldAddr:
						a = y.X
						continue
					case *ssa.IndexAddr:
						a = y.X
						continue
					}
					break
				}
				if peelCell(a) == ssa.Value(x) {
					found = rec(st.Val)
				}
			})
		}
		visit(fn)
		for _, an := range fn.AnonFuncs {
			visit(an)
		}
		return found
	case *ssa.UnOp:
		if x.Op == token.MUL {
			return rec(x.X)
		}
	case *ssa.FreeVar:
		if b := freeVarBinding(x); b != nil {
			return rec(b)
		}
	}
	return nil
}

func init() {
	addRule("C12", "C12.cacheowner (= C03.cacheowner: the driver's rows are the library's results for *this* file only if no cache object, and no option value holding one, is reused for another index).",
		func(c *Ctx) { cacheOwnerRule(c, "C12.cacheowner") })
}

// ---- C09.chainop (round 8 rewrite) ---------------------------------------------------------------------------------
//
// An operand loop of the parser is a loop (in the parser package) whose body appends a *Query_Expression to a list of
// them: the loop that collects `x & y & z`. Its continuation test must hold for exactly one token kind — one constant, or
// a loop-invariant value (the operator the chain started with). The test is evaluated for every constant of the token
// kind type: comparisons of "the kind of the current token" (the kind field of a token returned by a call, or a
// parameter bound to such a value) with constants, predicates of the parser (followed into their bodies), and
// membership in a package-level map that is only written by its initialiser (`_, ok := chainOperators[p.peek().typ]`).
type kindEval struct {
	c     *Ctx
	kindT types.Type
	tokT  *types.Named
	rep   int64
	bind  map[ssa.Value]int64
	depth int
}

func (k *kindEval) isKindSrc(v ssa.Value) bool {
	if !types.Identical(v.Type(), k.kindT) {
		return false
	}
	fromTok := func(x ssa.Value) bool {
		switch y := x.(type) {
		case *ssa.Call:
			return namedOf(y.Type()) == k.tokT && k.tokT != nil
		case *ssa.Extract:
			_, isCall := y.Tuple.(*ssa.Call)
			return isCall && namedOf(y.Type()) == k.tokT && k.tokT != nil
		}
		return false
	}
	switch x := v.(type) {
	case *ssa.Field:
		return fromTok(x.X)
	case *ssa.UnOp:
		if x.Op == token.MUL {
			if fa, ok := x.X.(*ssa.FieldAddr); ok {
				if al, ok := fa.X.(*ssa.Alloc); ok {
					if vals, ok := cellValues(al); ok && len(vals) == 1 {
						return fromTok(vals[0])
					}
				}
			}
		}
	}
	return false
}

func (k *kindEval) intVal(v ssa.Value) (int64, bool) {
	v = peelConv(v)
	if n, ok := k.bind[v]; ok {
		return n, true
	}
	if k.isKindSrc(v) {
		return k.rep, true
	}
	return constInt(v)
}

// boolVal evaluates a condition that does not depend on control flow (no phi).
func (k *kindEval) boolVal(v ssa.Value) (bool, bool) {
	switch x := v.(type) {
	case *ssa.Const:
		return constBool(x)
	case *ssa.UnOp:
		if x.Op == token.NOT {
			r, ok := k.boolVal(x.X)
			return !r, ok
		}
	case *ssa.BinOp:
		a, ok1 := k.intVal(x.X)
		b, ok2 := k.intVal(x.Y)
		if !ok1 || !ok2 {
			return false, false
		}
		switch x.Op {
		case token.EQL:
			return a == b, true
		case token.NEQ:
			return a != b, true
		case token.LSS:
			return a < b, true
		case token.LEQ:
			return a <= b, true
		case token.GTR:
			return a > b, true
		case token.GEQ:
			return a >= b, true
		}
	case *ssa.Extract:
		// _, ok := m[kind] with m a constant package-level map
		if lk, isLk := x.Tuple.(*ssa.Lookup); isLk && x.Index == 1 && lk.CommaOk {
			if ld, isLd := lk.X.(*ssa.UnOp); isLd && ld.Op == token.MUL {
				if g, isG := ld.X.(*ssa.Global); isG {
					keys, ok := globalMapIntKeys(k.c, g)
					idx, ok2 := k.intVal(lk.Index)
					if ok && ok2 {
						return keys[idx], true
					}
				}
			}
		}
	case *ssa.Call:
		g := calleeFunc(&x.Call)
		if g == nil || !k.c.w.inModule(g) || g.Blocks == nil || k.depth >= 3 {
			return false, false
		}
		sub := &kindEval{c: k.c, kindT: k.kindT, tokT: k.tokT, rep: k.rep, bind: map[ssa.Value]int64{}, depth: k.depth + 1}
		for i, a := range x.Call.Args {
			if i < len(g.Params) {
				if n, ok := k.intVal(a); ok && types.Identical(a.Type(), k.kindT) {
					sub.bind[g.Params[i]] = n
				}
			}
		}
		return sub.run(g)
	}
	return false, false
}

// run interprets a predicate of the parser: straight-line evaluation along the path the conditions select; calls are
// allowed only if they return a token (reading the look-ahead does not consume input) or are predicates themselves.
func (k *kindEval) run(g *ssa.Function) (bool, bool) {
	bools := map[ssa.Value]bool{}
	ev := func(v ssa.Value) (bool, bool) {
		if r, ok := bools[v]; ok {
			return r, true
		}
		return k.boolVal(v)
	}
	b := g.Blocks[0]
	var prev *ssa.BasicBlock
	for steps := 0; steps < 200; steps++ {
		var next *ssa.BasicBlock
		for _, ins := range b.Instrs {
			switch x := ins.(type) {
			case *ssa.Phi:
				if prev != nil {
					for i, p := range b.Preds {
						if p == prev {
							if r, ok := ev(x.Edges[i]); ok {
								bools[x] = r
							}
						}
					}
				}
			case *ssa.If:
				r, ok := ev(x.Cond)
				if !ok {
					return false, false
				}
				if r {
					next = b.Succs[0]
				} else {
					next = b.Succs[1]
				}
			case *ssa.Jump:
				next = b.Succs[0]
			case *ssa.Return:
				if len(x.Results) != 1 {
					return false, false
				}
				return ev(x.Results[0])
			case *ssa.Call:
				if namedOf(x.Type()) == k.tokT && k.tokT != nil {
					continue // reads the look-ahead token
				}
				if bt, ok := x.Type().Underlying().(*types.Basic); ok && bt.Kind() == types.Bool {
					continue // a nested predicate: evaluated when its value is used
				}
				return false, false
			case *ssa.Store, *ssa.Panic, *ssa.Send, *ssa.MapUpdate, *ssa.Go, *ssa.Defer:
				return false, false
			}
			if next != nil {
				break
			}
		}
		if next == nil {
			return false, false
		}
		prev, b = b, next
	}
	return false, false
}

func chainLoopRule(c *Ctx, rule string) {
	ps := c.a.PS
	if ps == nil || ps.KindT == nil {
		return
	}
	var kinds []int64
	if pkg := c.w.SSA[pkgParser]; pkg != nil {
		for _, m := range pkg.Members {
			if nc, ok := m.(*ssa.NamedConst); ok && types.Identical(nc.Type(), ps.KindT) {
				if v, ok := constInt(nc.Value); ok {
					kinds = append(kinds, v)
				}
			}
		}
	}
	if len(kinds) < 2 {
		return
	}
	exprT := c.w.namedType(pkgProto, "Query_Expression")
	isExprPtr := func(t types.Type) bool {
		p, ok := t.Underlying().(*types.Pointer)
		return ok && namedOf(p.Elem()) == exprT && exprT != nil
	}
	n := 0
	inParse := map[*ssa.Function]bool{}
	if c.a.ParseQuery != nil {
		for _, f := range c.scope(c.a.ParseQuery, 8) {
			inParse[f] = true
		}
	}
	for _, fn := range c.w.ModFuncs {
		if c.w.pkgPathOf(fn) != pkgParser || fn.Blocks == nil || !inParse[fn] {
			continue // only what ParseQuery reaches parses text (a tree rewriter also appends expressions in a loop)
		}
		for li, l := range loopsOf(fn) {
			// an operand loop: appends an expression to a list of expressions inside the loop
			appends := false
			for b := range l.blocks {
				for _, ins := range b.Instrs {
					if call, ok := ins.(*ssa.Call); ok {
						if bi, ok := call.Call.Value.(*ssa.Builtin); ok && bi.Name() == "append" {
							if sl, ok := call.Type().Underlying().(*types.Slice); ok && isExprPtr(sl.Elem()) {
								appends = true
							}
						}
					}
				}
			}
			if !appends {
				continue
			}
			iff, ok := l.header.Instrs[len(l.header.Instrs)-1].(*ssa.If)
			if !ok {
				continue // a loop that is left from its body (`for { if …break }`): see below
			}
			n++
			key := fmt.Sprintf("%s: operand loop#%d", safeFname(fn), li+1)
			contOnTrue := l.blocks[l.header.Succs[0]]
			// the operator the chain started with: a comparison with a loop-invariant non-constant value of the kind type
			cond := iff.Cond
			neg := false
			for {
				if u, ok := cond.(*ssa.UnOp); ok && u.Op == token.NOT {
					cond, neg = u.X, !neg
					continue
				}
				break
			}
			if bo, ok := cond.(*ssa.BinOp); ok && (bo.Op == token.EQL || bo.Op == token.NEQ) && types.Identical(bo.X.Type(), ps.KindT) {
				ke := &kindEval{c: c, kindT: ps.KindT, tokT: ps.TokenT, bind: map[ssa.Value]int64{}}
				var other ssa.Value
				switch {
				case ke.isKindSrc(bo.X):
					other = bo.Y
				case ke.isKindSrc(bo.Y):
					other = bo.X
				}
				if other != nil {
					if _, isConst := other.(*ssa.Const); !isConst {
						invariant := true
						if ins, isIns := other.(ssa.Instruction); isIns && l.blocks[ins.Block()] {
							invariant = false
						}
						eq := (bo.Op == token.EQL) != neg
						if !contOnTrue {
							eq = !eq
						}
						if invariant && eq {
							c.r.ok(rule, key, "the operand loop continues while the token kind equals one value fixed before the loop", c.w.ipos(iff))
							continue
						}
					}
				}
			}
			// values of the kind type that are fixed before the loop (the operator the chain started with, however it
			// was obtained) are not "the current token": the test is evaluated for every value they may have
			var invariants []ssa.Value
			{
				seenV := map[ssa.Value]bool{}
				var collect func(v ssa.Value, depth int)
				collect = func(v ssa.Value, depth int) {
					if v == nil || seenV[v] || depth > 6 {
						return
					}
					seenV[v] = true
					if _, isConst := v.(*ssa.Const); isConst {
						return
					}
					if types.Identical(v.Type(), ps.KindT) {
						outside := false
						switch x := v.(type) {
						case *ssa.Parameter, *ssa.FreeVar:
							outside = true
						case ssa.Instruction:
							outside = !l.blocks[x.Block()]
						}
						if outside {
							invariants = append(invariants, v)
							return
						}
					}
					if ins, ok := v.(ssa.Instruction); ok && l.blocks[ins.Block()] {
						for _, op := range ins.Operands(nil) {
							if *op != nil {
								collect(*op, depth+1)
							}
						}
					}
				}
				collect(iff.Cond, 0)
			}
			cnt, readable := 0, true
			fixed := []int64{0}
			if len(invariants) > 0 {
				fixed = kinds
			}
			worst := 0
			for _, k0 := range fixed {
				cnt = 0
				for _, kv := range kinds {
					ke := &kindEval{c: c, kindT: ps.KindT, tokT: ps.TokenT, rep: kv, bind: map[ssa.Value]int64{}}
					for _, iv := range invariants {
						ke.bind[iv] = k0
					}
					r, ok := ke.boolVal(iff.Cond)
					if !ok {
						readable = false
						break
					}
					if r == contOnTrue {
						cnt++
					}
				}
				if !readable {
					break
				}
				if cnt > worst {
					worst = cnt
				}
			}
			cnt = worst
			switch {
			case !readable:
				c.r.undecided(rule, key, "the continuation test of the loop that collects the operands of an AND/OR node is not a test of the current token's kind that the rule can evaluate", c.w.ipos(iff))
			case cnt == 1:
				c.r.ok(rule, key, "the operand loop continues on one operator kind", c.w.ipos(iff))
			default:
				c.r.bad(rule, key, fmt.Sprintf("the loop that collects the operands of an AND/OR node continues on %d different token kinds: a chain mixing '&' and '|' (not a sentence of the grammar) is folded into a single node instead of being rejected", cnt), []string{c.w.ipos(iff)})
			}
		}
	}
	if n == 0 {
		c.r.undecided(rule, "parser", "no loop that collects the operands of an AND/OR node (appends an expression to a list of expressions) with a test in its header was found")
	}
}

// ---- C11/C12.stmtstate -----------------------------------------------------------------------------------------------
//
// A prepared statement is reusable only if an execution cannot see what an earlier execution did. The channels are: the
// parsed query being modified (C11.template), package-level state (nostate), and fields of the statement object written
// after it was constructed. stmtStateRule closes the third: outside the constructing composite literal (a fresh object)
// and the statement's Close method, no code of the driver stores into a field of a statement, into a struct or array
// nested in it, or into a map held by it. A memo of "the query bound for the last argument list" is such a store; so is
// a scratch buffer kept on the statement.
func stmtStateRule(c *Ctx, rule string) {
	if c.a.FileStmtT == nil && c.a.GrpcStmtT == nil {
		c.r.undecided(rule, "<anchor>", "the driver's statement types were not found")
		return
	}
	isStmtPtr := func(t types.Type) *types.Named {
		p, ok := t.Underlying().(*types.Pointer)
		if !ok {
			return nil
		}
		n := namedOf(p.Elem())
		if n != nil && (n == c.a.FileStmtT || n == c.a.GrpcStmtT) {
			return n
		}
		return nil
	}
	// rootStmt: addr is a field/element address inside a statement object that was not allocated in this function
	rootStmt := func(addr ssa.Value) *types.Named {
		for k := 0; k < 8; k++ {
			switch x := addr.(type) {
			case *ssa.FieldAddr:
				if n := isStmtPtr(x.X.Type()); n != nil {
					if _, fresh := peel(x.X).(*ssa.Alloc); fresh {
						return nil
					}
					return n
				}
				addr = x.X
				continue
			case *ssa.IndexAddr:
				addr = x.X
				continue
			}
			break
		}
		return nil
	}
	n := 0
	for _, fn := range c.w.ModFuncs {
		if c.w.pkgPathOf(fn) != pkgDriver {
			continue
		}
		top := fn
		for top.Parent() != nil {
			top = top.Parent()
		}
		if top.Name() == "Close" && top.Signature.Recv() != nil && isStmtPtr(top.Signature.Recv().Type()) != nil {
			continue
		}
		allInstrs(fn, func(i ssa.Instruction) {
			var T *types.Named
			what := ""
			switch x := i.(type) {
			case *ssa.Store:
				if T = rootStmt(x.Addr); T != nil {
					if f := path(x.Addr).lastField(); f != nil {
						what = "field " + f.Name()
					} else {
						what = "a field"
					}
				}
			case *ssa.MapUpdate:
				if ld, ok := x.Map.(*ssa.UnOp); ok && ld.Op == token.MUL {
					if T = rootStmt(ld.X); T != nil {
						what = "a map"
						if f := path(ld.X).lastField(); f != nil {
							what = "map " + f.Name()
						}
					}
				}
			}
			if T == nil {
				return
			}
			n++
			c.r.bad(rule, fmt.Sprintf("%s: store#%d %s.%s", safeFname(fn), n, T.Obj().Name(), what), "a statement object is written after it was prepared ("+what+" of "+T.Obj().Name()+"): what one execution leaves there is seen by the next, so a second execution of the prepared statement need not return what a one-shot query with the same arguments returns (e.g. a memo of the last bound query whose key does not tell two argument lists apart)", []string{c.w.ipos(i)})
		})
	}
	if n == 0 {
		nf := 0
		for _, T := range []*types.Named{c.a.FileStmtT, c.a.GrpcStmtT} {
			if T != nil {
				nf++
			}
		}
		c.r.ok(rule, "driver statements", fmt.Sprintf("no store into a prepared statement outside its construction and Close (%d statement types)", nf))
	}
}

func init() {
	const doc = "stmtstate — outside the composite literal that constructs it and its Close method, no code of the driver stores into a field of a prepared statement (or into a struct, array or map held by it): state written by one execution is the only way, besides a modified template (C11.template) and package state, for a later execution to differ from a one-shot query."
	addRule("C11", "C11."+doc, func(c *Ctx) { stmtStateRule(c, "C11.stmtstate") })
	addRule("C12", "C12."+doc, func(c *Ctx) { stmtStateRule(c, "C12.stmtstate") })
}

// ---- C04/C18.poolescape ----------------------------------------------------------------------------------------------
//
// sync.Pool hands an object to one goroutine at a time only as long as nothing of the object is used after it was put
// back. poolEscapeRule: in every module function that gets an object from a sync.Pool and puts it back (directly or by
// defer), no value that aliases the object's memory — the object, a slice, map or pointer loaded from one of its fields,
// a re-slice or an append on top of such a slice — is returned, stored into memory outside the object, sent on a channel
// or captured by a goroutine; and nothing aliasing it is used after a non-deferred Put. `defer pool.Put(sc); …; return
// sc.cells` hands the caller a slice that the next Get-er overwrites while the caller is still reading it.
func poolEscapeRule(c *Ctx, rule string) {
	isPool := func(cc *ssa.CallCommon, name string) bool {
		return calleeName(cc) == "(*sync.Pool)."+name
	}
	mayAlias := func(t types.Type) bool { return !isValueType(t) }
	n := 0
	for _, fn := range c.w.ModFuncs {
		if fn.Blocks == nil {
			continue
		}
		var gets []*ssa.Call
		allInstrs(fn, func(i ssa.Instruction) {
			if call, ok := i.(*ssa.Call); ok && isPool(&call.Call, "Get") {
				gets = append(gets, call)
			}
		})
		for gi, get := range gets {
			// alias closure of the object
			alias := map[ssa.Value]bool{get: true}
			changed := true
			for changed {
				changed = false
				add := func(v ssa.Value) {
					if !alias[v] {
						alias[v] = true
						changed = true
					}
				}
				allInstrs(fn, func(i ssa.Instruction) {
					v, isVal := i.(ssa.Value)
					if !isVal || alias[v] {
						return
					}
					switch x := i.(type) {
					case *ssa.TypeAssert:
						if alias[x.X] {
							add(x)
						}
					case *ssa.Extract:
						if alias[x.Tuple] && mayAlias(x.Type()) {
							add(x)
						}
					case *ssa.ChangeType:
						if alias[x.X] {
							add(x)
						}
					case *ssa.MakeInterface:
						if alias[x.X] {
							add(x)
						}
					case *ssa.FieldAddr:
						if alias[x.X] {
							add(x)
						}
					case *ssa.IndexAddr:
						if alias[x.X] {
							add(x)
						}
					case *ssa.Slice:
						if alias[x.X] {
							add(x)
						}
					case *ssa.UnOp:
						if x.Op == token.MUL && alias[x.X] && mayAlias(x.Type()) {
							add(x)
						}
						// a local variable (also the spilled result of a function with defers) that was assigned an alias
						if al, isAl := peelCell(x.X).(*ssa.Alloc); isAl && x.Op == token.MUL && mayAlias(x.Type()) {
							if stores, _ := cellStores(al); len(stores) > 0 {
								for _, st := range stores {
									if alias[st.Val] {
										add(x)
									}
								}
							}
						}
					case *ssa.Phi:
						for _, e := range x.Edges {
							if alias[e] {
								add(x)
							}
						}
					case *ssa.Call:
						if b, ok := x.Call.Value.(*ssa.Builtin); ok && b.Name() == "append" && len(x.Call.Args) > 0 && alias[x.Call.Args[0]] {
							add(x)
						}
					}
				})
			}
			// puts of this object
			var puts []ssa.Instruction
			deferred := false
			allInstrs(fn, func(i ssa.Instruction) {
				switch x := i.(type) {
				case *ssa.Call:
					if isPool(&x.Call, "Put") && len(x.Call.Args) == 2 && alias[x.Call.Args[1]] {
						puts = append(puts, x)
					}
				case *ssa.Defer:
					if isPool(&x.Call, "Put") && len(x.Call.Args) == 2 && alias[x.Call.Args[1]] {
						puts = append(puts, x)
						deferred = true
					}
				}
			})
			if len(puts) == 0 {
				continue // ownership is handed on (a getter helper): the function that puts it back is judged
			}
			n++
			key := fmt.Sprintf("%s: pooled object#%d", safeFname(fn), gi+1)
			var bad []string
			allInstrs(fn, func(i ssa.Instruction) {
				switch x := i.(type) {
				case *ssa.Return:
					if isRecoverBlockReturn(x) {
						return
					}
					for _, rv := range x.Results {
						if alias[rv] {
							bad = append(bad, "returned at "+c.w.ipos(i))
						}
					}
				case *ssa.Store:
					if alias[x.Val] && !alias[x.Addr] {
						if _, local := peelCell(x.Addr).(*ssa.Alloc); !local {
							bad = append(bad, "stored outside the object at "+c.w.ipos(i))
						}
					}
				case *ssa.MapUpdate:
					if (alias[x.Value] || alias[x.Key]) && !alias[x.Map] {
						bad = append(bad, "stored into a map at "+c.w.ipos(i))
					}
				case *ssa.Send:
					if alias[x.X] {
						bad = append(bad, "sent on a channel at "+c.w.ipos(i))
					}
				case *ssa.Go:
					for _, a := range x.Call.Args {
						if alias[a] {
							bad = append(bad, "handed to a goroutine at "+c.w.ipos(i))
						}
					}
				}
			})
			if !deferred {
				// uses after a Put
				for _, p := range puts {
					pc := p.(*ssa.Call)
					after := map[*ssa.BasicBlock]bool{}
					var walk func(b *ssa.BasicBlock)
					walk = func(b *ssa.BasicBlock) {
						if after[b] {
							return
						}
						after[b] = true
						for _, s := range b.Succs {
							walk(s)
						}
					}
					for _, s := range pc.Block().Succs {
						walk(s)
					}
					allInstrs(fn, func(i ssa.Instruction) {
						if i == ssa.Instruction(pc) {
							return
						}
						later := after[i.Block()]
						if !later && i.Block() == pc.Block() {
							seen := false
							for _, j := range pc.Block().Instrs {
								if j == ssa.Instruction(pc) {
									seen = true
								} else if j == i && seen {
									later = true
								}
							}
						}
						if !later {
							return
						}
						if _, isGet := i.(*ssa.Call); isGet && i == ssa.Instruction(get) {
							return
						}
						for _, op := range i.Operands(nil) {
							if *op != nil && alias[*op] {
								if _, isRet := i.(*ssa.Return); !isRet {
									bad = append(bad, "used after it was put back, at "+c.w.ipos(i))
								}
								return
							}
						}
					})
				}
			}
			if len(bad) > 0 {
				sort.Strings(bad)
				if len(bad) > 4 {
					bad = bad[:4]
				}
				c.r.bad(rule, key, "memory of an object taken from a sync.Pool is still reachable after the object was put back ("+strings.Join(bad, "; ")+"): the next goroutine that gets the object overwrites it while this one's caller is still using it — concurrent callers see each other's data", []string{c.w.ipos(get)})
			} else {
				c.r.ok(rule, key, "nothing that aliases the pooled object outlives its Put", c.w.ipos(get))
			}
		}
	}
	if n == 0 {
		c.r.ok(rule, "module", "no function of the module takes an object from a sync.Pool and puts it back")
	}
}

func init() {
	const doc = "poolescape — where a module function takes an object from a sync.Pool and puts it back (directly or deferred), nothing that aliases the object's memory (the object, slices/maps/pointers loaded from its fields, re-slices and appends on them) is returned, stored outside the object, sent or given to a goroutine, nor used after a non-deferred Put."
	addRule("C18", "C18."+doc, func(c *Ctx) { poolEscapeRule(c, "C18.poolescape") })
	addRule("C04", "C04."+doc, func(c *Ctx) { poolEscapeRule(c, "C04.poolescape") })
}

// ---- C17.keysame -------------------------------------------------------------------------------------------------------
//
// The connection remembers the key it is registered under, and its Close removes the cache entry of that remembered
// key. keySameRule: wherever a connection is inserted into the driver's connection map, the key of the insert and the
// value stored into the connection's key field (a field of the map's key type) are the same value — the same SSA
// value, or two loads of one local variable that is not assigned in between. A cleaned / normalised copy used for the map
// and the raw key kept in the connection make the last Close delete nothing: the dead connection stays cached and the
// next open is handed a closed index.
func keySameRule(c *Ctx, rule string) {
	if c.a.DriverT == nil || c.a.FileConnT == nil {
		return
	}
	var cache *types.Var
	var keyT types.Type
	if st, ok := c.a.DriverT.Underlying().(*types.Struct); ok {
		for i := 0; i < st.NumFields(); i++ {
			if m, ok := st.Field(i).Type().Underlying().(*types.Map); ok && namedOf(m.Elem()) == c.a.FileConnT {
				cache, keyT = st.Field(i), m.Key()
			}
		}
	}
	if cache == nil {
		return
	}
	// the connection's key field
	var keyF *types.Var
	if st, ok := c.a.FileConnT.Underlying().(*types.Struct); ok {
		for i := 0; i < st.NumFields(); i++ {
			if types.Identical(st.Field(i).Type(), keyT) {
				if keyF != nil {
					return // two candidates: the rule does not guess
				}
				keyF = st.Field(i)
			}
		}
	}
	if keyF == nil {
		return // the connection does not remember its key (Close must then find it another way: C17.evict)
	}
	sameValue := func(a, b ssa.Value) bool {
		if a == b {
			return true
		}
		la, ok1 := a.(*ssa.UnOp)
		lb, ok2 := b.(*ssa.UnOp)
		if !ok1 || !ok2 || la.Op != token.MUL || lb.Op != token.MUL {
			return false
		}
		var al ssa.Value
		switch x := la.X.(type) {
		case *ssa.Alloc:
			al = x
		case *ssa.FreeVar:
			al = x // a variable of the enclosing function, read twice in this closure
		default:
			return false
		}
		if lb.X != al {
			return false
		}
		// no store into the variable after the earlier of the two loads
		first, second := la, lb
		if pointOf(lb).b == pointOf(la).b && pointOf(lb).i < pointOf(la).i || lb.Block() != la.Block() && lb.Block().Dominates(la.Block()) {
			first, second = lb, la
		}
		_ = second
		clean := true
		// blocks reachable after the first load
		after := map[*ssa.BasicBlock]bool{}
		var walk func(b *ssa.BasicBlock)
		walk = func(b *ssa.BasicBlock) {
			if after[b] {
				return
			}
			after[b] = true
			for _, sc := range b.Succs {
				walk(sc)
			}
		}
		for _, sc := range first.Block().Succs {
			walk(sc)
		}
		allInstrs(la.Parent(), func(i ssa.Instruction) {
			st, ok := i.(*ssa.Store)
			if !ok {
				return
			}
			a := st.Addr
			for k := 0; k < 6; k++ {
				if fa, ok := a.(*ssa.FieldAddr); ok {
					a = fa.X
					continue
				}
				break
			}
			if a != al {
				return
			}
			if after[st.Block()] || st.Block() == first.Block() && pointOf(st).i > pointOf(first).i {
				clean = false // the variable may be assigned between the two reads
			}
		})
		return clean
	}
	n := 0
	for _, fn := range c.w.ModFuncs {
		if c.w.pkgPathOf(fn) != pkgDriver {
			continue
		}
		allInstrs(fn, func(i ssa.Instruction) {
			mu, ok := i.(*ssa.MapUpdate)
			if !ok || path(mu.Map).lastField() != cache {
				return
			}
			n++
			key := fmt.Sprintf("%s: insert#%d", safeFname(fn), n)
			conn, isAlloc := peel(mu.Value).(*ssa.Alloc)
			if !isAlloc {
				// a variable shared with an enclosing function (`conn = &fileConn{…}; cache[key] = conn` inside a closure
				// that runs under the lock): the last assignment in this block before the insert
				if ld, ok := mu.Value.(*ssa.UnOp); ok && ld.Op == token.MUL {
					var last ssa.Value
					for _, ins := range mu.Block().Instrs {
						if ins == ssa.Instruction(mu) {
							break
						}
						if st, ok := ins.(*ssa.Store); ok && st.Addr == ld.X {
							last = st.Val
						}
					}
					if last != nil {
						conn, isAlloc = peel(last).(*ssa.Alloc)
					}
				}
			}
			if !isAlloc {
				c.r.undecided(rule, key, "the connection that is registered is not one allocated in this function: which key it remembers is not visible here", c.w.ipos(i))
				return
			}
			var stored []ssa.Value
			for _, r := range referrers(conn) {
				if fa, ok := r.(*ssa.FieldAddr); ok && fieldOf(fa.X.Type(), fa.Field) == keyF {
					for _, r2 := range referrers(fa) {
						if st, ok := r2.(*ssa.Store); ok && st.Addr == ssa.Value(fa) {
							stored = append(stored, st.Val)
						}
					}
				}
			}
			if len(stored) != 1 {
				c.r.undecided(rule, key, fmt.Sprintf("the registered connection's key field is assigned %d times in this function", len(stored)), c.w.ipos(i))
				return
			}
			c.r.check(sameValue(mu.Key, stored[0]), rule, key, "the connection remembers the key it is registered under",
				"the connection is registered under one key but remembers another (e.g. a cleaned path for the map, the raw one in the connection): its Close removes the entry of the remembered key, so the closed connection stays in the cache and the next open of the file is handed a connection whose index is closed", c.w.ipos(i))
		})
	}
}

func init() {
	addRule("C17", "C17.keysame — where a connection is inserted into the driver's connection map, the key of the insert and the value stored into the connection's own key field are the same value (the same SSA value, or two loads of one local that is not assigned in between): Close deletes the entry of the remembered key.",
		func(c *Ctx) { keySameRule(c, "C17.keysame") })
}

// ---- C06.required ------------------------------------------------------------------------------------------------------
//
// A file whose creation died before the last transaction has a data bucket but neither schema nor row counter; it is
// rejected because decoding the absent schema item fails and the absent counter item has the wrong length.
// requiredRule makes the open function keep it that way: in the function that assigns the Index's schema (row count),
// every path to a return that may be successful passes the gob Decode (the binary decoding of the counter) — itself or
// in a helper all of whose possibly successful returns pass it. `if len(item) == 0 { return &schema{}, nil }` ("an index
// nothing was added to") accepts every committed prefix of an interrupted creation as an empty index.
func requiredRule(c *Ctx, rule string) {
	if c.a.IndexT == nil || c.a.SchemaT == nil {
		return
	}
	definitelyError := func(ret *ssa.Return) bool {
		n := len(ret.Results)
		if n == 0 || !isErrorType(ret.Parent().Signature.Results().At(n-1).Type()) {
			return false
		}
		e := retVals(ret)[n-1]
		if isNilConst(e) {
			return false
		}
		if call, ok := e.(*ssa.Call); ok {
			switch calleeName(&call.Call) {
			case "errors.New", "fmt.Errorf":
				return true
			}
		}
		if _, ok := e.(*ssa.MakeInterface); ok {
			return true
		}
		for _, cm := range cmpsAt(ret) {
			if cm.Op == token.NEQ && cm.X == e && cm.Y != nil && isNilConst(cm.Y) {
				return true
			}
		}
		return false
	}
	var succMust func(g *ssa.Function, pred func(ssa.Instruction) bool, depth int) bool
	succMust = func(g *ssa.Function, pred func(ssa.Instruction) bool, depth int) bool {
		if g == nil || g.Blocks == nil || depth < 0 {
			return false
		}
		ip := func(i ssa.Instruction) bool {
			if pred(i) {
				return true
			}
			if call, ok := i.(*ssa.Call); ok {
				if h := calleeFunc(&call.Call); h != nil && h != g && c.w.inModule(h) && succMust(h, pred, depth-1) {
					return true
				}
				// db.View(func(tx) error { … }): the callback runs before View returns, and View returns its error
				if syncCallbackReceivers[calleeName(&call.Call)] {
					for _, a := range call.Call.Args {
						var cb *ssa.Function
						switch x := a.(type) {
						case *ssa.MakeClosure:
							cb, _ = x.Fn.(*ssa.Function)
						case *ssa.Function:
							cb = x
						}
						if cb != nil && succMust(cb, pred, depth-1) {
							return true
						}
					}
				}
			}
			return false
		}
		target := func(i ssa.Instruction) bool {
			ret, ok := i.(*ssa.Return)
			return ok && !isRecoverBlockReturn(ret) && !definitelyError(ret)
		}
		return c.fc.pathAvoiding(g, nil, target, ip) == nil
	}
	isDecode := func(i ssa.Instruction) bool {
		call, ok := i.(*ssa.Call)
		return ok && calleeName(&call.Call) == "(*encoding/gob.Decoder).Decode"
	}
	isUint := func(i ssa.Instruction) bool {
		call, ok := i.(*ssa.Call)
		if !ok {
			return false
		}
		n := calleeName(&call.Call)
		return strings.HasPrefix(n, "(encoding/binary.") && (strings.HasSuffix(n, ".Uint32") || strings.HasSuffix(n, ".Uint64"))
	}
	nS, nR := 0, 0
	for _, fn := range c.w.ModFuncs {
		if c.w.pkgPathOf(fn) != pkgRoot {
			continue
		}
		// only what the open function reaches
		top := fn
		for top.Parent() != nil {
			top = top.Parent()
		}
		inOpen := false
		for _, f := range c.scope(c.a.OpenFromDB, 3) {
			if f == top || f == fn {
				inOpen = true
			}
		}
		if !inOpen {
			continue
		}
		var schemaStore, rowsStore ssa.Instruction
		allInstrs(fn, func(i ssa.Instruction) {
			st, ok := i.(*ssa.Store)
			if !ok || i.Parent() != fn {
				return
			}
			p := path(st.Addr)
			f := p.lastField()
			if f == nil || namedOf(p.Root.Type()) != c.a.IndexT && holderTypeOf(st.Addr) != c.a.IndexT {
				return
			}
			if pt, ok := f.Type().Underlying().(*types.Pointer); ok && namedOf(pt.Elem()) == c.a.SchemaT {
				schemaStore = i
			}
			if f == c.a.IdxRowsF {
				rowsStore = i
			}
		})
		if schemaStore != nil {
			nS++
			c.r.check(succMust(fn, isDecode, 2), rule, safeFname(fn)+": schema", "every possibly successful return of the function that assigns the index's schema has passed the gob Decode of the schema item",
				"the function that assigns the index's schema can return without an error on a path that does not decode the schema item (an absent or empty item is accepted as `no columns`): a file whose creation died before its last transaction opens as an empty index instead of being rejected", c.w.ipos(schemaStore))
		}
		if rowsStore != nil {
			nR++
			c.r.check(succMust(fn, isUint, 2), rule, safeFname(fn)+": row counter", "every possibly successful return of the function that assigns the index's row count has passed the decoding of the counter item",
				"the function that assigns the index's row count can return without an error on a path that does not decode the row-counter item (an absent item is accepted as 0 rows): a file whose creation died before its last transaction opens as an index without rows instead of being rejected", c.w.ipos(rowsStore))
		}
	}
	if nS == 0 || nR == 0 {
		c.r.undecided(rule, "<vacuity>", fmt.Sprintf("assignments of the index's schema / row count found in what the open function reaches: %d / %d", nS, nR))
	}
}

// holderTypeOf: the named struct type of the object a field address is selected from (first FieldAddr base).
func holderTypeOf(addr ssa.Value) *types.Named {
	for k := 0; k < 8; k++ {
		fa, ok := addr.(*ssa.FieldAddr)
		if !ok {
			return nil
		}
		if n := namedOf(fa.X.Type()); n != nil {
			if _, isFA := fa.X.(*ssa.FieldAddr); !isFA {
				return n
			}
		}
		addr = fa.X
	}
	return nil
}

func init() {
	addRule("C06", "C06.required — in the function that assigns the Index's schema (row count), every path to a return that may be successful passes the gob Decode of the schema item (the binary decoding of the counter item), itself or in a helper all of whose possibly successful returns pass it: an absent schema or counter is never accepted as an empty index.",
		func(c *Ctx) { requiredRule(c, "C06.required") })
}

func init() {
	// every transaction begun explicitly by code a query reaches is ended on every path (txEndRule, rules_c06_c15.go): a read
	// transaction leaked on an error path makes Index.Close — and with it the driver's Close, which holds the driver-wide
	// lock — wait forever
	const doc = "txend — every transaction that code reachable from query execution begins explicitly (DB.Begin) is ended (Rollback/Commit, directly or deferred) on every path from the successful Begin to a return: bbolt's DB.Close waits for open transactions, so a read transaction leaked on an error path makes closing the index (and the driver handle that owns it) hang."
	addRule("C17", "C17."+doc, func(c *Ctx) {
		if c.a.Execute != nil {
			txEndRule(c, "C17.txend", c.w.reach(concurrentEntries(c)...))
		}
	})
	addRule("C04", "C04."+doc, func(c *Ctx) {
		if c.a.Execute != nil {
			txEndRule(c, "C04.txend", c.w.reach(concurrentEntries(c)...))
		}
	})
}

// ---- C05.flushkeeps ----------------------------------------------------------------------------------------------------
//
// Writing an in-memory writer out does not consume it: WriteToBoltDatabase can be called for several databases, Flush
// after it, or again after a failure, and every output must hold all rows added so far. flushKeepsRule: in the code the
// in-memory writer's write function reaches, no element is removed from, and no map or slice is assigned to, the writer's
// bitmap map, schema or row counter (`delete(idx.values, k)` after each Put "to halve the peak memory" makes the
// second output an index with a full schema and no bitmaps). Mutating bitmap methods that keep the set (RunOptimize) are
// not writes to the writer's fields and stay allowed.
func flushKeepsRule(c *Ctx, rule string) {
	if c.a.MemWrite == nil || c.a.MemWriterT == nil {
		return
	}
	st, ok := c.a.MemWriterT.Underlying().(*types.Struct)
	if !ok {
		return
	}
	own := map[*types.Var]bool{}
	for i := 0; i < st.NumFields(); i++ {
		f := st.Field(i)
		if typeIs(f.Type(), "sync", "Mutex") || typeIs(f.Type(), "sync", "RWMutex") {
			continue
		}
		own[f] = true
	}
	fr := newFresh(c)
	n := 0
	for _, fn := range c.scope(c.a.MemWrite, 3) {
		for _, e := range fr.writes(fn) {
			switch e.Kind {
			case "store", "mapupdate", "delete", "clear":
			default:
				continue
			}
			if e.Fresh {
				continue
			}
			fs := e.fields()
			if len(fs) == 0 || !own[fs[0]] {
				continue
			}
			// a write *into* an object held by the writer (a column of the schema) is the schema rules' business; here: the
			// writer's own containers — the first field on the path is the last one, or what is written is an element of it
			if len(fs) > 1 {
				continue
			}
			n++
			c.r.bad(rule, fmt.Sprintf("%s: %s %s#%d", safeFname(fn), e.Kind, fs[0].Name(), n), "writing the index out changes the writer's own "+fs[0].Name()+" ("+e.Kind+"): a second output of the same writer — another database, Flush after WriteToBoltDatabase, a retry after a failure — is accepted as an index but misses what the first output consumed", []string{c.w.ipos(e.Ins)})
		}
	}
	if n == 0 {
		c.r.ok(rule, safeFname(c.a.MemWrite), "the write function leaves the writer's bitmap map, schema and row counter as they are")
	}
}

func init() {
	addRule("C05", "C05.flushkeeps — in the code the in-memory writer's write function reaches, nothing is removed from or assigned to the writer's own bitmap map, schema or row counter (set-preserving bitmap methods such as RunOptimize are not such writes): every output of a writer holds all rows added so far.",
		func(c *Ctx) { flushKeepsRule(c, "C05.flushkeeps") })
}

// ---- C05.putvalue ------------------------------------------------------------------------------------------------------
//
// bbolt keeps the value slice handed to Bucket.Put until the transaction ends; the caller must not modify it before
// (Bucket.Put's documentation). putValueRule: where the value of a Put in the writers is (a slice of) the contents of a
// bytes.Buffer, no call that writes to or rewinds that buffer (Write*, ReadFrom, Reset, Truncate, or the buffer handed
// to something as an io.Writer) can execute after the Put — a scratch buffer shared by the iterations of the write loop
// and rewound now and then overwrites the bytes of bitmaps that are still pending in the open transaction, and they
// come back empty or wrong without any error.
func putValueRule(c *Ctx, rule string) {
	n := 0
	for _, anchor := range []*ssa.Function{c.a.MemWrite, c.a.BigFlush} {
		if anchor == nil {
			continue
		}
		for _, fn := range c.scope(anchor, 2) {
			allInstrs(fn, func(i ssa.Instruction) {
				put, ok := i.(*ssa.Call)
				if !ok || calleeName(&put.Call) != boltPut || len(put.Call.Args) < 3 {
					return
				}
				// the buffer the value comes from
				v := put.Call.Args[2]
				var buf ssa.Value
				for k := 0; k < 8 && buf == nil; k++ {
					switch x := v.(type) {
					case *ssa.Slice:
						v = x.X
					case *ssa.Phi:
						if len(x.Edges) > 0 {
							v = x.Edges[0]
						} else {
							k = 8
						}
					case *ssa.Call:
						if calleeName(&x.Call) == "(*bytes.Buffer).Bytes" {
							buf = x.Call.Args[0]
						}
						k = 8
					default:
						k = 8
					}
				}
				if buf == nil {
					return
				}
				n++
				key := fmt.Sprintf("%s: Put#%d", safeFname(fn), n)
				// blocks that can execute after the Put
				after := map[*ssa.BasicBlock]bool{}
				var walk func(b *ssa.BasicBlock)
				walk = func(b *ssa.BasicBlock) {
					if after[b] {
						return
					}
					after[b] = true
					for _, sc := range b.Succs {
						walk(sc)
					}
				}
				for _, sc := range put.Block().Succs {
					walk(sc)
				}
				var bad ssa.Instruction
				allInstrs(fn, func(j ssa.Instruction) {
					if bad != nil || j.Parent() != fn {
						return
					}
					cc := callCommon(j)
					if cc == nil {
						return
					}
					later := after[j.Block()] || j.Block() == put.Block() && pointOf(j).i > pointOf(put).i
					if !later {
						return
					}
					name := calleeName(cc)
					writes := false
					if strings.HasPrefix(name, "(*bytes.Buffer).") && len(cc.Args) > 0 && cc.Args[0] == buf {
						switch strings.TrimPrefix(name, "(*bytes.Buffer).") {
						case "Write", "WriteString", "WriteByte", "WriteRune", "ReadFrom", "Reset", "Truncate", "Grow":
							writes = true
						}
					} else {
						for _, a := range cc.Args {
							if mi, ok := a.(*ssa.MakeInterface); ok && mi.X == buf {
								writes = true // handed on as an io.Writer (bm.WriteTo(&buf), gob.NewEncoder(&buf))
							}
						}
					}
					if writes {
						bad = j
					}
				})
				if bad != nil {
					c.r.bad(rule, key, "the value handed to Put is part of a bytes.Buffer that is written to or rewound again afterwards ("+shortName(calleeName(callCommon(bad)))+"): bbolt keeps the slice until the transaction ends, so a later bitmap overwrites the bytes of one that is still pending — it comes back empty or wrong after the commit, with no error", []string{c.w.ipos(put)}, c.w.ipos(bad))
				} else {
					c.r.ok(rule, key, "the buffer the value comes from is not written again after the Put", c.w.ipos(put))
				}
			})
		}
	}
	if n == 0 {
		c.r.ok(rule, "writers", "no Put in the writers takes its value from a bytes.Buffer that could be reused")
	}
}

func init() {
	addRule("C05", "C05.putvalue — where the value of a Put in the writers is (a slice of) the contents of a bytes.Buffer, nothing that writes to or rewinds that buffer can execute after the Put: bbolt keeps the value slice until the transaction ends.",
		func(c *Ctx) { putValueRule(c, "C05.putvalue") })
}

func init() {
	addRule("C17", "C17.lockbalance — every mutex a function of the driver acquires is released on every path to every return (= C04.lockbalance): a failed open that returns with the driver-wide mutex held blocks every later Open and Close in the process.",
		func(c *Ctx) {
			entries := []*ssa.Function{c.a.DrvOpen}
			for _, tn := range []*types.Named{c.a.FileConnT, c.a.FileStmtT, c.a.RowsT} {
				if tn == nil {
					continue
				}
				for i := 0; i < tn.NumMethods(); i++ {
					if !tn.Method(i).Exported() {
						continue
					}
					if f := c.a.methodOf(tn, tn.Method(i).Name()); f != nil {
						entries = append(entries, f)
					}
				}
			}
			lockBalanceRule(c, "C17.lockbalance", entries...)
		})
}

// ---- C02.refined -------------------------------------------------------------------------------------------------------
//
// A sub-group's rows are the parent group's rows that carry the value the sub-group is named after. refinedRule: in the
// function that builds the groups (stores a ResultField and a partial group's bitmap), every value that can reach the
// partial group's bitmap field while a group-by value is being refined — followed backwards through phis — is the result
// of an intersection (roaring.And / FastAnd / ParAnd, (*Bitmap).And on a clone) one of whose operands comes from a GetCol
// call. "The rows not yet claimed by an earlier value" for the last value of a column is not such a value: rows that
// lack the column end up in the group of the column's greatest value. Refutation-style: stores whose origin the rule
// cannot read (helper results, carried bitmaps) are left to C02.fields.
func refinedRule(c *Ctx, rule string) {
	if c.a.ResGroupBMF == nil {
		return
	}
	getColName := c.a.GetColName
	n := 0
	for _, fn := range c.w.reach(c.a.Execute).sorted() {
		if c.w.pkgPathOf(fn) != pkgRoot {
			continue
		}
		hasGetCol := false
		allInstrs(fn, func(i ssa.Instruction) {
			if call, ok := i.(*ssa.Call); ok && call.Call.IsInvoke() && call.Call.Method.Name() == getColName {
				hasGetCol = true
			}
		})
		if !hasGetCol {
			continue
		}
		allInstrs(fn, func(i ssa.Instruction) {
			st, ok := i.(*ssa.Store)
			if !ok {
				return
			}
			fa, ok := st.Addr.(*ssa.FieldAddr)
			if !ok || fieldOf(fa.X.Type(), fa.Field) != c.a.ResGroupBMF {
				return
			}
			// only groups built inside a loop over values (the root group is built from the expression's result before it)
			inLoop := false
			for _, l := range loopsOf(fn) {
				if l.blocks[st.Block()] {
					inLoop = true
				}
			}
			if !inLoop {
				return
			}
			n++
			key := fmt.Sprintf("%s: sub-group bitmap#%d", safeFname(fn), n)
			fromGetCol := func(v ssa.Value) bool {
				v = peel(v)
				if e, ok := v.(*ssa.Extract); ok {
					if call, ok := e.Tuple.(*ssa.Call); ok && call.Call.IsInvoke() && call.Call.Method.Name() == getColName {
						return true
					}
				}
				return false
			}
			var bad ssa.Value
			seen := map[ssa.Value]bool{}
			unknown := false
			var walk func(v ssa.Value)
			walk = func(v ssa.Value) {
				if seen[v] || bad != nil {
					return
				}
				seen[v] = true
				switch x := v.(type) {
				case *ssa.Phi:
					for _, e := range x.Edges {
						walk(e)
					}
				case *ssa.Call:
					name := calleeName(&x.Call)
					switch name {
					case roaringPkg + ".And", roaringPkg + ".FastAnd", roaringPkg + ".ParAnd":
						for _, a := range x.Call.Args {
							if fromGetCol(a) {
								return
							}
							// FastAnd(a, b): variadic array
							if sl, ok := a.(*ssa.Slice); ok {
								if al, ok := sl.X.(*ssa.Alloc); ok {
									for _, r := range referrers(al) {
										if ia, ok := r.(*ssa.IndexAddr); ok {
											for _, r2 := range referrers(ia) {
												if s2, ok := r2.(*ssa.Store); ok && fromGetCol(s2.Val) {
													return
												}
											}
										}
									}
								}
							}
						}
						unknown = true // an intersection, but not visibly with the value's bitmap
					default:
						if strings.HasPrefix(name, roaringPkg+".") && typeIs(x.Type(), roaringPkg, "Bitmap") {
							bad = x // AndNot / Or / Xor / Flip …: not "the rows that carry the value"
							return
						}
						unknown = true
					}
				default:
					unknown = true
				}
			}
			walk(st.Val)
			switch {
			case bad != nil:
				c.r.bad(rule, key, "a sub-group's rows can be something other than the parent's rows intersected with the bitmap of the value the group is named after ("+shortName(calleeName(&bad.(*ssa.Call).Call))+" on some path): rows that do not carry the value — for example rows that lack the column — are counted into that value's group", []string{c.w.ipos(st)}, c.w.ipos(bad.(ssa.Instruction)))
			case unknown:
				c.r.ok(rule, key, "origin of the sub-group's rows not readable by this rule (left to C02.fields)", c.w.ipos(st))
			default:
				c.r.ok(rule, key, "every value that reaches the sub-group's rows is an intersection with a GetCol result", c.w.ipos(st))
			}
		})
	}
	if n == 0 {
		c.r.ok(rule, "group-by", "no sub-group bitmap is stored next to a GetCol call in one function (helpers: C02.fields)")
	}
}

func init() {
	addRule("C02", "C02.refined — in the function that builds the groups, every value that can reach a sub-group's bitmap inside the loop over a column's values is an intersection (roaring.And/FastAnd/ParAnd) with a GetCol result; a difference, union or complement on some path (`the rest` for the last value) is reported. Refutation-style: origins the rule cannot read are left to C02.fields.",
		func(c *Ctx) { refinedRule(c, "C02.refined") })
}
