package main

import (
	"fmt"
	"go/constant"
	"go/token"
	"go/types"
	"sort"
	"strings"

	"golang.org/x/tools/go/ssa"
)

// C09.progress — a termination argument for the lexer's state machine, decided statically:
//
// The machine runs `state = state(l)` until a state function returns nil. Input position only moves forward
// (l.next consumes one rune unless at end of input; l.backup undoes exactly the last next; peek = next+backup;
// acceptRun(S) consumes the maximal run of runes in S). The rule shows that every cycle of the state graph consumes at
// least one rune, by abstract interpretation of each state function over a finite partition of the rune domain:
// a state function that dispatches on `r := l.peek()` with comparisons against constants is executed symbolically for one
// representative of every interval between the constants (and for end of input); for each return site this gives the exact
// set of current runes R that reach it and the consuming calls on the way. An edge f --R--> g consumes surely if the path
// calls l.next() directly and eof ∉ R, or calls acceptRun(S) with R ⊆ S, or g starts (on every path) with such a call
// whose set includes R. Every cycle must contain a surely-consuming edge; every loop inside a lexer method must call
// l.next() on every iteration. Conditions the interpreter cannot evaluate (library predicates such as unicode.IsSpace)
// make the rule undecided.

const runeEOF = -1

type lexEdge struct {
	from, to *ssa.Function // to == nil: machine stops
	ret      *ssa.Return
	runes    []int64 // representatives reaching this return (each stands for an interval)
	ivals    [][2]int64
	events   []string // "next", "accept:<set>", "emit"
	unknown  bool
}

func c09Progress(c *Ctx) {
	const rule = "C09.progress"
	// the lexer, its state functions and its primitives are structural anchors (rules_ag5.go): a rename of any of them
	// must neither alarm nor switch this rule off, and a lexer whose parts cannot be identified is undecided, not "ok"
	ps := c.a.PS
	if !ps.need(rule, "lexer", "state type", "next", "peek", "backup") {
		return
	}
	stateT := ps.StateT
	states := ps.States
	if len(states) == 0 {
		c.r.undecided(rule, "lexer", "the parser package declares a state-function type but no function of that type: the machine the rule reasons about is not found")
		return
	}
	nextFn, peekFn, acceptFn, backupFn := ps.Next, ps.Peek, ps.AcceptRun, ps.Backup
	// 0. the primitives have the assumed shape: peek = next; backup. acceptRun = loop over next, then backup.
	okPeek := false
	{
		var seq []string
		allInstrs(peekFn, func(i ssa.Instruction) {
			if call, ok := i.(*ssa.Call); ok {
				switch calleeFunc(&call.Call) {
				case nextFn:
					seq = append(seq, "next")
				case backupFn:
					seq = append(seq, "backup")
				}
			}
		})
		okPeek = strings.Join(seq, ",") == "next,backup" && len(peekFn.Blocks) == 1
	}
	c.r.check(okPeek, rule, "lexer.peek", "peek = next followed by backup (consumes nothing)", "peek is not `next(); backup()`: the progress argument's model of the primitives does not hold", c.w.pos(peekFn.Pos()))

	// 1. edges of the state graph with the runes that take them
	var edges []*lexEdge
	for _, f := range states {
		es, why := lexInterpret(c, f, nextFn, peekFn, acceptFn, states)
		if why != "" {
			c.r.undecided(rule, safeFname(f), "the state function cannot be interpreted over the rune partition: "+why, c.w.pos(f.Pos()))
			return
		}
		edges = append(edges, es...)
	}
	// 2. first consuming action of each state, as a function of the current rune: states that do not dispatch on peek
	// consume the same way for every rune (direct next, or acceptRun(S))
	firstAction := func(g *ssa.Function) (kind string, set string, ok bool) {
		// every path from entry to any return/branching passes, before anything else that could loop, a next() or acceptRun
		var kinds []string
		for _, e := range edges {
			if e.from != g {
				continue
			}
			k := ""
			for _, ev := range e.events {
				if ev == "next" || strings.HasPrefix(ev, "accept:") {
					k = ev
					break
				}
			}
			kinds = append(kinds, k)
		}
		if len(kinds) == 0 {
			return "", "", false
		}
		for _, k := range kinds {
			if k != kinds[0] {
				return "", "", false
			}
		}
		if kinds[0] == "next" {
			return "next", "", true
		}
		if strings.HasPrefix(kinds[0], "accept:") {
			return "accept", strings.TrimPrefix(kinds[0], "accept:"), true
		}
		return "", "", false
	}
	inSet := func(iv [2]int64, set string) bool {
		if iv[1]-iv[0] > 4096 {
			return false
		}
		for r := iv[0]; r <= iv[1]; r++ {
			if r < 0 || !strings.ContainsRune(set, rune(r)) {
				return false
			}
		}
		return true
	}
	// does edge e surely consume?
	consumes := func(e *lexEdge) (bool, string) {
		if e.to == nil {
			return true, "stops"
		}
		for _, ev := range e.events {
			if ev == "next" {
				for _, iv := range e.ivals {
					if iv[0] <= runeEOF && runeEOF <= iv[1] {
						return false, "next() at end of input consumes nothing"
					}
				}
				return true, "calls next() with a rune present"
			}
			if strings.HasPrefix(ev, "accept:") {
				set := strings.TrimPrefix(ev, "accept:")
				for _, iv := range e.ivals {
					if !inSet(iv, set) {
						return false, fmt.Sprintf("acceptRun(%q) consumes nothing when the current rune is in [%s]", set, ivalString(iv))
					}
				}
				return true, "acceptRun with the current rune in its set"
			}
		}
		// nothing consumed on this edge: rely on the target's first action
		kind, set, ok := firstAction(e.to)
		if !ok {
			return false, "no consuming call on this path and the next state does not start with one"
		}
		if kind == "next" {
			for _, iv := range e.ivals {
				if iv[0] <= runeEOF && runeEOF <= iv[1] {
					return false, "the next state's next() would be at end of input"
				}
			}
			return true, "the next state starts with next() and a rune is present"
		}
		for _, iv := range e.ivals {
			if !inSet(iv, set) {
				return false, fmt.Sprintf("the next state starts with acceptRun(%q), which consumes nothing for a current rune in [%s]", set, ivalString(iv))
			}
		}
		return true, "the next state starts with acceptRun and the current rune is in its set"
	}
	// edges that are deferred to the target's first action must not be counted twice in a cycle: treat "consumed by target"
	// as consumption on this edge and require the target's own outgoing edges to be judged on their own events only.
	nonConsuming := map[*ssa.Function][]*ssa.Function{}
	var report []string
	bad := false
	for _, e := range edges {
		ok, why := consumes(e)
		desc := fmt.Sprintf("%s -> %s on [%s]: %s", safeFname(e.from), nameOrStop(e.to), ivalsString(e.ivals), why)
		report = append(report, desc)
		if !ok && e.to != nil {
			nonConsuming[e.from] = append(nonConsuming[e.from], e.to)
			_ = bad
		}
	}
	// 3. a cycle made of non-consuming edges only = possible non-termination
	var cyc []string
	visiting, done := map[*ssa.Function]bool{}, map[*ssa.Function]bool{}
	var dfs func(f *ssa.Function, trail []string) bool
	dfs = func(f *ssa.Function, trail []string) bool {
		if visiting[f] {
			cyc = append(trail, safeFname(f))
			return true
		}
		if done[f] {
			return false
		}
		visiting[f] = true
		for _, g := range nonConsuming[f] {
			if dfs(g, append(trail, safeFname(f))) {
				return true
			}
		}
		visiting[f] = false
		done[f] = true
		return false
	}
	found := false
	for _, f := range states {
		if dfs(f, nil) {
			found = true
			break
		}
	}
	sort.Strings(report)
	if found {
		var why []string
		for _, e := range edges {
			if ok, w := consumes(e); !ok && e.to != nil {
				why = append(why, fmt.Sprintf("%s -> %s on [%s]: %s", safeFname(e.from), nameOrStop(e.to), ivalsString(e.ivals), w))
			}
		}
		c.r.bad(rule, "state machine", "the lexer's state machine has a cycle that consumes no input ("+strings.Join(cyc, " -> ")+"): for such input the lexer goroutine spins forever and ParseQuery never returns", []string{c.w.pos(states[0].Pos())}, why...)
	} else {
		c.r.ok(rule, "state machine", fmt.Sprintf("every cycle of the %d-state machine consumes at least one rune (%d edges analysed over the rune partition)", len(states), len(edges)), c.w.pos(states[0].Pos()))
	}
	c.r.Notes = append(c.r.Notes, report...)
	// 4. loops inside lexer methods and state functions call next() on every iteration
	for _, fn := range c.w.ModFuncs {
		if c.w.pkgPathOf(fn) != pkgParser {
			continue
		}
		if !ps.isLexMethod(fn) && !ps.isState(fn) {
			continue
		}
		for k, l := range loopsOf(fn) {
			key := fmt.Sprintf("%s: loop#%d", safeFname(fn), k+1)
			// the run loop of the machine itself is covered by the cycle argument
			callsState := false
			for b := range l.blocks {
				for _, ins := range b.Instrs {
					if call, ok := ins.(*ssa.Call); ok && calleeFunc(&call.Call) == nil && !call.Call.IsInvoke() {
						if types.Identical(call.Call.Value.Type(), stateT) {
							callsState = true
						}
					}
				}
			}
			if callsState {
				c.r.ok(rule, key, "the machine's run loop (covered by the cycle argument)", c.w.pos(fn.Pos()))
				continue
			}
			recvLoop := false
			for b := range l.blocks {
				for _, ins := range b.Instrs {
					if u, ok := ins.(*ssa.UnOp); ok && u.Op == token.ARROW {
						recvLoop = true
					}
				}
			}
			if recvLoop {
				c.r.ok(rule, key, "a receive loop: ends when the channel is closed (C09.goroutine shows the sender closes it)", c.w.pos(fn.Pos()))
				continue
			}
			isNext := func(i ssa.Instruction) bool {
				call, ok := i.(*ssa.Call)
				return ok && calleeFunc(&call.Call) == nextFn
			}
			hdr := l.header.Instrs[0]
			// a path around the loop (header -> … -> header) that avoids next()
			var from ssa.Instruction = hdr
			if isNext(hdr) {
				c.r.ok(rule, key, "every iteration calls next()", c.w.ipos(hdr))
				continue
			}
			inLoop := func(pred, succ *ssa.BasicBlock) bool { return !l.blocks[succ] }
			if p := c.fc.pathFrom(fn, from, func(i ssa.Instruction) bool { return i == hdr }, isNext, inLoop); p != nil {
				c.r.bad(rule, key, "a loop in the lexer can iterate without consuming input (no call to next() on some cycle): it may not terminate", []string{c.w.ipos(hdr)}, c.fc.witnessStrings(p)...)
			} else {
				c.r.ok(rule, key, "every iteration calls next() (which ends the loop at end of input)", c.w.ipos(hdr))
			}
		}
	}
}

func nameOrStop(f *ssa.Function) string {
	if f == nil {
		return "stop"
	}
	return safeFname(f)
}

func ivalString(iv [2]int64) string {
	show := func(r int64) string {
		switch {
		case r == runeEOF:
			return "eof"
		case r >= 32 && r < 127:
			return fmt.Sprintf("%q", rune(r))
		}
		return fmt.Sprintf("U+%04X", r)
	}
	if iv[0] == iv[1] {
		return show(iv[0])
	}
	return show(iv[0]) + ".." + show(iv[1])
}

func ivalsString(ivs [][2]int64) string {
	var parts []string
	for _, iv := range ivs {
		parts = append(parts, ivalString(iv))
	}
	if len(parts) > 8 {
		parts = append(parts[:7], "…")
	}
	return strings.Join(parts, ", ")
}

// lexInterpret executes a state function for one representative of every interval of the rune domain induced by the
// constants it compares the current rune with. Returns one edge per (return site), merged over representatives.
func lexInterpret(c *Ctx, f, nextFn, peekFn, acceptFn *ssa.Function, states []*ssa.Function) ([]*lexEdge, string) {
	// the current rune: result of peek() in the entry block (dispatching states); others do not branch on it before consuming
	var cur ssa.Value
	for _, ins := range f.Blocks[0].Instrs {
		if call, ok := ins.(*ssa.Call); ok && calleeFunc(&call.Call) == peekFn {
			cur = call
			break
		}
	}
	// breakpoints
	pts := map[int64]bool{runeEOF: true, 0: true, 0x10FFFF: true}
	if cur != nil {
		allInstrs(f, func(i ssa.Instruction) {
			b, ok := i.(*ssa.BinOp)
			if !ok {
				return
			}
			for _, pair := range [][2]ssa.Value{{b.X, b.Y}, {b.Y, b.X}} {
				if peelConv(pair[0]) == cur {
					if k, ok := pair[1].(*ssa.Const); ok && k.Value != nil && k.Value.Kind() == constant.Int {
						v, _ := constant.Int64Val(k.Value)
						pts[v] = true
					}
				}
			}
		})
	}
	// keys of constant lookup tables indexed by the current rune (`typ, ok := punctuation[r]`)
	tables := map[*ssa.Lookup]map[int64]bool{}
	if cur != nil {
		var bad string
		allInstrs(f, func(i ssa.Instruction) {
			lk, ok := i.(*ssa.Lookup)
			if !ok || peelConv(lk.Index) != cur {
				return
			}
			ld, ok := lk.X.(*ssa.UnOp)
			if !ok {
				return
			}
			g, ok := ld.X.(*ssa.Global)
			if !ok {
				return
			}
			keys, ok := globalMapIntKeys(c, g)
			if !ok {
				bad = "a lookup table indexed by the current rune is not a constant package-level map"
				return
			}
			tables[lk] = keys
			for k := range keys {
				pts[k] = true
			}
		})
		if bad != "" {
			return nil, bad
		}
	}
	// constants in predicate helpers the rune is passed to (isLetter(r) and the like)
	if cur != nil {
		allInstrs(f, func(i ssa.Instruction) {
			call, ok := i.(*ssa.Call)
			if !ok {
				return
			}
			g := calleeFunc(&call.Call)
			if g == nil || !c.w.inModule(g) || g.Blocks == nil {
				return
			}
			for k, a := range call.Call.Args {
				if peelConv(a) == cur && k < len(g.Params) {
					par := ssa.Value(g.Params[k])
					allInstrs(g, func(j ssa.Instruction) {
						if b, ok := j.(*ssa.BinOp); ok {
							for _, pair := range [][2]ssa.Value{{b.X, b.Y}, {b.Y, b.X}} {
								if peelConv(pair[0]) == par {
									if kc, ok := pair[1].(*ssa.Const); ok && kc.Value != nil && kc.Value.Kind() == constant.Int {
										v, _ := constant.Int64Val(kc.Value)
										pts[v] = true
									}
								}
							}
						}
					})
				}
			}
		})
	}
	var sorted []int64
	for p := range pts {
		sorted = append(sorted, p)
	}
	sort.Slice(sorted, func(i, j int) bool { return sorted[i] < sorted[j] })
	// intervals: each breakpoint alone, and the open gaps between consecutive breakpoints
	var ivals [][2]int64
	for i, p := range sorted {
		ivals = append(ivals, [2]int64{p, p})
		if i+1 < len(sorted) && sorted[i+1] > p+1 {
			ivals = append(ivals, [2]int64{p + 1, sorted[i+1] - 1})
		}
	}
	if cur == nil {
		ivals = [][2]int64{{runeEOF, 0x10FFFF}}
	}
	byRet := map[*ssa.Return]*lexEdge{}
	var order []*ssa.Return
	for _, iv := range ivals {
		rep := iv[0]
		// walk: concrete on comparisons of the current rune with constants; a condition that cannot be evaluated before any
		// input was consumed (a library predicate on the rune) is explored both ways with the whole interval
		var walkErr string
		var evalB func(v ssa.Value, bools map[ssa.Value]bool) (bool, bool)
		evalB = func(v ssa.Value, bools map[ssa.Value]bool) (bool, bool) {
			if r, ok := bools[v]; ok {
				return r, true
			}
			switch x := v.(type) {
			case *ssa.Const:
				if bv, ok := constBool(x); ok {
					return bv, true
				}
			case *ssa.Extract:
				// the "present" flag of a lookup in a constant table indexed by the current rune
				if lk, ok := x.Tuple.(*ssa.Lookup); ok && x.Index == 1 {
					if keys, ok := tables[lk]; ok {
						return keys[rep], true
					}
				}
				// a boolean result of a module classifier of the current rune (`typ, ok := punctuationItemType(r)`)
				if call, ok := x.Tuple.(*ssa.Call); ok && cur != nil {
					if g := calleeFunc(&call.Call); g != nil && c.w.inModule(g) && g.Blocks != nil {
						for k, a := range call.Call.Args {
							if peelConv(a) == cur && k < len(g.Params) {
								return evalRuneFunc(g, g.Params[k], rep, x.Index)
							}
						}
					}
				}
			case *ssa.UnOp:
				if x.Op == token.NOT {
					if r, ok := evalB(x.X, bools); ok {
						return !r, true
					}
				}
			case *ssa.Call:
				// a module predicate on the current rune: interpret it for this representative
				if g := calleeFunc(&x.Call); g != nil && cur != nil && c.w.inModule(g) && g.Blocks != nil {
					for k, a := range x.Call.Args {
						if peelConv(a) == cur && k < len(g.Params) {
							return evalRunePred(g, g.Params[k], rep)
						}
					}
				}
			case *ssa.BinOp:
				var k int64
				var isK bool
				op := x.Op
				if peelConv(x.X) == cur && cur != nil {
					k, isK = constInt(x.Y)
				} else if peelConv(x.Y) == cur && cur != nil {
					k, isK = constInt(x.X)
					op = swapOp(op)
				}
				if !isK {
					return false, false
				}
				switch op {
				case token.EQL:
					return rep == k, true
				case token.NEQ:
					return rep != k, true
				case token.LSS:
					return rep < k, true
				case token.LEQ:
					return rep <= k, true
				case token.GTR:
					return rep > k, true
				case token.GEQ:
					return rep >= k, true
				}
			}
			return false, false
		}
		var walk func(b, prev *ssa.BasicBlock, bools map[ssa.Value]bool, events []string, depth int)
		walk = func(b, prev *ssa.BasicBlock, bools map[ssa.Value]bool, events []string, depth int) {
			if depth > 400 || walkErr != "" {
				if depth > 400 {
					walkErr = "the function loops before returning; interpretation stopped"
				}
				return
			}
			for _, ins := range b.Instrs {
				switch x := ins.(type) {
				case *ssa.Phi:
					if prev != nil {
						for k, p := range b.Preds {
							if p == prev {
								if r, ok := evalB(x.Edges[k], bools); ok {
									bools[x] = r
								} else {
									delete(bools, x)
								}
							}
						}
					}
				case *ssa.Call:
					switch calleeFunc(&x.Call) {
					case nextFn:
						events = append(append([]string{}, events...), "next")
					case acceptFn:
						if acceptFn != nil {
							if str, ok := constString(x.Call.Args[1]); ok {
								events = append(append([]string{}, events...), "accept:"+str)
							} else {
								events = append(append([]string{}, events...), "accept:")
							}
						}
					}
				case *ssa.If:
					r, ok := evalB(x.Cond, bools)
					if !ok {
						if len(events) > 0 {
							// input was consumed already: the partition no longer describes the current rune; every return
							// reachable from here is taken with the events so far
							seen := map[*ssa.BasicBlock]bool{}
							var collect func(bb *ssa.BasicBlock)
							collect = func(bb *ssa.BasicBlock) {
								if seen[bb] {
									return
								}
								seen[bb] = true
								for _, j := range bb.Instrs {
									if ret, ok := j.(*ssa.Return); ok {
										addLexEdge(byRet, &order, f, ret, iv, rep, events, states)
									}
								}
								for _, sc := range bb.Succs {
									collect(sc)
								}
							}
							collect(b.Succs[0])
							collect(b.Succs[1])
							return
						}
						for _, sc := range b.Succs {
							b2 := map[ssa.Value]bool{}
							for k, v := range bools {
								b2[k] = v
							}
							walk(sc, b, b2, events, depth+1)
						}
						return
					}
					if r {
						walk(b.Succs[0], b, bools, events, depth+1)
					} else {
						walk(b.Succs[1], b, bools, events, depth+1)
					}
					return
				case *ssa.Jump:
					walk(b.Succs[0], b, bools, events, depth+1)
					return
				case *ssa.Return:
					addLexEdge(byRet, &order, f, x, iv, rep, events, states)
					return
				case *ssa.Panic:
					return
				}
			}
		}
		walk(f.Blocks[0], nil, map[ssa.Value]bool{}, nil, 0)
		if walkErr != "" {
			return nil, walkErr
		}
	}
	var out []*lexEdge
	for _, r := range order {
		out = append(out, byRet[r])
	}
	return out, ""
}

func addLexEdge(byRet map[*ssa.Return]*lexEdge, order *[]*ssa.Return, f *ssa.Function, ret *ssa.Return, iv [2]int64, rep int64, events []string, states []*ssa.Function) {
	e := byRet[ret]
	if e == nil {
		e = &lexEdge{from: f, ret: ret, events: append([]string{}, events...)}
		// target state
		v := ret.Results[0]
		if ct, ok := v.(*ssa.ChangeType); ok {
			v = ct.X
		}
		switch x := v.(type) {
		case *ssa.Function:
			e.to = x
		case *ssa.Const:
			e.to = nil
		case *ssa.Call:
			// l.errorf(...) returns nil: a helper whose every return is nil
			e.to = nil
			if g := calleeFunc(&x.Call); g != nil {
				allNil := true
				allInstrs(g, func(i ssa.Instruction) {
					if r, ok := i.(*ssa.Return); ok && len(r.Results) == 1 && !isNilConst(r.Results[0]) {
						allNil = false
					}
				})
				if !allNil {
					e.unknown = true
				}
			}
		default:
			e.unknown = true
		}
		byRet[ret] = e
		*order = append(*order, ret)
	}
	e.runes = append(e.runes, rep)
	e.ivals = append(e.ivals, iv)
}

// evalRunePred interprets a pure predicate g for the concrete value rep of its parameter par: only comparisons of par
// with constants, boolean connectives (as control flow and phis) and constant returns are understood.
func evalRunePred(g *ssa.Function, par ssa.Value, rep int64) (bool, bool) {
	return evalRuneFunc(g, par, rep, 0)
}

// evalRuneFunc is evalRunePred for functions with several results: it yields result number res (which must be boolean).
func evalRuneFunc(g *ssa.Function, par ssa.Value, rep int64, res int) (bool, bool) {
	bools := map[ssa.Value]bool{}
	var ev func(v ssa.Value) (bool, bool)
	ev = func(v ssa.Value) (bool, bool) {
		if r, ok := bools[v]; ok {
			return r, true
		}
		switch x := v.(type) {
		case *ssa.Const:
			return constBool(x)
		case *ssa.UnOp:
			if x.Op == token.NOT {
				if r, ok := ev(x.X); ok {
					return !r, true
				}
			}
		case *ssa.BinOp:
			var k int64
			var isK bool
			op := x.Op
			if peelConv(x.X) == par {
				k, isK = constInt(x.Y)
			} else if peelConv(x.Y) == par {
				k, isK = constInt(x.X)
				op = swapOp(op)
			}
			if !isK {
				return false, false
			}
			switch op {
			case token.EQL:
				return rep == k, true
			case token.NEQ:
				return rep != k, true
			case token.LSS:
				return rep < k, true
			case token.LEQ:
				return rep <= k, true
			case token.GTR:
				return rep > k, true
			case token.GEQ:
				return rep >= k, true
			}
		}
		return false, false
	}
	b := g.Blocks[0]
	var prev *ssa.BasicBlock
	for steps := 0; steps < 200; steps++ {
		var next *ssa.BasicBlock
		for _, ins := range b.Instrs {
			switch x := ins.(type) {
			case *ssa.Phi:
				if prev != nil {
					for k, p := range b.Preds {
						if p == prev {
							if r, ok := ev(x.Edges[k]); ok {
								bools[x] = r
							}
						}
					}
				}
			case *ssa.If:
				r, ok := ev(x.Cond)
				if !ok {
					return false, false
				}
				if r {
					next = b.Succs[0]
				} else {
					next = b.Succs[1]
				}
			case *ssa.Jump:
				next = b.Succs[0]
			case *ssa.Return:
				if res >= len(x.Results) {
					return false, false
				}
				return ev(x.Results[res])
			case *ssa.Call, *ssa.Store, *ssa.Panic, *ssa.Send, *ssa.MapUpdate:
				return false, false // not a pure predicate
			}
			if next != nil {
				break
			}
		}
		if next == nil {
			return false, false
		}
		prev, b = b, next
	}
	return false, false
}

// globalMapIntKeys: the integer keys of a package-level map that is built once in the package initialiser (make +
// constant-key updates, then stored into the variable) and never written anywhere else in the module.
func globalMapIntKeys(c *Ctx, g *ssa.Global) (map[int64]bool, bool) {
	init := g.Pkg.Func("init")
	if init == nil {
		return nil, false
	}
	var mk ssa.Value
	stores := 0
	allInstrs(init, func(i ssa.Instruction) {
		if st, ok := i.(*ssa.Store); ok && st.Addr == ssa.Value(g) {
			stores++
			mk = st.Val
		}
	})
	if stores != 1 {
		return nil, false
	}
	if _, ok := mk.(*ssa.MakeMap); !ok {
		return nil, false
	}
	keys := map[int64]bool{}
	okAll := true
	allInstrs(init, func(i ssa.Instruction) {
		if mu, ok := i.(*ssa.MapUpdate); ok && mu.Map == mk {
			if k, isK := constInt(mu.Key); isK {
				keys[k] = true
			} else {
				okAll = false
			}
		}
	})
	// no writer outside the initialiser
	for _, fn := range c.w.ModFuncs {
		allInstrs(fn, func(i ssa.Instruction) {
			switch x := i.(type) {
			case *ssa.Store:
				if x.Addr == ssa.Value(g) {
					okAll = false
				}
			case *ssa.MapUpdate:
				if ld, ok := x.Map.(*ssa.UnOp); ok && ld.X == ssa.Value(g) {
					okAll = false
				}
			case *ssa.Call:
				if b, ok := x.Call.Value.(*ssa.Builtin); ok && (b.Name() == "delete" || b.Name() == "clear") && len(x.Call.Args) > 0 {
					if ld, ok := x.Call.Args[0].(*ssa.UnOp); ok && ld.X == ssa.Value(g) {
						okAll = false
					}
				}
			}
		})
	}
	return keys, okAll
}

// C09.nodrop — no lexer state silently discards input. A state function that has consumed input (a direct call of
// next(), or of a lexer method that loops over next()) must, before it returns, hand that input on: emit a token, raise
// a lexical error, explicitly skip it (a lexer method that moves the token start up to the position: whitespace), or put
// it back (backup). A path that consumes and then just returns makes the consumed text vanish from the token stream:
// the parser then accepts `a = "1" "xyz` as `a = "1"` (unterminated strings and trailing text are to be rejected).
// Discharging methods are recognised structurally: methods of the lexer that send on a channel or store to the field
// that marks the start of the current token.
func c09NoDrop(c *Ctx) {
	const rule = "C09.nodrop"
	ps := c.a.PS
	if !ps.need(rule, "lexer", "state type", "next", "lexer start") {
		return
	}
	nextFn, peekFn, backupFn := ps.Next, ps.Peek, ps.Backup
	startF := ps.StartF
	isLexMethod := func(f *ssa.Function) bool { return ps.isLexMethod(f) && f.Blocks != nil }
	discharges := func(f *ssa.Function) bool {
		if f == backupFn && backupFn != nil {
			return true
		}
		if !isLexMethod(f) || f == nextFn || f == peekFn {
			return false
		}
		return c.fc.mayContain(f, func(i ssa.Instruction) bool {
			if len(sendsOf(i)) > 0 {
				return true // a send statement, or the send case of a select (`select { case l.items <- it: case <-l.quit: }`)
			}
			if x, ok := i.(*ssa.Store); ok {
				if fa, ok := x.Addr.(*ssa.FieldAddr); ok && startF != nil && fieldOf(fa.X.Type(), fa.Field) == startF {
					return true
				}
			}
			return false
		}, 1)
	}
	consumes := func(f *ssa.Function) bool {
		if f == nextFn {
			return true
		}
		if !isLexMethod(f) || f == peekFn || discharges(f) {
			return false
		}
		// a lexer method that calls next() in a loop (acceptRun)
		has := false
		allInstrs(f, func(i ssa.Instruction) {
			if call, ok := i.(*ssa.Call); ok && calleeFunc(&call.Call) == nextFn {
				has = true
			}
		})
		return has && len(loopsOf(f)) > 0
	}
	n := 0
	for _, fn := range ps.States {
		n++
		isDischarge := func(i ssa.Instruction) bool {
			call, ok := i.(*ssa.Call)
			return ok && discharges(calleeFunc(&call.Call))
		}
		var witness []ssa.Instruction
		allInstrs(fn, func(i ssa.Instruction) {
			call, ok := i.(*ssa.Call)
			if !ok || witness != nil || !consumes(calleeFunc(&call.Call)) {
				return
			}
			if p := c.fc.pathAvoiding(fn, call, func(x ssa.Instruction) bool { _, r := x.(*ssa.Return); return r }, isDischarge); p != nil {
				witness = p
			}
		})
		if witness != nil {
			c.r.bad(rule, safeFname(fn), "a lexer state can return after consuming input without emitting a token, raising an error, skipping it explicitly or putting it back: the consumed text silently disappears from the token stream (an unterminated string after a complete query is accepted)",
				[]string{c.w.ipos(witness[len(witness)-1])}, c.fc.witnessStrings(witness)...)
		} else {
			c.r.ok(rule, safeFname(fn), "every path that consumes input emits, raises an error, skips explicitly or backs up before returning", c.w.pos(fn.Pos()))
		}
	}
	if n == 0 {
		c.r.undecided(rule, "lexer", "no state functions found: the rule has nothing to examine")
	}
}

// C09.closedtoken — a token that needs a terminator is not emitted when the input runs out first. In a lexer state
// function, on the edge on which a rune obtained from next() is found to be the end-of-input marker, every path to a
// return raises a lexical error before it can emit a token (other than the end-of-input token itself). With the string
// state this is "an unterminated string is never turned into a value token".
func c09ClosedToken(c *Ctx) {
	const rule = "C09.closedtoken"
	ps := c.a.PS
	if !ps.need(rule, "lexer", "state type", "next", "token kind type", "eof rune", "eof kind") {
		return
	}
	nextFn := ps.Next
	eofVal := *ps.EOFRune
	// emit-like: a sending lexer method that takes the token kind; error-like: a sending lexer method that returns a state
	isEmit := func(i ssa.Instruction) bool {
		call, ok := i.(*ssa.Call)
		if !ok {
			return false
		}
		arg, ok := ps.emitKindArg(call)
		if !ok {
			return false
		}
		if k, isK := peelConv(arg).(*ssa.Const); isK && k.Value != nil && constant.Compare(k.Value, token.EQL, ps.EOFKind) {
			return false // emitting the end-of-input token at the end of the input is right
		}
		return true
	}
	isError := ps.isErrorCall
	fromNext := func(v ssa.Value) bool {
		seen := map[ssa.Value]bool{}
		var visit func(v ssa.Value) bool
		visit = func(v ssa.Value) bool {
			if seen[v] {
				return false
			}
			seen[v] = true
			switch x := v.(type) {
			case *ssa.Call:
				return calleeFunc(&x.Call) == nextFn
			case *ssa.Phi:
				// a loop variable: every edge comes from next() (a value that may also come from peek() is examined on
				// the edge where it was obtained, with the path context intact)
				for _, e := range x.Edges {
					if !seen[e] && !visit(e) {
						return false
					}
				}
				return len(x.Edges) > 0
			}
			return false
		}
		return visit(v)
	}
	n := 0
	for _, fn := range ps.States {
		var witness []ssa.Instruction
		edges := 0
		for _, b := range fn.Blocks {
			if len(b.Succs) != 2 {
				continue
			}
			for _, succ := range b.Succs {
				// does this edge establish r == eof for an r obtained from next()?
				hit := false
				iff, ok := b.Instrs[len(b.Instrs)-1].(*ssa.If)
				if !ok {
					continue
				}
				for _, cm := range trueCmps(fact{iff.Cond, b.Succs[0] == succ}) {
					if cm.Op != token.EQL || cm.Y == nil {
						continue
					}
					for _, pair := range [][2]ssa.Value{{cm.X, cm.Y}, {cm.Y, cm.X}} {
						if k, isK := constInt(pair[1]); isK && k == eofVal && fromNext(pair[0]) {
							hit = true
						}
					}
				}
				if !hit || len(succ.Instrs) == 0 {
					continue
				}
				edges++
				known := map[ssa.Value]int64{}
				for _, cm := range trueCmps(fact{iff.Cond, b.Succs[0] == succ}) {
					if cm.Op == token.EQL && cm.Y != nil {
						if k, isK := constInt(cm.Y); isK {
							known[cm.X] = k
						}
						if k, isK := constInt(cm.X); isK {
							known[cm.Y] = k
						}
					}
				}
				if p := emitPathFromEdge(c, b, succ, isEmit, isError, known); p != nil && witness == nil {
					witness = p
				}
			}
		}
		if edges == 0 {
			continue
		}
		n++
		if witness != nil {
			c.r.bad(rule, safeFname(fn), "after the scanner has found the end of the input inside a token, a path emits the token anyway instead of raising a lexical error: an unterminated string becomes a value",
				[]string{c.w.ipos(witness[len(witness)-1])}, c.fc.witnessStrings(witness)...)
		} else {
			c.r.ok(rule, safeFname(fn), "running out of input inside the token always ends in a lexical error", c.w.pos(fn.Pos()))
		}
	}
	if n == 0 {
		c.r.ok(rule, "lexer", "no state function scans for a terminator with next()")
	}
}

// emitPathFromEdge searches, starting with the CFG edge pred→succ, a path to an instruction satisfying target that
// passes no instruction satisfying avoid. Boolean phis are resolved by the edge actually taken and branches on such
// phis (through negation) follow only the feasible successor, so a flag that records "terminator seen" is respected.
func emitPathFromEdge(c *Ctx, pred, succ *ssa.BasicBlock, target, avoid func(ssa.Instruction) bool, known map[ssa.Value]int64) []ssa.Instruction {
	type key struct {
		b, prev *ssa.BasicBlock
	}
	seen := map[key]int{}
	var witness []ssa.Instruction
	var evalB func(v ssa.Value, env map[ssa.Value]bool) (bool, bool)
	evalB = func(v ssa.Value, env map[ssa.Value]bool) (bool, bool) {
		if r, ok := env[v]; ok {
			return r, true
		}
		switch x := v.(type) {
		case *ssa.Const:
			return constBool(x)
		case *ssa.UnOp:
			if x.Op == token.NOT {
				if r, ok := evalB(x.X, env); ok {
					return !r, true
				}
			}
		case *ssa.BinOp:
			// a comparison of a value that the starting edge pinned to a constant
			var a, k int64
			var okA, okK bool
			op := x.Op
			if a, okA = known[x.X]; okA {
				k, okK = constInt(x.Y)
			} else if a, okA = known[x.Y]; okA {
				k, okK = constInt(x.X)
				op = swapOp(op)
			}
			if okA && okK {
				switch op {
				case token.EQL:
					return a == k, true
				case token.NEQ:
					return a != k, true
				case token.LSS:
					return a < k, true
				case token.LEQ:
					return a <= k, true
				case token.GTR:
					return a > k, true
				case token.GEQ:
					return a >= k, true
				}
			}
		}
		return false, false
	}
	var dfs func(b, prev *ssa.BasicBlock, env map[ssa.Value]bool, trail []ssa.Instruction) bool
	dfs = func(b, prev *ssa.BasicBlock, env map[ssa.Value]bool, trail []ssa.Instruction) bool {
		k := key{b, prev}
		if seen[k] > 2 {
			return false
		}
		seen[k]++
		env2 := map[ssa.Value]bool{}
		for kk, vv := range env {
			env2[kk] = vv
		}
		for _, ins := range b.Instrs {
			if phi, ok := ins.(*ssa.Phi); ok {
				for i, p := range b.Preds {
					if p == prev {
						if r, ok := evalB(phi.Edges[i], env); ok {
							env2[phi] = r
						} else {
							delete(env2, phi)
						}
						// integer phis: carry a pinned value along the edge taken (restored when the search backtracks)
						if kv, ok := known[phi.Edges[i]]; ok {
							if _, had := known[phi]; !had {
								known[phi] = kv
								defer delete(known, phi)
							}
						} else if kv, isK := constInt(phi.Edges[i]); isK {
							if _, had := known[phi]; !had {
								known[phi] = kv
								defer delete(known, phi)
							}
						}
					}
				}
				continue
			}
			if target(ins) {
				witness = append(append([]ssa.Instruction{}, trail...), ins)
				return true
			}
			if avoid(ins) || c.fc.diverges(ins) {
				return false
			}
			if iff, ok := ins.(*ssa.If); ok && len(b.Succs) == 2 {
				t := append(append([]ssa.Instruction{}, trail...), ins)
				if r, ok := evalB(iff.Cond, env2); ok {
					if r {
						return dfs(b.Succs[0], b, env2, t)
					}
					return dfs(b.Succs[1], b, env2, t)
				}
				return dfs(b.Succs[0], b, env2, t) || dfs(b.Succs[1], b, env2, t)
			}
		}
		if len(b.Instrs) == 0 {
			return false
		}
		last := b.Instrs[len(b.Instrs)-1]
		if _, isIf := last.(*ssa.If); isIf {
			return false
		}
		for _, s := range b.Succs {
			if dfs(s, b, env2, append(append([]ssa.Instruction{}, trail...), last)) {
				return true
			}
		}
		return false
	}
	var start []ssa.Instruction
	if len(pred.Instrs) > 0 {
		start = []ssa.Instruction{pred.Instrs[len(pred.Instrs)-1]}
	}
	if dfs(succ, pred, map[ssa.Value]bool{}, start) {
		return witness
	}
	return nil
}
