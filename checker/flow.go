package main

// Control-flow reasoning on the SSA CFG: branch facts that dominate a program point (GUARD),
// path searches that avoid a class of instructions (MUSTPASS), diverging-function summaries (NORETURN).

import (
	"go/token"
	"go/types"

	"golang.org/x/tools/go/ssa"
)

// ---------- NORETURN ----------

type flowCtx struct {
	w        *World
	noreturn map[*ssa.Function]bool
}

var externNoReturn = map[string]bool{
	"os.Exit": true, "log.Fatal": true, "log.Fatalf": true, "log.Fatalln": true,
	"(*log.Logger).Fatal": true, "(*log.Logger).Fatalf": true, "(*log.Logger).Fatalln": true,
	"runtime.Goexit": true,
}

func newFlowCtx(w *World) *flowCtx {
	fc := &flowCtx{w: w, noreturn: map[*ssa.Function]bool{}}
	// fixpoint: a module function is diverging if no Return instruction is reachable from its entry
	// when calls to diverging functions cut the flow.
	for changed := true; changed; {
		changed = false
		for _, fn := range w.ModFuncs {
			if fc.noreturn[fn] || len(fn.Blocks) == 0 {
				continue
			}
			if !fc.canReturn(fn) {
				fc.noreturn[fn] = true
				changed = true
			}
		}
	}
	return fc
}

func (fc *flowCtx) diverges(i ssa.Instruction) bool {
	switch x := i.(type) {
	case *ssa.Panic:
		return true
	case *ssa.Call:
		if f := calleeFunc(&x.Call); f != nil && fc.noreturn[f] {
			return true
		}
		if externNoReturn[calleeName(&x.Call)] {
			return true
		}
	}
	return false
}

func (fc *flowCtx) canReturn(fn *ssa.Function) bool {
	seen := map[*ssa.BasicBlock]bool{}
	var visit func(b *ssa.BasicBlock) bool
	visit = func(b *ssa.BasicBlock) bool {
		if seen[b] {
			return false
		}
		seen[b] = true
		for _, i := range b.Instrs {
			if _, ok := i.(*ssa.Return); ok {
				return true
			}
			if fc.diverges(i) {
				return false
			}
		}
		for _, s := range b.Succs {
			if visit(s) {
				return true
			}
		}
		return false
	}
	return visit(fn.Blocks[0])
}

// ---------- program points ----------

type point struct {
	b *ssa.BasicBlock
	i int // index into b.Instrs
}

func pointOf(ins ssa.Instruction) point {
	b := ins.Block()
	for k, j := range b.Instrs {
		if j == ins {
			return point{b, k}
		}
	}
	return point{b, 0}
}

// pathAvoiding searches for a path from just after `from` (or from the function entry if from == nil) to an
// instruction satisfying target, along which no instruction satisfies avoid. Calls to diverging functions end a path.
// It returns the witness path (instructions with positions worth showing) or nil if there is no such path.
func (fc *flowCtx) pathAvoiding(fn *ssa.Function, from ssa.Instruction, target, avoid func(ssa.Instruction) bool) []ssa.Instruction {
	return fc.pathFrom(fn, from, target, avoid, nil)
}

// pathFrom is pathAvoiding with an additional predicate on CFG edges that must not be taken.
func (fc *flowCtx) pathFrom(fn *ssa.Function, from ssa.Instruction, target, avoid func(ssa.Instruction) bool, cutEdge func(pred, succ *ssa.BasicBlock) bool) []ssa.Instruction {
	type node struct {
		b     *ssa.BasicBlock
		start int
	}
	type visitKey struct {
		b     *ssa.BasicBlock
		start int
	}
	seen := map[visitKey]bool{}
	var witness []ssa.Instruction
	var dfs func(n node, trail []ssa.Instruction) bool
	dfs = func(n node, trail []ssa.Instruction) bool {
		k := visitKey{n.b, n.start}
		if seen[k] {
			return false
		}
		seen[k] = true
		for idx := n.start; idx < len(n.b.Instrs); idx++ {
			ins := n.b.Instrs[idx]
			if target(ins) {
				witness = append(append([]ssa.Instruction{}, trail...), ins)
				return true
			}
			if avoid != nil && avoid(ins) {
				return false
			}
			if fc.diverges(ins) {
				return false
			}
		}
		var last ssa.Instruction
		if len(n.b.Instrs) > 0 {
			last = n.b.Instrs[len(n.b.Instrs)-1]
		}
		for _, s := range n.b.Succs {
			if cutEdge != nil && cutEdge(n.b, s) {
				continue
			}
			t := trail
			if last != nil {
				t = append(append([]ssa.Instruction{}, trail...), last)
			}
			if dfs(node{s, 0}, t) {
				return true
			}
		}
		return false
	}
	var start node
	var trail []ssa.Instruction
	if from == nil {
		start = node{fn.Blocks[0], 0}
	} else {
		p := pointOf(from)
		start = node{p.b, p.i + 1}
		trail = []ssa.Instruction{from}
	}
	if dfs(start, trail) {
		return witness
	}
	return nil
}

// reachableFrom reports whether `to` can execute after `from` within fn.
func (fc *flowCtx) reachableFrom(fn *ssa.Function, from, to ssa.Instruction) bool {
	return fc.pathAvoiding(fn, from, func(i ssa.Instruction) bool { return i == to }, nil) != nil
}

func (fc *flowCtx) witnessStrings(path []ssa.Instruction) []string {
	var out []string
	last := ""
	for _, i := range path {
		s := fc.w.ipos(i)
		if s != last {
			out = append(out, s)
			last = s
		}
	}
	return out
}

// ---------- branch facts ----------

// A fact says: condition Cond evaluated to Val on every path to the point in question.
type fact struct {
	Cond ssa.Value
	Val  bool
}

// factsAt returns the branch facts that hold on entry to block b (from the chain of dominating single-predecessor edges).
func factsAtBlock(b *ssa.BasicBlock) []fact {
	var out []fact
	for x := b; x != nil; x = x.Idom() {
		if len(x.Preds) == 1 {
			p := x.Preds[0]
			if iff, ok := p.Instrs[len(p.Instrs)-1].(*ssa.If); ok && len(p.Succs) == 2 && p.Succs[0] != p.Succs[1] {
				out = append(out, fact{iff.Cond, p.Succs[0] == x})
			}
		}
	}
	return out
}

// factsOnEdge returns the facts that hold when control passes from pred to succ.
func factsOnEdge(pred, succ *ssa.BasicBlock) []fact {
	out := factsAtBlock(pred)
	if iff, ok := pred.Instrs[len(pred.Instrs)-1].(*ssa.If); ok && len(pred.Succs) == 2 && pred.Succs[0] != pred.Succs[1] {
		if pred.Succs[0] == succ {
			out = append(out, fact{iff.Cond, true})
		} else if pred.Succs[1] == succ {
			out = append(out, fact{iff.Cond, false})
		}
	}
	return out
}

func factsAt(i ssa.Instruction) []fact { return factsAtBlock(i.Block()) }

// A cmp is a normalised comparison `X op Y` that is known to be true.
type cmp struct {
	Op   token.Token // EQL NEQ LSS LEQ GTR GEQ
	X, Y ssa.Value
}

func negate(op token.Token) token.Token {
	switch op {
	case token.EQL:
		return token.NEQ
	case token.NEQ:
		return token.EQL
	case token.LSS:
		return token.GEQ
	case token.LEQ:
		return token.GTR
	case token.GTR:
		return token.LEQ
	case token.GEQ:
		return token.LSS
	}
	return token.ILLEGAL
}

func swapOp(op token.Token) token.Token {
	switch op {
	case token.LSS:
		return token.GTR
	case token.LEQ:
		return token.GEQ
	case token.GTR:
		return token.LSS
	case token.GEQ:
		return token.LEQ
	}
	return op
}

// trueCmps expands a fact into the comparisons known to be true (through negation !c).
// Boolean values that are not comparisons are returned as `v == true/false` with Y nil.
func trueCmps(f fact) []cmp {
	v, val := f.Cond, f.Val
	for {
		if u, ok := v.(*ssa.UnOp); ok && u.Op == token.NOT {
			v, val = u.X, !val
			continue
		}
		break
	}
	if b, ok := v.(*ssa.BinOp); ok {
		op := b.Op
		switch op {
		case token.EQL, token.NEQ, token.LSS, token.LEQ, token.GTR, token.GEQ:
			if !val {
				op = negate(op)
			}
			// normal form: a constant operand (nil, a number) goes to the right — `nil != err`, `0 == n` and
			// `err != nil`, `n == 0` are the same fact
			x, y := b.X, b.Y
			if _, xk := x.(*ssa.Const); xk {
				if _, yk := y.(*ssa.Const); !yk {
					x, y, op = y, x, swapOp(op)
				}
			}
			return []cmp{{op, x, y}}
		}
	}
	op := token.EQL
	if !val {
		op = token.NEQ
	}
	return []cmp{{Op: op, X: v, Y: nil}} // "v is true" / "v is false"
}

// cmpsAt lists all comparisons known true at instruction i.
func cmpsAt(i ssa.Instruction) []cmp {
	var out []cmp
	for _, f := range factsAt(i) {
		out = append(out, trueCmps(f)...)
	}
	return out
}

func cmpsOnEdge(pred, succ *ssa.BasicBlock) []cmp {
	var out []cmp
	for _, f := range factsOnEdge(pred, succ) {
		out = append(out, trueCmps(f)...)
	}
	return out
}

// sameValue: two SSA values denote the same runtime value: identical, or both loads of the same field path from the
// same root with no intervening store considered (used only for fields the rules separately show are not written),
// or equal after peeling.
func sameValue(a, b ssa.Value) bool {
	if a == b {
		return true
	}
	pa, pb := peel(a), peel(b)
	if pa == pb {
		return true
	}
	ca, oka := pa.(*ssa.Const)
	cb, okb := pb.(*ssa.Const)
	if oka && okb {
		if ca.Value == nil || cb.Value == nil {
			return ca.Value == nil && cb.Value == nil && types.Identical(ca.Type(), cb.Type())
		}
		return ca.Value.ExactString() == cb.Value.ExactString()
	}
	return false
}

// knownNonNil: v != nil holds at instruction `at` (dominating branch fact, or v is by construction non-nil).
func knownNonNil(v ssa.Value, at ssa.Instruction) bool {
	if nonNilByConstruction(v) {
		return true
	}
	for _, c := range cmpsAt(at) {
		if c.Op == token.NEQ && c.Y != nil && ((sameValue(c.X, v) && isNilConst(c.Y)) || (sameValue(c.Y, v) && isNilConst(c.X))) {
			return true
		}
	}
	return false
}

func nonNilByConstruction(v ssa.Value) bool {
	switch x := peel(v).(type) {
	case *ssa.Alloc, *ssa.MakeMap, *ssa.MakeSlice, *ssa.MakeChan, *ssa.MakeClosure, *ssa.Function, *ssa.FieldAddr, *ssa.IndexAddr, *ssa.Global:
		return true
	case *ssa.MakeInterface:
		return true
	case *ssa.Phi:
		_ = x
	}
	return false
}

// okGuarded: the comma-ok flag `ok` is known true at `at`.
func knownTrue(v ssa.Value, at ssa.Instruction) bool {
	for _, c := range cmpsAt(at) {
		if c.Y == nil && c.Op == token.EQL && sameValue(c.X, v) {
			return true
		}
	}
	return false
}

func knownFalse(v ssa.Value, at ssa.Instruction) bool {
	for _, c := range cmpsAt(at) {
		if c.Y == nil && c.Op == token.NEQ && sameValue(c.X, v) {
			return true
		}
	}
	return false
}

// isLenOf: v is len(x) (builtin) of a value that is sameValue with x.
func isLenOf(v ssa.Value, x ssa.Value) bool {
	c, ok := peelConv(v).(*ssa.Call)
	if !ok {
		return false
	}
	if b, ok := c.Call.Value.(*ssa.Builtin); !ok || b.Name() != "len" {
		return false
	}
	return sameValue(c.Call.Args[0], x) || sameSliceSource(c.Call.Args[0], x)
}

func sameSliceSource(a, b ssa.Value) bool {
	pa, pb := path(a), path(b)
	if pa.Root != pb.Root || len(pa.Steps) != len(pb.Steps) {
		return false
	}
	for i := range pa.Steps {
		if pa.Steps[i] != pb.Steps[i] {
			return false
		}
	}
	return pa.Root != nil
}

// ---------- length guards ----------

// lenAtLeast: at instruction `at`, len(s) >= need is implied by a dominating branch fact
// (len(s) == c, len(s) >= c, len(s) > c, len(s) != 0, or their negated forms from early returns), for the slice value s or a
// re-slice s[lo:] of a guarded base with constant lo.
func lenAtLeast(s ssa.Value, need int64, at ssa.Instruction) bool {
	base, lo := s, int64(0)
	// s[lo:hi] with constant bounds has exactly hi-lo elements once the slice expression itself has been evaluated
	// (that it does not panic is the business of whoever checks the re-slicing)
	if sl, ok := s.(*ssa.Slice); ok && sl.High != nil {
		if hi, ok := constInt(sl.High); ok {
			l, lok := int64(0), sl.Low == nil
			if sl.Low != nil {
				l, lok = constInt(sl.Low)
			}
			if lok && hi-l >= need {
				return true
			}
		}
	}
	if sl, ok := s.(*ssa.Slice); ok && sl.High == nil && sl.Max == nil {
		if sl.Low == nil {
			base = sl.X
		} else if k, ok := constInt(sl.Low); ok {
			base, lo = sl.X, k
		}
	}
	for _, c := range cmpsAt(at) {
		if c.Y == nil {
			continue
		}
		x, y, op := c.X, c.Y, c.Op
		if _, isK := constInt(x); isK {
			x, y, op = y, x, swapOp(op)
		}
		k, isK := constInt(y)
		if !isK || !(isLenOf(x, base) || isLenOf(x, s)) {
			continue
		}
		eff := k - lo
		if isLenOf(x, s) && !isLenOf(x, base) {
			eff = k
		}
		switch op {
		case token.EQL, token.GEQ:
			if eff >= need {
				return true
			}
		case token.GTR:
			if eff+1 >= need {
				return true
			}
		case token.NEQ:
			// len(s) != 0 (the negated `len(s) == 0` of an emptiness test): at least one element
			if k == 0 && 1-lo >= need {
				return true
			}
		}
	}
	return false
}

// sameFieldLoad: a and b are loads of the same field of the same object and no store to that field lies on a path between them.
func (fc *flowCtx) sameFieldLoad(a, b ssa.Value) bool {
	if a == b {
		return true
	}
	la, ok1 := a.(*ssa.UnOp)
	lb, ok2 := b.(*ssa.UnOp)
	if !ok1 || !ok2 || la.Op != token.MUL || lb.Op != token.MUL {
		return false
	}
	fa, ok1 := la.X.(*ssa.FieldAddr)
	fb, ok2 := lb.X.(*ssa.FieldAddr)
	if !ok1 || !ok2 || fieldOf(fa.X.Type(), fa.Field) != fieldOf(fb.X.Type(), fb.Field) || !sameFieldBase(fa, fb) {
		return false
	}
	fn := la.Parent()
	if fn != lb.Parent() {
		return false
	}
	fld := fieldOf(fa.X.Type(), fa.Field)
	isStore := func(i ssa.Instruction) bool {
		st, ok := i.(*ssa.Store)
		if !ok {
			return false
		}
		sfa, ok := st.Addr.(*ssa.FieldAddr)
		return ok && fieldOf(sfa.X.Type(), sfa.Field) == fld
	}
	// any store between a and b (in either order)?
	for _, pr := range [][2]ssa.Instruction{{la, lb}, {lb, la}} {
		stores := false
		allInstrs(fn, func(i ssa.Instruction) {
			if isStore(i) && fc.reachableFrom(fn, pr[0], i) && fc.reachableFrom(fn, i, pr[1]) {
				stores = true
			}
		})
		if stores {
			return false
		}
	}
	return true
}

// nonNilAt: v != nil is known at `at`, also when the guard compared another load of the same field.
func (fc *flowCtx) nonNilAt(v ssa.Value, at ssa.Instruction) bool {
	if knownNonNil(v, at) {
		return true
	}
	for _, c := range cmpsAt(at) {
		if c.Op != token.NEQ || c.Y == nil {
			continue
		}
		var other ssa.Value
		if isNilConst(c.Y) {
			other = c.X
		} else if isNilConst(c.X) {
			other = c.Y
		} else {
			continue
		}
		if fc.sameFieldLoad(peel(other), peel(v)) {
			return true
		}
	}
	return false
}

// ---------- error flow ----------

// errOutcome describes how the error result of a call is treated.
type errOutcome struct {
	ok      bool
	msg     string
	site    ssa.Instruction
	witness []ssa.Instruction
}

// isSuccessReturn: a Return whose last result (type error) is the nil constant.
func isSuccessReturn(i ssa.Instruction) bool {
	ret, ok := i.(*ssa.Return)
	if !ok || isRecoverBlockReturn(ret) {
		return false
	}
	n := len(ret.Results)
	if n == 0 {
		return false
	}
	sig := ret.Parent().Signature.Results()
	if !isErrorType(sig.At(n - 1).Type()) {
		return false
	}
	return isNilConst(retVals(ret)[n-1])
}

func isErrorReturn(i ssa.Instruction) bool {
	ret, ok := i.(*ssa.Return)
	if !ok || isRecoverBlockReturn(ret) {
		return false
	}
	n := len(ret.Results)
	if n == 0 {
		return false
	}
	sig := ret.Parent().Signature.Results()
	if !isErrorType(sig.At(n - 1).Type()) {
		return false
	}
	return !isNilConst(retVals(ret)[n-1])
}

// errPropagated: the error value e (result of a call in fn) is tested against nil, and once it is known to be non-nil
// control can neither reach a success return of fn nor come back to the call (a `continue`).
// allowEOF accepts `errors.Is(e, io.EOF)`/`e == io.EOF` as the one permitted non-propagating branch.
func (fc *flowCtx) errPropagated(fn *ssa.Function, call ssa.Instruction, e ssa.Value) errOutcome {
	return fc.errPropagatedExcept(fn, call, e, nil)
}

// errPropagatedExcept: as errPropagated, but edges satisfying cutEdge are legitimate ways out of the error branch
// (e.g. the `errors.Is(err, io.EOF)` branch of a read loop).
func (fc *flowCtx) errPropagatedExcept(fn *ssa.Function, call ssa.Instruction, e ssa.Value, cutEdge func(pred, succ *ssa.BasicBlock) bool) errOutcome {
	if e == nil {
		return errOutcome{false, "the error result is discarded", call, nil}
	}
	// find the branch targets where e != nil is known: the successor of an `if` on the edge on which its condition says
	// so. The target may be a join block (the exit of `for …; err == nil && ok; …` is entered from both operands of the
	// &&): what matters is that control can get there with the error known to be set.
	var errBlocks []*ssa.BasicBlock
	for _, p := range fn.Blocks {
		iff, ok := p.Instrs[len(p.Instrs)-1].(*ssa.If)
		if !ok || len(p.Succs) != 2 || p.Succs[0] == p.Succs[1] {
			continue
		}
		for k, b := range p.Succs {
			for _, c := range trueCmps(fact{iff.Cond, k == 0}) {
				if c.Op == token.NEQ && c.Y != nil && (((sameValue(c.X, e) || phiIncludes(c.X, e)) && isNilConst(c.Y)) || ((sameValue(c.Y, e) || phiIncludes(c.Y, e)) && isNilConst(c.X))) {
					errBlocks = append(errBlocks, b)
				}
			}
		}
	}
	if len(errBlocks) == 0 {
		// not tested: acceptable only if e is returned directly as the function's error on every path
		allRet := true
		n := 0
		for _, r := range usesOf(e) {
			switch x := r.(type) {
			case *ssa.Return:
				n++
				_ = x
			case *ssa.Store:
				// result cell of a function with defers
				n++
			case *ssa.Phi:
				n++
			case *ssa.Call:
				// the error is also shown to something (a logger, a metrics hook) before it is returned: reading it does not
				// consume it — unless it is the callee of the call
				if x.Call.Value == e {
					allRet = false
				}
			case *ssa.DebugRef:
			default:
				allRet = false
			}
		}
		if n > 0 && allRet {
			return errOutcome{true, "returned to the caller", call, nil}
		}
		return errOutcome{false, "the error is never compared with nil", call, nil}
	}
	for _, b := range errBlocks {
		first := b.Instrs[0]
		bad := func(i ssa.Instruction) bool { return isSuccessReturn(i) || i == call }
		// search from the first instruction of the error branch (inclusive)
		if bad(first) {
			return errOutcome{false, "the error branch returns success", first, nil}
		}
		if p := fc.pathFrom(fn, first, bad, nil, cutEdge); p != nil {
			lastI := p[len(p)-1]
			msg := "with the error known to be non-nil, control reaches a successful return: the failure is swallowed"
			if lastI == call {
				msg = "with the error known to be non-nil, control goes back to the call (the failing item is skipped silently)"
			}
			return errOutcome{false, msg, lastI, p}
		}
	}
	return errOutcome{true, "tested against nil; the non-nil branch only reaches error returns", call, nil}
}

// pathAvoidingEdges searches a path from the function entry to an instruction satisfying target that never takes a CFG
// edge satisfying cutEdge and never passes an instruction satisfying avoid; diverging calls end a path. Returns the
// blocks' terminators as witness, or nil.
func (fc *flowCtx) pathAvoidingEdges(fn *ssa.Function, target func(ssa.Instruction) bool, avoid func(ssa.Instruction) bool, cutEdge func(pred, succ *ssa.BasicBlock) bool) []ssa.Instruction {
	seen := map[*ssa.BasicBlock]bool{}
	var witness []ssa.Instruction
	var dfs func(b *ssa.BasicBlock, trail []ssa.Instruction) bool
	dfs = func(b *ssa.BasicBlock, trail []ssa.Instruction) bool {
		if seen[b] {
			return false
		}
		seen[b] = true
		for _, ins := range b.Instrs {
			if target(ins) {
				witness = append(append([]ssa.Instruction{}, trail...), ins)
				return true
			}
			if avoid != nil && avoid(ins) {
				return false
			}
			if fc.diverges(ins) {
				return false
			}
		}
		last := b.Instrs[len(b.Instrs)-1]
		for _, s := range b.Succs {
			if cutEdge != nil && cutEdge(b, s) {
				continue
			}
			if dfs(s, append(append([]ssa.Instruction{}, trail...), last)) {
				return true
			}
		}
		return false
	}
	if dfs(fn.Blocks[0], nil) {
		return witness
	}
	return nil
}

// ---------- symbolic equality of loads, linear forms, index bounds ----------

// samePathLoad: a and b are loads from the same access path (same root, same fields) and no store to a field of that
// path lies on a CFG path between the two loads.
func (fc *flowCtx) samePathLoad(a, b ssa.Value) bool {
	if a == b {
		return true
	}
	la, ok1 := a.(*ssa.UnOp)
	lb, ok2 := b.(*ssa.UnOp)
	if !ok1 || !ok2 || la.Op != token.MUL || lb.Op != token.MUL || la.Parent() != lb.Parent() {
		return false
	}
	pa, pb := path(la.X), path(lb.X)
	if len(pa.Steps) != len(pb.Steps) || len(pa.Steps) == 0 || !rootSame(pa.Root, pb.Root) {
		return false
	}
	flds := map[*types.Var]bool{}
	for i := range pa.Steps {
		if pa.Steps[i] != pb.Steps[i] {
			return false
		}
		if pa.Steps[i].Elem {
			return false // element accesses with possibly different indices
		}
		if pa.Steps[i].Field != nil {
			flds[pa.Steps[i].Field] = true
		}
	}
	fn := la.Parent()
	var stores []ssa.Instruction
	allInstrs(fn, func(i ssa.Instruction) {
		if st, ok := i.(*ssa.Store); ok {
			if fa, ok := st.Addr.(*ssa.FieldAddr); ok && flds[fieldOf(fa.X.Type(), fa.Field)] {
				stores = append(stores, i)
			}
		}
	})
	for _, st := range stores {
		if (fc.reachableFrom(fn, la, st) && fc.reachableFrom(fn, st, lb)) || (fc.reachableFrom(fn, lb, st) && fc.reachableFrom(fn, st, la)) {
			return false
		}
	}
	return true
}

// lin normalises v to base + off (through numeric conversions and +/- constants).
func lin(v ssa.Value) (ssa.Value, int64) {
	off := int64(0)
	for n := 0; n < 16; n++ {
		switch x := v.(type) {
		case *ssa.Convert:
			v = x.X
			continue
		case *ssa.ChangeType:
			v = x.X
			continue
		case *ssa.BinOp:
			if k, ok := constInt(x.Y); ok {
				if x.Op == token.ADD {
					off += k
					v = x.X
					continue
				}
				if x.Op == token.SUB {
					off -= k
					v = x.X
					continue
				}
			}
			if k, ok := constInt(x.X); ok && x.Op == token.ADD {
				off += k
				v = x.Y
				continue
			}
		}
		break
	}
	return v, off
}

func (fc *flowCtx) sameBase(a, b ssa.Value) bool {
	return sameValue(a, b) || fc.samePathLoad(a, b)
}

// indexInBounds: at `at`, 0 <= idx < len(s) follows from dominating branch facts.
func (fc *flowCtx) indexInBounds(s, idx ssa.Value, at ssa.Instruction) (bool, string) {
	ib, io := lin(idx)
	upper, lower := false, false
	if k, ok := constInt(idx); ok && k >= 0 {
		lower = true
	}
	if b, ok := ib.Type().Underlying().(*types.Basic); ok && b.Info()&types.IsUnsigned != 0 && io >= 0 {
		lower = true
	}
	for _, c := range cmpsAt(at) {
		if c.Y == nil {
			continue
		}
		x, y, op := c.X, c.Y, c.Op
		// orient: x op len(s)
		if isLenOfAny(fc, x, s) {
			x, y, op = y, x, swapOp(op)
		}
		if isLenOfAny(fc, y, s) {
			xb, xo := lin(x)
			if fc.sameBase(xb, ib) {
				switch op {
				case token.LSS: // xb+xo < len  => ib+io < len if io <= xo
					if io <= xo {
						upper = true
					}
				case token.LEQ: // xb+xo <= len => ib+io < len if io < xo
					if io < xo {
						upper = true
					}
				}
			}
			continue
		}
		// lower bounds: x op const
		if k, ok := constInt(y); ok {
			xb, xo := lin(x)
			if fc.sameBase(xb, ib) {
				switch op {
				case token.GTR: // xb+xo > k => xb >= k+1-xo => ib+io >= k+1-xo+io
					if k+1-xo+io >= 0 {
						lower = true
					}
				case token.GEQ:
					if k-xo+io >= 0 {
						lower = true
					}
				}
			}
		}
		if k, ok := constInt(x); ok {
			yb, yo := lin(y)
			if fc.sameBase(yb, ib) {
				switch op {
				case token.LSS: // k < yb+yo
					if k+1-yo+io >= 0 {
						lower = true
					}
				case token.LEQ:
					if k-yo+io >= 0 {
						lower = true
					}
				}
			}
		}
	}
	// range-loop induction variable: phi(-1, phi+1) compared `< len` — lower bound by construction
	if lb, ok := phiLower(ib); ok && lb+io >= 0 {
		lower = true
	}
	switch {
	case upper && lower:
		return true, ""
	case !upper:
		return false, "no dominating test bounds the index by the slice's length"
	default:
		return false, "no dominating test shows the index is non-negative"
	}
}

func isLenOfAny(fc *flowCtx, v, s ssa.Value) bool {
	c, ok := peelConv(v).(*ssa.Call)
	if !ok {
		return false
	}
	if b, ok := c.Call.Value.(*ssa.Builtin); !ok || b.Name() != "len" {
		return false
	}
	a := c.Call.Args[0]
	if sameValue(a, s) || sameSliceSource(a, s) || fc.samePathLoad(a, s) || cellSame(a, s) {
		return true
	}
	// s = make([]T, len(a)): len(s) == len(a) (slices are never shortened in place)
	if ms, ok := peel(s).(*ssa.MakeSlice); ok {
		if lc, ok := peelConv(ms.Len).(*ssa.Call); ok {
			if b, ok := lc.Call.Value.(*ssa.Builtin); ok && b.Name() == "len" {
				a2 := lc.Call.Args[0]
				if sameValue(a, a2) || sameSliceSource(a, a2) || fc.samePathLoad(a, a2) || cellSame(a, a2) {
					return true
				}
			}
		}
	}
	return false
}

// cellSame: loads of the same local/captured variable cell that is stored exactly once (parameters captured by closures).
func cellSame(a, b ssa.Value) bool {
	la, ok1 := a.(*ssa.UnOp)
	lb, ok2 := b.(*ssa.UnOp)
	if !ok1 || !ok2 || la.Op != token.MUL || lb.Op != token.MUL {
		return false
	}
	ca, cb := peelCell(la.X), peelCell(lb.X)
	if ca != cb {
		return false
	}
	if _, ok := ca.(*ssa.Alloc); !ok {
		return false
	}
	stores, esc := cellStores(ca)
	return !esc && len(stores) == 1
}

// phiLower: if v is a loop counter phi(c0, v+1) (go/ssa's range loops start at -1 and pre-increment; plain for loops
// start at their initial constant), returns c0, a lower bound of v.
func phiLower(v ssa.Value) (int64, bool) {
	phi, ok := v.(*ssa.Phi)
	if !ok {
		return 0, false
	}
	lb, have := int64(0), false
	for _, e := range phi.Edges {
		if b, ok := e.(*ssa.BinOp); ok && b.Op == token.ADD && b.X == ssa.Value(phi) {
			if k, isK := constInt(b.Y); isK && k >= 0 {
				continue
			}
		}
		k, isK := constInt(e)
		if !isK {
			return 0, false
		}
		if !have || k < lb {
			lb, have = k, true
		}
	}
	return lb, have
}
