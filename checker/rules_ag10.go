package main

// progShape — the unexported entities of package updog, internal/convert, driver and cmd/updog that the rules reason
// about, resolved ONCE per run from the shape of the program instead of from identifiers (the sibling of parserShape in
// rules_ag5.go, which does the same for the query parser).
//
// Exported names are API (OpenIndex, Execute, ExprAnd.Exprs, Result.Count, the gob fields Columns/Values of the schema,
// the database/sql/driver interface methods, generated protobuf names): they are stable and stay name-anchored in
// anchors.go. Everything unexported is free to change in any refactoring (getValueIndex→hashPair, schema→catalog,
// nextRowID→rowTotal, fileConn→localConn …). A rule that looks such an entity up by name either raises an alarm on the
// rename or — worse — quietly stops applying. Here every entity has a structural definition (what it does, which types
// it connects); today's identifier is only the first guess (taken when it exists and still has the — loose — defining
// shape, so that on an unrenamed tree every rule sees exactly what it saw before, also on a tree whose defect destroyed
// the strict shape) and the tie-breaker between several structural candidates. An entity that is found neither way stays
// nil, its reason is recorded in why[role], and the rules that need it report `undecided` through (*Ctx).need — never a
// silent ok.
//
// Definitions (package updog):
//   eval / cacheKey    the methods of the exported Expression interface with the signatures func(*Index) (*roaring.Bitmap,
//                      error) and func() uint64; implementations necessarily carry the same name
//   getter interface   the interface type of an Index field whose single method yields (*roaring.Bitmap, error); GetCol = that
//                      method; preloaded / on-demand getter = its implementers holding a map / the *bbolt.DB; the preloading
//                      constructor = the package-level function that allocates the preloaded getter
//   schema type        the struct type behind an Index field that the open function gob-decodes or a writer gob-encodes;
//                      column type = element type of its exported Columns map; schema.add = its (string, string) uint64
//                      method that the writers' AddRow call
//   value-index hash   the package-level func(string, string) uint64 (several: the one schema.add and the equality test call)
//   key globals        the package-level []byte variables, told apart by what is done with them at the Bucket.Get/Put/Seek
//                      sites: value prefix = base of an append / bytes.HasPrefix / Cursor.Seek; row-counter key = its item is
//                      Uint32-decoded / a 4-byte buffer is put; schema key = its item is wrapped in a reader / a
//                      bytes.Buffer's content is put
//   row counters       the integer field of Index (several: the one stored while opening from a Uint32 decode) and of each
//                      writer (several: the one AddRow increments); a field of a struct the type holds BY VALUE (an embedded
//                      `header{schema; nextRowID}`) counts as a field of the type — the same *types.Var may then be the
//                      counter of all three types, and the rules tell the objects apart by the type the field is selected
//                      from (rules_ag13.go: holderType / srcHolder / lastFieldHolder)
//   LRU                item type = the struct type the cache methods type-assert list values to; maxSize = the integer field
//                      the constructor stores its parameter in, curSize = the other integer field (stored by Put); item key =
//                      the integer field used as key of delete(entries, …) / initialised from Put's key, item size = the one
//                      assigned from GetSizeInBytes()
//   group-by           value type = the struct whose uint64 field is passed to the getter in code reached from Execute
//                      (Idx; Value = its string field); level type = the struct with a slice of value types (Values; Column =
//                      its string field); partial group = the struct with a bitmap and a []ResultField
// (internal/convert)   toExpr = the func(*proto.Query_Expression) (updog.Expression, error) that ToQuery calls
// (driver)             driver type = what init passes to sql.Register; openFile = what its Open calls and that reaches
//                      updog.OpenIndex; file connection = the driver.Conn implementer holding an *updog.Index; statement types
//                      = implementers of driver.Stmt (file statement = the one pointing to the file connection); query = the
//                      ([]string) (driver.Rows, error) method their exported Query calls; numInput = the package-level func
//                      NumInput returns the result of; rows type = implementer of driver.Rows, newRows = the package-level
//                      function that allocates it; cols = its []string field; row = element type of its slice-of-struct
//                      field (fields = the []string, count = the uint64)
// (cmd/updog)          createCmd = the function calling updog.NewIndexWriter / NewBigIndexWriter; normalizeHeader = the
//                      func([]string) []string it (or a helper) calls; server = implementer of the generated
//                      QueryServiceServer; serverCmd = the function calling grpc.NewServer; schemaCmd = the one calling
//                      (*Index).GetSchema

import (
	"fmt"
	"go/token"
	"go/types"
	"io"
	"reflect"
	"sort"
	"strings"

	"golang.org/x/tools/go/ssa"
)

// The resolved names of the unexported interface methods. They are package-level because the small call recognisers
// that need them (evalCallElem, childKeyCalls, cacheCalls …) are plain functions; resolveAnchors sets them on every run.
var (
	evalName   = "eval"
	keyName    = "cacheKey"
	getColName = "GetCol"
)

type progShape struct {
	c   *Ctx
	a   *Anchors
	why map[string]string

	rootFns, convFns, drvFns, cmdFns []*ssa.Function // package-level functions and methods (no literals), with bodies
	rootAll                          []*ssa.Function // … of package updog including function literals
}

func (sh *progShape) note(role, why string) {
	if sh.why[role] == "" {
		sh.why[role] = why
	}
}

// whyText: the reasons recorded for unresolved roles, for the undecided message of (*Ctx).need.
func (sh *progShape) whyText() string {
	var roles []string
	for r := range sh.why {
		roles = append(roles, r)
	}
	sort.Strings(roles)
	out := ""
	for _, r := range roles {
		out += "; " + r + ": " + sh.why[r]
	}
	return out
}

// dump prints every role with the entity it resolved to (debug aid: `updogcheck -anchors -repo <tree>`); on a renamed
// tree the right-hand sides change and nothing else.
func (a *Anchors) dump(out io.Writer) {
	rv := reflect.ValueOf(a).Elem()
	for i := 0; i < rv.NumField(); i++ {
		name := rv.Type().Field(i).Name
		if !rv.Type().Field(i).IsExported() {
			continue
		}
		switch x := rv.Field(i).Interface().(type) {
		case *ssa.Function:
			fmt.Fprintf(out, "%-16s %s\n", name, safeFname(x))
		case *types.Named:
			if x == nil {
				fmt.Fprintf(out, "%-16s <nil>\n", name)
			} else {
				fmt.Fprintf(out, "%-16s type %s\n", name, x.Obj().Name())
			}
		case *types.Var:
			if x == nil {
				fmt.Fprintf(out, "%-16s <nil>\n", name)
			} else if o := a.c.w.ownerOf(x); o != nil {
				fmt.Fprintf(out, "%-16s field %s.%s\n", name, o.Obj().Name(), x.Name())
			} else {
				fmt.Fprintf(out, "%-16s field %s\n", name, x.Name())
			}
		case *ssa.Global:
			if x == nil {
				fmt.Fprintf(out, "%-16s <nil>\n", name)
			} else {
				fmt.Fprintf(out, "%-16s var %s\n", name, x.Name())
			}
		case string:
			fmt.Fprintf(out, "%-16s %q\n", name, x)
		case []*types.Named:
			var ns []string
			for _, n := range x {
				ns = append(ns, n.Obj().Name())
			}
			fmt.Fprintf(out, "%-16s types %s\n", name, strings.Join(ns, " "))
		}
	}
	fmt.Fprintf(out, "missing: %s\n", joinStrings(a.missing))
	if a.SH != nil {
		fmt.Fprintf(out, "why%s\n", a.SH.whyText())
	}
}

// rowsFieldOf: the row counter field of the Index or of one of the writers.
func (a *Anchors) rowsFieldOf(T *types.Named) *types.Var {
	switch {
	case T == nil:
		return nil
	case T == a.IndexT:
		return a.IdxRowsF
	case T == a.MemWriterT:
		return a.MemRowsF
	case T == a.BigWriterT:
		return a.BigRowsF
	}
	return nil
}

// ---- generic "name first, then shape" choosers -------------------------------------------------------------------

// pickFn: the function called guess (looked up among pool) is taken if it exists and satisfies valid (the loose
// shape); otherwise the structural candidates decide — a single one is it, several are ambiguous, none leaves the
// role unresolved.
func (sh *progShape) pickFn(role, guess string, pool []*ssa.Function, valid func(*ssa.Function) bool, cands []*ssa.Function) *ssa.Function {
	if g := hasName(pool, guess); g != nil && valid(g) {
		return g
	}
	cands = uniqFns(cands)
	switch len(cands) {
	case 1:
		return cands[0]
	case 0:
		sh.note(role, "no function has the shape of this role")
	default:
		var names []string
		for _, f := range cands {
			names = append(names, safeFname(f))
		}
		sh.note(role, "several functions have the shape of this role: "+strings.Join(names, ", "))
	}
	return nil
}

func (sh *progShape) pickType(role, pkgPath, guess string, valid func(*types.Named) bool, cands []*types.Named) *types.Named {
	if g := sh.c.w.namedType(pkgPath, guess); g != nil && valid(g) {
		return g
	}
	cands = uniqNamed(cands)
	switch len(cands) {
	case 1:
		return cands[0]
	case 0:
		sh.note(role, "no type has the shape of this role")
	default:
		var names []string
		for _, n := range cands {
			names = append(names, n.Obj().Name())
		}
		sh.note(role, "several types have the shape of this role: "+strings.Join(names, ", "))
	}
	return nil
}

// pickField: the field of T called guess if it has the right type; otherwise the only field of the right type; if
// there are several, the only one among them that one of the narrowing predicates (tried in order) singles out. Fields
// of structs nested in T by value count as fields of T (today's name is looked for there too).
func (sh *progShape) pickField(role string, T *types.Named, guess string, typeOK func(types.Type) bool, narrow ...func(*types.Var) bool) *types.Var {
	if T == nil {
		sh.note(role, "the struct type that holds it was not found")
		return nil
	}
	if _, ok := T.Underlying().(*types.Struct); !ok {
		sh.note(role, T.Obj().Name()+" is not a struct")
		return nil
	}
	if f := structFieldNamed(T, guess); f != nil && typeOK(f.Type()) {
		return f
	}
	// the fields of T and of the structs T holds by value (an embedded `header{schema; nextRowID}`): the role may have been
	// bundled with others into a nested struct, its storage is still part of the T object (rules_ag13.go)
	var cands, named []*types.Var
	for _, f := range heldFields(T) {
		if typeOK(f.Type()) {
			cands = append(cands, f)
			if f.Name() == guess {
				named = append(named, f)
			}
		}
	}
	if len(named) == 1 {
		return named[0]
	}
	if len(cands) == 1 {
		return cands[0]
	}
	if len(cands) == 0 {
		sh.note(role, "no field of "+T.Obj().Name()+" has the type of this role")
		return nil
	}
	for _, nw := range narrow {
		var sel []*types.Var
		for _, f := range cands {
			if nw(f) {
				sel = append(sel, f)
			}
		}
		if len(sel) == 1 {
			return sel[0]
		}
	}
	var names []string
	for _, f := range cands {
		names = append(names, f.Name())
	}
	sh.note(role, "several fields of "+T.Obj().Name()+" have the type of this role and their use does not tell them apart: "+strings.Join(names, ", "))
	return nil
}

func uniqFns(fs []*ssa.Function) []*ssa.Function {
	seen := map[*ssa.Function]bool{}
	var out []*ssa.Function
	for _, f := range fs {
		if f != nil && !seen[f] {
			seen[f] = true
			out = append(out, f)
		}
	}
	return out
}

func uniqNamed(ns []*types.Named) []*types.Named {
	seen := map[*types.Named]bool{}
	var out []*types.Named
	for _, n := range ns {
		if n != nil && !seen[n] {
			seen[n] = true
			out = append(out, n)
		}
	}
	sortNamed(out)
	return out
}

// pkgNamedTypes: the named (non-alias) types declared in a module package, by name.
func pkgNamedTypes(w *World, pkgPath string) []*types.Named {
	p := w.Pkgs[pkgPath]
	if p == nil {
		return nil
	}
	var out []*types.Named
	sc := p.Types.Scope()
	for _, name := range sc.Names() {
		tn, ok := sc.Lookup(name).(*types.TypeName)
		if !ok || tn.IsAlias() {
			continue
		}
		if n, ok := tn.Type().(*types.Named); ok {
			out = append(out, n)
		}
	}
	return out
}

func (sh *progShape) pkgFns(pkgPath string, literals bool) []*ssa.Function {
	var out []*ssa.Function
	for _, fn := range sh.c.w.ModFuncs {
		if sh.c.w.pkgPathOf(fn) == pkgPath && fn.Blocks != nil && (literals || fn.Parent() == nil) {
			out = append(out, fn)
		}
	}
	return out
}

func methodsOfType(fs []*ssa.Function, T *types.Named) []*ssa.Function {
	if T == nil {
		return nil
	}
	return filterFns(fs, func(f *ssa.Function) bool {
		return f.Signature.Recv() != nil && namedOf(f.Signature.Recv().Type()) == T
	})
}

func pkgLevelFns(fs []*ssa.Function) []*ssa.Function {
	return filterFns(fs, func(f *ssa.Function) bool { return f.Signature.Recv() == nil && f.Parent() == nil })
}

// ---- small type predicates ------------------------------------------------------------------------------------------

func isBasicKind(t types.Type, k types.BasicKind) bool {
	b, ok := t.Underlying().(*types.Basic)
	return ok && b.Kind() == k
}

func isStringSlice(t types.Type) bool {
	sl, ok := t.Underlying().(*types.Slice)
	return ok && isBasicKind(sl.Elem(), types.String)
}

func isBitmapPtr(t types.Type) bool {
	_, isPtr := t.(*types.Pointer)
	return isPtr && typeIs(t, roaringPkg, "Bitmap")
}

func isStructNamed(n *types.Named) bool {
	if n == nil {
		return false
	}
	_, ok := n.Underlying().(*types.Struct)
	return ok
}

func isIfaceNamed(n *types.Named) bool {
	if n == nil {
		return false
	}
	_, ok := n.Underlying().(*types.Interface)
	return ok
}

// sigIs: the signature has exactly the given parameter and result predicates.
func sigIs(sig *types.Signature, params []func(types.Type) bool, results []func(types.Type) bool) bool {
	if sig == nil || sig.Params().Len() != len(params) || sig.Results().Len() != len(results) || sig.Variadic() {
		return false
	}
	for i, p := range params {
		if !p(sig.Params().At(i).Type()) {
			return false
		}
	}
	for i, r := range results {
		if !r(sig.Results().At(i).Type()) {
			return false
		}
	}
	return true
}

func tString(t types.Type) bool { return isBasicKind(t, types.String) }
func tUint64(t types.Type) bool { return isBasicKind(t, types.Uint64) }
func tInt(t types.Type) bool    { return isBasicKind(t, types.Int) }

// tInteger: any integer type — counters and sizes are found by their role, not by their width, so that widening one
// (uint32 -> uint64) together with a rename does not lose it
func tInteger(t types.Type) bool {
	b, ok := t.Underlying().(*types.Basic)
	return ok && b.Info()&types.IsInteger != 0
}
func tStrings(t types.Type) bool { return isStringSlice(t) }

// argValuesFields: the []string fields of t if t is a struct type of the driver package (passed by value) — the
// statement's argument values wrapped in a type of their own; nil otherwise.
func argValuesFields(t types.Type) []*types.Var {
	n, ok := types.Unalias(t).(*types.Named)
	if !ok || n.Obj().Pkg() == nil || n.Obj().Pkg().Path() != pkgDriver {
		return nil
	}
	return fieldsWhere(n, func(f *types.Var) bool { return isStringSlice(f.Type()) })
}

// argValuesType: the type in which a statement's query function receives the rendered argument values: []string, or a
// struct of the driver package with a []string field.
func argValuesType(t types.Type) bool { return isStringSlice(t) || len(argValuesFields(t)) > 0 }

// fieldsWhere: the fields of a named struct type that satisfy pred.
func fieldsWhere(n *types.Named, pred func(*types.Var) bool) []*types.Var {
	if n == nil {
		return nil
	}
	st, ok := n.Underlying().(*types.Struct)
	if !ok {
		return nil
	}
	var out []*types.Var
	for i := 0; i < st.NumFields(); i++ {
		if pred(st.Field(i)) {
			out = append(out, st.Field(i))
		}
	}
	return out
}

// storesTo: the Store instructions in fns whose address is field f of some object.
func storesTo(fns []*ssa.Function, f *types.Var) []*ssa.Store {
	var out []*ssa.Store
	instrsOf(fns, func(i ssa.Instruction) {
		if st, ok := i.(*ssa.Store); ok {
			if fa, ok := st.Addr.(*ssa.FieldAddr); ok && fieldOf(fa.X.Type(), fa.Field) == f {
				out = append(out, st)
			}
		}
	})
	return out
}

// callsAny: some call in fns (Call/Defer/Go) statically runs one of targets.
func callsAny(fns []*ssa.Function, targets ...*ssa.Function) bool {
	found := false
	instrsOf(fns, func(i ssa.Instruction) {
		if cc := callCommon(i); cc != nil {
			if f := calleeFunc(cc); f != nil {
				for _, t := range targets {
					if t != nil && f == t {
						found = true
					}
				}
			}
		}
	})
	return found
}

// ifaceMethod: the method of an interface called guess, else the only one whose signature satisfies shape.
func (sh *progShape) ifaceMethod(role string, iface *types.Named, guess string, shape func(*types.Signature) bool) *types.Func {
	if iface == nil {
		sh.note(role, "the interface that declares it was not found")
		return nil
	}
	it, ok := iface.Underlying().(*types.Interface)
	if !ok {
		sh.note(role, iface.Obj().Name()+" is not an interface")
		return nil
	}
	var cands []*types.Func
	for i := 0; i < it.NumMethods(); i++ {
		m := it.Method(i)
		if m.Name() == guess {
			return m
		}
		if sig, ok := m.Type().(*types.Signature); ok && shape(sig) {
			cands = append(cands, m)
		}
	}
	if len(cands) == 1 {
		return cands[0]
	}
	sh.note(role, "the interface "+iface.Obj().Name()+" has no single method with the signature of this role")
	return nil
}

// ---- resolution -------------------------------------------------------------------------------------------------------

// resolveProgShape fills the unexported roles of a. The exported anchors (Execute, OpenIndexFromBoltDatabase, the
// writers' methods, ToQuery …) are already resolved by name when it runs.
func resolveProgShape(c *Ctx, a *Anchors) *progShape {
	sh := &progShape{c: c, a: a, why: map[string]string{}}
	sh.rootFns = sh.pkgFns(pkgRoot, false)
	sh.rootAll = sh.pkgFns(pkgRoot, true)
	sh.convFns = sh.pkgFns(pkgConvert, false)
	sh.drvFns = sh.pkgFns(pkgDriver, false)
	sh.cmdFns = sh.pkgFns(pkgCmd, false)
	sh.resolveRoot()
	sh.resolveGroupBy()
	sh.resolveLRU()
	sh.resolveConvert()
	sh.resolveDriver()
	sh.resolveCmd()
	return sh
}

func (sh *progShape) scopeOf(fn *ssa.Function, depth int) []*ssa.Function {
	if fn == nil {
		return nil
	}
	return sh.c.scope(fn, depth)
}

func (sh *progShape) resolveRoot() {
	w, a := sh.c.w, sh.a

	// ---- the Expression interface's unexported methods
	evalM := sh.ifaceMethod("expr.eval", a.ExprIface, "eval", func(sig *types.Signature) bool {
		return sigIs(sig, []func(types.Type) bool{func(t types.Type) bool { return a.IndexT != nil && namedOf(t) == a.IndexT }},
			[]func(types.Type) bool{isBitmapPtr, isErrorType})
	})
	keyM := sh.ifaceMethod("expr.cachekey", a.ExprIface, "cacheKey", func(sig *types.Signature) bool {
		return sigIs(sig, nil, []func(types.Type) bool{tUint64})
	})
	a.EvalName, a.KeyName = "", ""
	if evalM != nil {
		a.EvalName = evalM.Name()
	}
	if keyM != nil {
		a.KeyName = keyM.Name()
	}

	// ---- column getters
	bitmapErr := func(sig *types.Signature) bool {
		return sig.Results().Len() == 2 && isBitmapPtr(sig.Results().At(0).Type()) && isErrorType(sig.Results().At(1).Type())
	}
	isGetterIface := func(n *types.Named) bool {
		if !isIfaceNamed(n) || n.Obj().Pkg() == nil || n.Obj().Pkg().Path() != pkgRoot {
			return false
		}
		it := n.Underlying().(*types.Interface)
		if it.NumMethods() != 1 {
			return false
		}
		sig, ok := it.Method(0).Type().(*types.Signature)
		return ok && bitmapErr(sig)
	}
	var gcands []*types.Named
	for _, f := range fieldsWhere(a.IndexT, func(*types.Var) bool { return true }) {
		if n, ok := types.Unalias(f.Type()).(*types.Named); ok && isGetterIface(n) {
			gcands = append(gcands, n)
		}
	}
	a.GetterIface = sh.pickType("getter.iface", pkgRoot, "colGetter", isIfaceNamed, gcands)
	a.GetColName = ""
	if m := sh.ifaceMethod("getter.getcol", a.GetterIface, "GetCol", bitmapErr); m != nil {
		a.GetColName = m.Name()
	}
	var impls []*types.Named
	if a.GetterIface != nil {
		for _, n := range w.implementers(pkgRoot, a.GetterIface) {
			if n.Obj().Pkg() != nil && n.Obj().Pkg().Path() == pkgRoot {
				impls = append(impls, n)
			}
		}
	}
	isImpl := func(n *types.Named) bool {
		for _, m := range impls {
			if m == n {
				return true
			}
		}
		return false
	}
	holds := func(pred func(types.Type) bool) func(*types.Named) bool {
		return func(n *types.Named) bool {
			return len(fieldsWhere(n, func(f *types.Var) bool { return pred(f.Type()) })) > 0
		}
	}
	isMap := func(t types.Type) bool { _, ok := t.Underlying().(*types.Map); return ok }
	var pre, ond []*types.Named
	for _, n := range impls {
		if holds(isMap)(n) {
			pre = append(pre, n)
		}
		if holds(isBoltDB)(n) {
			ond = append(ond, n)
		}
	}
	a.PreloadedT = sh.pickType("getter.preloaded", pkgRoot, "preloadedColGetter", isImpl, pre)
	a.OnDemandT = sh.pickType("getter.ondemand", pkgRoot, "onDemandColGetter", isImpl, ond)
	allocates := func(T *types.Named) func(*ssa.Function) bool {
		return func(f *ssa.Function) bool {
			found := false
			allInstrs(f, func(i ssa.Instruction) {
				if al, ok := i.(*ssa.Alloc); ok && T != nil && namedOf(al.Type()) == T {
					if p, ok := al.Type().(*types.Pointer); ok && types.Unalias(p.Elem()) == types.Type(T) {
						found = true
					}
				}
			})
			return found
		}
	}
	yields := func(f *ssa.Function, ts ...*types.Named) bool {
		res := f.Signature.Results()
		for i := 0; i < res.Len(); i++ {
			for _, t := range ts {
				if t != nil && namedOf(res.At(i).Type()) == t {
					return true
				}
			}
		}
		return false
	}
	rootLevel := pkgLevelFns(sh.rootFns)
	a.NewPreloaded = sh.pickFn("getter.preload.new", "newPreloadedColGetter", rootLevel,
		func(f *ssa.Function) bool { return yields(f, a.GetterIface, a.PreloadedT) },
		filterFns(rootLevel, func(f *ssa.Function) bool {
			return a.PreloadedT != nil && allocates(a.PreloadedT)(f) && yields(f, a.GetterIface, a.PreloadedT)
		}))

	// ---- schema type: what the open function gob-decodes into / what the writers gob-encode, held by the Index
	gobTypes := func(fns []*ssa.Function) []*types.Named {
		var out []*types.Named
		instrsOf(fns, func(i ssa.Instruction) {
			call, ok := i.(*ssa.Call)
			if !ok {
				return
			}
			switch calleeName(&call.Call) {
			case "(*encoding/gob.Decoder).Decode", "(*encoding/gob.Encoder).Encode":
			default:
				return
			}
			arg := call.Call.Args[len(call.Call.Args)-1]
			if mi, ok := arg.(*ssa.MakeInterface); ok {
				if n := namedOf(mi.X.Type()); n != nil && isStructNamed(n) && n.Obj().Pkg() != nil && n.Obj().Pkg().Path() == pkgRoot {
					out = append(out, n)
				}
			}
		})
		return out
	}
	heldBy := func(T *types.Named) func(*types.Named) bool {
		return func(n *types.Named) bool {
			// (directly or in a struct T holds by value)
			for _, f := range heldFields(T) {
				if namedOf(f.Type()) == n {
					return true
				}
			}
			return false
		}
	}
	var scands []*types.Named
	for _, n := range append(append(gobTypes(sh.scopeOf(a.OpenFromDB, 2)), gobTypes(sh.scopeOf(a.MemWrite, 2))...), gobTypes(sh.scopeOf(a.BigFlush, 2))...) {
		if heldBy(a.IndexT)(n) || heldBy(a.MemWriterT)(n) || heldBy(a.BigWriterT)(n) {
			scands = append(scands, n)
		}
	}
	a.SchemaT = sh.pickType("schema.type", pkgRoot, "schema", isStructNamed, scands)
	// column type: element type of the exported (gob) Columns map
	var ccands []*types.Named
	if cf := structFieldNamed(a.SchemaT, "Columns"); cf != nil {
		if m, ok := cf.Type().Underlying().(*types.Map); ok {
			if n := namedOf(m.Elem()); n != nil {
				ccands = append(ccands, n)
			}
		}
	}
	a.ColumnT = sh.pickType("schema.column", pkgRoot, "column", func(n *types.Named) bool {
		return isStructNamed(n) && (len(ccands) == 0 || ccands[0] == n)
	}, ccands)

	// ---- schema.add: the (column, value) -> index method of the schema that the writers' AddRow call
	smeths := methodsOfType(sh.rootFns, a.SchemaT)
	pairToIndex := func(f *ssa.Function) bool {
		return sigIs(f.Signature, []func(types.Type) bool{tString, tString}, []func(types.Type) bool{tUint64})
	}
	memScope, bigScope := sh.scopeOf(a.MemAddRow, 2), sh.scopeOf(a.BigAddRow, 2)
	both := filterFns(smeths, func(f *ssa.Function) bool {
		return pairToIndex(f) && callsAny(memScope, f) && callsAny(bigScope, f)
	})
	if len(both) == 0 {
		both = filterFns(smeths, func(f *ssa.Function) bool {
			return pairToIndex(f) && (callsAny(memScope, f) || callsAny(bigScope, f))
		})
	}
	a.SchemaAdd = sh.pickFn("schema.add", "add", smeths, func(f *ssa.Function) bool { return len(f.Params) == 3 }, both)

	// ---- the value-index hash
	pairFns := filterFns(rootLevel, pairToIndex)
	var eqEval *ssa.Function
	if eq := w.namedType(pkgRoot, "ExprEqual"); eq != nil && a.EvalName != "" {
		eqEval = a.methodOf(eq, a.EvalName)
	}
	if len(pairFns) > 1 {
		// several: the one the schema and the equality test agree on
		var voted []*ssa.Function
		for _, f := range pairFns {
			n := 0
			if a.SchemaAdd != nil && callsAny(sh.scopeOf(a.SchemaAdd, 1), f) {
				n++
			}
			if eqEval != nil && callsAny(sh.scopeOf(eqEval, 1), f) {
				n++
			}
			if n == 2 {
				voted = append(voted, f)
			}
		}
		if len(voted) > 0 {
			pairFns = voted
		}
	}
	a.GetValueIndex = sh.pickFn("hash.value", "getValueIndex", rootLevel, pairToIndex, pairFns)

	sh.resolveKeys()

	// ---- row counters
	open2 := sh.scopeOf(a.OpenFromDB, 2)
	a.IdxRowsF = sh.pickField("index.rows", a.IndexT, "nextRowID", tInteger, func(f *types.Var) bool {
		for _, st := range storesTo(open2, f) {
			if call, ok := peelConv(st.Val).(*ssa.Call); ok && strings.HasSuffix(calleeName(&call.Call), ".Uint32") {
				return true
			}
		}
		return false
	}, func(f *types.Var) bool { return len(storesTo(open2, f)) > 0 })
	incremented := func(scope []*ssa.Function) func(*types.Var) bool {
		return func(f *types.Var) bool {
			for _, st := range storesTo(scope, f) {
				if b, ok := peelConv(st.Val).(*ssa.BinOp); ok && b.Op == token.ADD {
					return true
				}
			}
			return false
		}
	}
	a.MemRowsF = sh.pickField("writer.mem.rows", a.MemWriterT, "nextRowID", tInteger, incremented(memScope))
	a.BigRowsF = sh.pickField("writer.big.rows", a.BigWriterT, "nextRowID", tInteger, incremented(bigScope))
}

// resolveKeys tells the three bbolt key variables apart by what the code does with them (see the header).
func (sh *progShape) resolveKeys() {
	w, a := sh.c.w, sh.a
	p := w.SSA[pkgRoot]
	if p == nil {
		return
	}
	var globals []*ssa.Global
	for _, m := range p.Members {
		if g, ok := m.(*ssa.Global); ok {
			if pt, ok := g.Type().(*types.Pointer); ok && isByteSlice(pt.Elem()) {
				globals = append(globals, g)
			}
		}
	}
	sort.Slice(globals, func(i, j int) bool { return globals[i].Name() < globals[j].Name() })
	score := map[*ssa.Global]map[string]int{}
	for _, g := range globals {
		score[g] = map[string]int{}
	}
	globalOf := func(v ssa.Value) *ssa.Global {
		for _, g := range globals {
			if isGlobalLoad(peel(v), g) {
				return g
			}
		}
		return nil
	}
	vote := func(v ssa.Value, kind string) {
		if g := globalOf(v); g != nil {
			score[g][kind]++
		}
	}
	instrsOf(sh.rootAll, func(i ssa.Instruction) {
		call, ok := i.(*ssa.Call)
		if !ok {
			return
		}
		args := call.Call.Args
		if b, ok := call.Call.Value.(*ssa.Builtin); ok {
			if b.Name() == "append" && len(args) == 2 {
				vote(args[0], "value")
			}
			return
		}
		switch calleeName(&call.Call) {
		case "bytes.HasPrefix":
			vote(args[1], "value")
		case "(*go.etcd.io/bbolt.Cursor).Seek":
			vote(args[1], "value")
		case "(*go.etcd.io/bbolt.Bucket).Get":
			for _, u := range usesOf(call) {
				uc, ok := u.(*ssa.Call)
				if !ok {
					continue
				}
				switch n := calleeName(&uc.Call); {
				case strings.HasSuffix(n, ".Uint32"):
					vote(args[1], "rows")
				case n == "bytes.NewReader" || n == "bytes.NewBuffer":
					vote(args[1], "schema")
				}
			}
		case boltPut:
			val := peel(args[2])
			if vc, ok := val.(*ssa.Call); ok && calleeName(&vc.Call) == "(*bytes.Buffer).Bytes" {
				vote(args[1], "schema")
			}
			if sl, ok := val.(*ssa.Slice); ok {
				if n, isArr := arrayLen(sl.X.Type()); isArr && n == 4 {
					vote(args[1], "rows")
				}
			}
		}
	})
	best := func(kind string, taken ...*ssa.Global) *ssa.Global {
		var out *ssa.Global
		top, tie := 0, false
	next:
		for _, g := range globals {
			for _, t := range taken {
				if t == g {
					continue next
				}
			}
			switch s := score[g][kind]; {
			case s > top:
				out, top, tie = g, s, false
			case s == top && s > 0:
				tie = true
			}
		}
		if tie {
			return nil
		}
		return out
	}
	byName := func(name string) *ssa.Global {
		for _, g := range globals {
			if g.Name() == name {
				return g
			}
		}
		return nil
	}
	a.KeyValue = byName("keyPrefixValue")
	a.KeySchema = byName("keySchema")
	a.KeyRows = byName("keyNextRowID")
	if a.KeyValue == nil {
		a.KeyValue = best("value", a.KeySchema, a.KeyRows)
	}
	if a.KeyRows == nil {
		a.KeyRows = best("rows", a.KeyValue, a.KeySchema)
	}
	if a.KeySchema == nil {
		a.KeySchema = best("schema", a.KeyValue, a.KeyRows)
	}
	// by elimination, when exactly one []byte variable and one role are left
	rest := func() []*ssa.Global {
		var out []*ssa.Global
		for _, g := range globals {
			if g != a.KeyValue && g != a.KeyRows && g != a.KeySchema {
				out = append(out, g)
			}
		}
		return out
	}
	if r := rest(); len(r) == 1 {
		switch {
		case a.KeyValue != nil && a.KeyRows != nil && a.KeySchema == nil:
			a.KeySchema = r[0]
		case a.KeyValue != nil && a.KeySchema != nil && a.KeyRows == nil:
			a.KeyRows = r[0]
		}
	}
	for role, g := range map[string]*ssa.Global{"key.schema": a.KeySchema, "key.rows": a.KeyRows, "key.value": a.KeyValue} {
		if g == nil {
			sh.note(role, "no package-level []byte variable is used the way this key is (Bucket.Get/Put/Seek sites)")
		}
	}
}

func (sh *progShape) resolveLRU() {
	a := sh.a
	lruMeths := []*ssa.Function{a.LRUGet, a.LRUPut}
	var scope []*ssa.Function
	for _, m := range lruMeths {
		scope = append(scope, sh.scopeOf(m, 1)...)
	}
	// item type: what the list values are asserted to
	var icands []*types.Named
	instrsOf(scope, func(i ssa.Instruction) {
		if ta, ok := i.(*ssa.TypeAssert); ok {
			if n := namedOf(ta.AssertedType); n != nil && isStructNamed(n) && n.Obj().Pkg() != nil && n.Obj().Pkg().Path() == pkgRoot {
				icands = append(icands, n)
			}
		}
	})
	a.LRUItemT = sh.pickType("cache.lru.item", pkgRoot, "lruCacheItem", isStructNamed, icands)

	// sizes: the limit is what the constructor stores its parameter in; the running total is the other one
	newScope := sh.scopeOf(a.NewLRU, 1)
	fromParam := func(f *types.Var) bool {
		for _, st := range storesTo(newScope, f) {
			if _, ok := peelConv(st.Val).(*ssa.Parameter); ok {
				return true
			}
		}
		return false
	}
	a.LRUMaxF = sh.pickField("cache.lru.max", a.LRUT, "maxSize", tInteger, fromParam)
	putScope := sh.scopeOf(a.LRUPut, 1)
	a.LRUCurF = sh.pickField("cache.lru.cur", a.LRUT, "curSize", tInteger,
		func(f *types.Var) bool { return f != a.LRUMaxF && a.LRUMaxF != nil },
		func(f *types.Var) bool { return f != a.LRUMaxF && len(storesTo(putScope, f)) > 0 })
	if a.LRUCurF != nil && a.LRUCurF == a.LRUMaxF {
		a.LRUCurF = nil
		sh.note("cache.lru.cur", "the running size and the limit resolve to the same field")
	}

	// item fields
	var keyParam ssa.Value
	if a.LRUPut != nil && len(a.LRUPut.Params) >= 2 {
		keyParam = a.LRUPut.Params[1]
	}
	isDeleteKey := func(f *types.Var) bool {
		found := false
		instrsOf(putScope, func(i ssa.Instruction) {
			if call, ok := i.(*ssa.Call); ok {
				if b, ok := call.Call.Value.(*ssa.Builtin); ok && b.Name() == "delete" && len(call.Call.Args) == 2 && srcField(call.Call.Args[1]) == f {
					found = true
				}
			}
		})
		return found
	}
	fromKeyParam := func(f *types.Var) bool {
		for _, st := range storesTo(putScope, f) {
			if keyParam != nil && peel(st.Val) == keyParam {
				return true
			}
		}
		return false
	}
	fromSize := func(f *types.Var) bool {
		for _, st := range storesTo(putScope, f) {
			if call, ok := peelConv(st.Val).(*ssa.Call); ok && strings.HasSuffix(calleeName(&call.Call), ".GetSizeInBytes") {
				return true
			}
		}
		return false
	}
	a.ItemKeyF = sh.pickField("cache.lru.item.key", a.LRUItemT, "key", tInteger, isDeleteKey, fromKeyParam, func(f *types.Var) bool { return !fromSize(f) })
	a.ItemSizeF = sh.pickField("cache.lru.item.size", a.LRUItemT, "size", tInteger, fromSize, func(f *types.Var) bool { return a.ItemKeyF != nil && f != a.ItemKeyF })
	if a.ItemKeyF != nil && a.ItemKeyF == a.ItemSizeF {
		a.ItemSizeF = nil
		sh.note("cache.lru.item.size", "the item's key and size resolve to the same field")
	}
}

func (sh *progShape) resolveGroupBy() {
	w, a := sh.c.w, sh.a
	inRoot := func(n *types.Named) bool {
		return n != nil && n.Obj().Pkg() != nil && n.Obj().Pkg().Path() == pkgRoot
	}
	// value type: the struct one of whose uint64 fields is handed to the getter in code reached from Execute
	var vcands []*types.Named
	var idxOf = map[*types.Named]*types.Var{}
	if a.Execute != nil && a.GetColName != "" {
		for _, fn := range w.reach(a.Execute).sorted() {
			if w.pkgPathOf(fn) != pkgRoot {
				continue
			}
			allInstrs(fn, func(i ssa.Instruction) {
				call, ok := i.(*ssa.Call)
				if !ok || !call.Call.IsInvoke() || call.Call.Method.Name() != a.GetColName || len(call.Call.Args) != 1 {
					return
				}
				if f := srcField(call.Call.Args[0]); f != nil {
					if owner := w.ownerOf(f); inRoot(owner) && isStructNamed(owner) {
						vcands = append(vcands, owner)
						idxOf[owner] = f
					}
				}
			})
		}
	}
	hasStringAndIndex := func(n *types.Named) bool {
		return len(fieldsWhere(n, func(f *types.Var) bool { return tString(f.Type()) })) > 0 &&
			len(fieldsWhere(n, func(f *types.Var) bool { return tUint64(f.Type()) })) > 0
	}
	a.GroupValT = sh.pickType("groupby.value", pkgRoot, "groupByValue", func(n *types.Named) bool { return isStructNamed(n) && hasStringAndIndex(n) }, vcands)
	a.ValIdxF = sh.pickField("groupby.value.idx", a.GroupValT, "Idx", tUint64, func(f *types.Var) bool { return idxOf[a.GroupValT] == f })
	a.ValValueF = sh.pickField("groupby.value.value", a.GroupValT, "Value", tString)
	// level type: the struct with a slice of value types
	isVals := func(t types.Type) bool {
		sl, ok := t.Underlying().(*types.Slice)
		return ok && a.GroupValT != nil && namedOf(sl.Elem()) == a.GroupValT && types.Unalias(sl.Elem()) == types.Type(a.GroupValT)
	}
	var lcands []*types.Named
	for _, n := range pkgNamedTypes(w, pkgRoot) {
		if len(fieldsWhere(n, func(f *types.Var) bool { return isVals(f.Type()) })) > 0 {
			lcands = append(lcands, n)
		}
	}
	a.GroupLevelT = sh.pickType("groupby.level", pkgRoot, "groupBy", func(n *types.Named) bool {
		return len(fieldsWhere(n, func(f *types.Var) bool { return isVals(f.Type()) })) > 0
	}, lcands)
	a.LevelValsF = sh.pickField("groupby.level.values", a.GroupLevelT, "Values", isVals)
	a.LevelColF = sh.pickField("groupby.level.column", a.GroupLevelT, "Column", tString)
	// partial group: bitmap + field list
	rfT := w.namedType(pkgRoot, "ResultField")
	isFieldList := func(t types.Type) bool {
		sl, ok := t.Underlying().(*types.Slice)
		return ok && rfT != nil && types.Unalias(sl.Elem()) == types.Type(rfT)
	}
	isPartial := func(n *types.Named) bool {
		return len(fieldsWhere(n, func(f *types.Var) bool { return isBitmapPtr(f.Type()) })) > 0 &&
			len(fieldsWhere(n, func(f *types.Var) bool { return isFieldList(f.Type()) })) > 0
	}
	var pcands []*types.Named
	for _, n := range pkgNamedTypes(w, pkgRoot) {
		if isPartial(n) {
			pcands = append(pcands, n)
		}
	}
	a.ResGroupT = sh.pickType("groupby.partial", pkgRoot, "resultGroup", isPartial, pcands)
	a.ResGroupBMF = sh.pickField("groupby.partial.bitmap", a.ResGroupT, "result", isBitmapPtr)
	a.ResGroupFieldsF = sh.pickField("groupby.partial.fields", a.ResGroupT, "fields", isFieldList)
}

func (sh *progShape) resolveConvert() {
	a := sh.a
	exprConv := func(f *ssa.Function) bool {
		return f.Signature.Recv() == nil && sigIs(f.Signature,
			[]func(types.Type) bool{func(t types.Type) bool {
				_, p := t.(*types.Pointer)
				return p && typeIs(t, pkgProto, "Query_Expression")
			}},
			[]func(types.Type) bool{func(t types.Type) bool { return a.ExprIface != nil && types.Unalias(t) == types.Type(a.ExprIface) }, isErrorType})
	}
	level := pkgLevelFns(sh.convFns)
	cands := filterFns(level, func(f *ssa.Function) bool { return exprConv(f) && callsAny(sh.scopeOf(a.ToQuery, 2), f) })
	if len(cands) == 0 {
		cands = filterFns(level, exprConv)
	}
	a.ToExpr = sh.pickFn("conv.toexpr", "toExpr", level, exprConv, cands)
}

// stdIface finds an interface type of a package imported by a module package (database/sql/driver.Conn …).
func (sh *progShape) stdIface(fromPkg, pkgPath, name string) *types.Interface {
	p := sh.c.w.Pkgs[fromPkg]
	if p == nil {
		return nil
	}
	for _, imp := range p.Types.Imports() {
		if imp.Path() == pkgPath {
			if tn, ok := imp.Scope().Lookup(name).(*types.TypeName); ok {
				it, _ := tn.Type().Underlying().(*types.Interface)
				return it
			}
		}
	}
	return nil
}

func implementsIface(n *types.Named, it *types.Interface) bool {
	return n != nil && it != nil && !isIfaceNamed(n) && (types.Implements(types.NewPointer(n), it) || types.Implements(n, it))
}

func (sh *progShape) resolveDriver() {
	c, w, a := sh.c, sh.c.w, sh.a
	const sqlDriver = "database/sql/driver"
	drvI, connI, stmtI, rowsI := sh.stdIface(pkgDriver, sqlDriver, "Driver"), sh.stdIface(pkgDriver, sqlDriver, "Conn"), sh.stdIface(pkgDriver, sqlDriver, "Stmt"), sh.stdIface(pkgDriver, sqlDriver, "Rows")
	named := pkgNamedTypes(w, pkgDriver)
	impl := func(it *types.Interface) []*types.Named {
		var out []*types.Named
		for _, n := range named {
			if implementsIface(n, it) {
				out = append(out, n)
			}
		}
		return out
	}
	// ---- driver type: what init registers
	var dcands []*types.Named
	for _, fn := range sh.pkgFns(pkgDriver, true) {
		allInstrs(fn, func(i ssa.Instruction) {
			if call, ok := i.(*ssa.Call); ok && calleeName(&call.Call) == "database/sql.Register" && len(call.Call.Args) == 2 {
				v := call.Call.Args[1]
				if mi, ok := v.(*ssa.MakeInterface); ok {
					v = mi.X
				}
				if n := namedOf(v.Type()); n != nil && n.Obj().Pkg() != nil && n.Obj().Pkg().Path() == pkgDriver {
					dcands = append(dcands, n)
				}
			}
		})
	}
	if len(dcands) == 0 {
		dcands = impl(drvI)
	}
	a.DriverT = sh.pickType("drv.type", pkgDriver, "updogDriver", func(n *types.Named) bool { return drvI == nil || implementsIface(n, drvI) }, dcands)
	a.DrvOpen = a.methodOf(a.DriverT, "Open")
	// ---- file connection: the Conn that holds the index
	holdsIndex := func(n *types.Named) bool {
		return len(fieldsWhere(n, func(f *types.Var) bool { return a.IndexT != nil && namedOf(f.Type()) == a.IndexT })) > 0
	}
	a.FileConnT = sh.pickType("drv.conn", pkgDriver, "fileConn", func(n *types.Named) bool { return isStructNamed(n) && holdsIndex(n) },
		filterNamed(impl(connI), holdsIndex))
	a.FileConnClose = a.methodOf(a.FileConnT, "Close")
	// ---- openFile: what Open delegates to and that opens the index
	opensIndex := func(f *ssa.Function) bool {
		return a.OpenIndex != nil && c.fc.mayContain(f, func(i ssa.Instruction) bool {
			cc := callCommon(i)
			return cc != nil && calleeFunc(cc) == a.OpenIndex
		}, 2)
	}
	var ocands []*ssa.Function
	if a.DrvOpen != nil {
		allInstrs(a.DrvOpen, func(i ssa.Instruction) {
			if cc := callCommon(i); cc != nil {
				if f := calleeFunc(cc); f != nil && f != a.DrvOpen && w.pkgPathOf(f) == pkgDriver && f.Parent() == nil && opensIndex(f) {
					ocands = append(ocands, f)
				}
			}
		})
	}
	a.DrvOpenFile = sh.pickFn("drv.openfile", "openFile", methodsOfType(sh.drvFns, a.DriverT), func(f *ssa.Function) bool { return true }, ocands)
	// ---- statement types and their query methods
	stmts := impl(stmtI)
	pointsToConn := func(n *types.Named) bool {
		return len(fieldsWhere(n, func(f *types.Var) bool { return a.FileConnT != nil && namedOf(f.Type()) == a.FileConnT })) > 0
	}
	isStmt := func(n *types.Named) bool { return stmtI == nil || implementsIface(n, stmtI) }
	a.FileStmtT = sh.pickType("drv.filestmt", pkgDriver, "fileStmt", isStmt, filterNamed(stmts, pointsToConn))
	a.GrpcStmtT = sh.pickType("drv.grpcstmt", pkgDriver, "grpcStmt", isStmt, filterNamed(stmts, func(n *types.Named) bool { return n != a.FileStmtT && !pointsToConn(n) }))
	isRowsType := func(t types.Type) bool {
		n, ok := types.Unalias(t).(*types.Named)
		return ok && n.Obj().Pkg() != nil && n.Obj().Pkg().Path() == sqlDriver && n.Obj().Name() == "Rows"
	}
	queryOf := func(role string, T *types.Named) *ssa.Function {
		ms := methodsOfType(sh.drvFns, T)
		// (the argument values arrive as a []string or wrapped in a small struct of the driver package that holds them —
		// `stmtArgs{values []string}` —: argValuesType)
		takesValues := func(f *ssa.Function) bool {
			return sigIs(f.Signature, []func(types.Type) bool{argValuesType}, []func(types.Type) bool{isRowsType, isErrorType})
		}
		// (the signature is the definition — the exported Query takes []driver.Value; which of several such methods the
		// exported Query reaches only breaks a tie, because the call may go through a helper and an interface)
		exported := a.methodOf(T, "Query")
		cands := filterFns(ms, func(f *ssa.Function) bool { return takesValues(f) && f != exported })
		if len(cands) > 1 {
			if called := filterFns(cands, func(f *ssa.Function) bool { return callsAny(sh.scopeOf(exported, 2), f) }); len(called) > 0 {
				cands = called
			}
		}
		return sh.pickFn(role, "query", ms, takesValues, cands)
	}
	a.FileStmtQuery = queryOf("drv.filestmt.query", a.FileStmtT)
	a.GrpcStmtQuery = queryOf("drv.grpcstmt.query", a.GrpcStmtT)
	// ---- numInput: what the statements' NumInput return
	level := pkgLevelFns(sh.drvFns)
	var ncands []*ssa.Function
	for _, T := range []*types.Named{a.FileStmtT, a.GrpcStmtT} {
		if ni := a.methodOf(T, "NumInput"); ni != nil && ni.Blocks != nil {
			allInstrs(ni, func(i ssa.Instruction) {
				ret, ok := i.(*ssa.Return)
				if !ok || len(ret.Results) != 1 {
					return
				}
				if call, ok := peelConv(retVals(ret)[0]).(*ssa.Call); ok {
					if f := calleeFunc(&call.Call); f != nil && f.Signature.Recv() == nil && f.Parent() == nil && w.pkgPathOf(f) == pkgDriver {
						ncands = append(ncands, f)
					}
				}
			})
		}
	}
	// (a NumInput that caches the number returns a field: then the func(*Query) int it — or, failing that, a query method — calls)
	countsPlaceholders := func(f *ssa.Function) bool {
		return f.Signature.Recv() == nil && sigIs(f.Signature,
			[]func(types.Type) bool{func(t types.Type) bool { _, p := t.(*types.Pointer); return p && typeIs(t, pkgProto, "Query") }},
			[]func(types.Type) bool{tInt})
	}
	if len(uniqFns(ncands)) != 1 {
		for _, pick := range []func(T *types.Named) *ssa.Function{
			func(T *types.Named) *ssa.Function { return a.methodOf(T, "NumInput") },
			func(T *types.Named) *ssa.Function {
				if T == a.FileStmtT {
					return a.FileStmtQuery
				}
				return a.GrpcStmtQuery
			},
		} {
			var callers []*ssa.Function
			for _, T := range []*types.Named{a.FileStmtT, a.GrpcStmtT} {
				if T != nil {
					callers = append(callers, sh.scopeOf(pick(T), 1)...)
				}
			}
			if cs := filterFns(level, func(f *ssa.Function) bool { return countsPlaceholders(f) && callsAny(callers, f) }); len(cs) > 0 {
				ncands = cs
				break
			}
		}
	}
	a.NumInput = sh.pickFn("drv.numinput", "numInput", level, func(f *ssa.Function) bool {
		return f.Signature.Results().Len() == 1 && tInt(f.Signature.Results().At(0).Type())
	}, ncands)
	// ---- rows
	a.RowsT = sh.pickType("drv.rows", pkgDriver, "rows", func(n *types.Named) bool { return rowsI == nil || implementsIface(n, rowsI) }, impl(rowsI))
	allocRows := func(f *ssa.Function) bool {
		found := false
		allInstrs(f, func(i ssa.Instruction) {
			if al, ok := i.(*ssa.Alloc); ok && a.RowsT != nil {
				if p, ok := al.Type().(*types.Pointer); ok && types.Unalias(p.Elem()) == types.Type(a.RowsT) {
					found = true
				}
			}
		})
		return found
	}
	yieldsRows := func(f *ssa.Function) bool {
		res := f.Signature.Results()
		return res.Len() == 1 && a.RowsT != nil && (namedOf(res.At(0).Type()) == a.RowsT || isRowsType(res.At(0).Type()))
	}
	a.NewRows = sh.pickFn("drv.rows.new", "newRows", level, yieldsRows, filterFns(level, func(f *ssa.Function) bool { return yieldsRows(f) && allocRows(f) }))
	columns := a.methodOf(a.RowsT, "Columns")
	a.RowsColsF = sh.pickField("drv.rows.cols", a.RowsT, "cols", tStrings, func(f *types.Var) bool {
		// the one Columns() hands out
		found := false
		if columns != nil && columns.Blocks != nil {
			allInstrs(columns, func(i ssa.Instruction) {
				if ret, ok := i.(*ssa.Return); ok && len(ret.Results) == 1 && path(retVals(ret)[0]).lastField() == f {
					found = true
				}
			})
		}
		return found
	})
	if a.RowsT != nil {
		if storage, kind := rowsStorage(a.RowsT); kind == rowsStruct && storage != nil {
			a.RowT = namedOf(storage.Type().Underlying().(*types.Slice).Elem())
		}
	}
	if a.RowT == nil {
		// (rows kept as [][]driver.Value have no row type; the rules that need it ask for it)
		a.RowT = w.namedType(pkgDriver, "row")
	}
	if a.RowT != nil {
		a.RowFieldsF = sh.pickField("drv.row.fields", a.RowT, "fields", tStrings)
		a.RowCountF = sh.pickField("drv.row.count", a.RowT, "count", tUint64)
	}
}

func filterNamed(ns []*types.Named, pred func(*types.Named) bool) []*types.Named {
	var out []*types.Named
	for _, n := range ns {
		if pred(n) {
			out = append(out, n)
		}
	}
	return out
}

func (sh *progShape) resolveCmd() {
	c, w, a := sh.c, sh.c.w, sh.a
	level := pkgLevelFns(sh.cmdFns)
	callsIn := func(f *ssa.Function, depth int, pred func(*ssa.CallCommon) bool) bool {
		return c.fc.mayContain(f, func(i ssa.Instruction) bool {
			cc := callCommon(i)
			return cc != nil && pred(cc)
		}, depth)
	}
	closure := func(f *ssa.Function) []*ssa.Function { return append([]*ssa.Function{f}, f.AnonFuncs...) }
	direct := func(f *ssa.Function, pred func(*ssa.CallCommon) bool) bool {
		found := false
		instrsOf(closure(f), func(i ssa.Instruction) {
			if cc := callCommon(i); cc != nil && pred(cc) {
				found = true
			}
		})
		return found
	}
	isMain := func(f *ssa.Function) bool { return f.Name() == "main" || f.Name() == "init" }
	// by-call roles: the package-level function that makes the call itself; if none does (the call moved into a helper),
	// the one that reaches it through helpers and is not reached from another candidate
	byCall := func(role, guess string, pred func(*ssa.CallCommon) bool) *ssa.Function {
		cands := filterFns(level, func(f *ssa.Function) bool { return !isMain(f) && direct(f, pred) })
		if len(cands) != 1 {
			// the outermost ones: a helper that makes the call is called by the command function, not the other way round
			outer := filterFns(level, func(f *ssa.Function) bool { return !isMain(f) && callsIn(f, 2, pred) })
			var top []*ssa.Function
			for _, f := range outer {
				called := false
				for _, g := range outer {
					if g != f && callsAny(sh.scopeOf(g, 2), f) {
						called = true
					}
				}
				if !called {
					top = append(top, f)
				}
			}
			if len(top) > 0 {
				cands = top
			}
		}
		return sh.pickFn(role, guess, level, func(f *ssa.Function) bool { return true }, cands)
	}
	a.CreateCmd = byCall("cmd.create", "createCmd", func(cc *ssa.CallCommon) bool {
		f := calleeFunc(cc)
		return f != nil && (f == a.NewMem || f == a.NewBig)
	})
	a.ServerCmd = byCall("srv.cmd", "serverCmd", func(cc *ssa.CallCommon) bool { return calleeName(cc) == "google.golang.org/grpc.NewServer" })
	a.SchemaCmd = byCall("cmd.schema", "schemaCmd", func(cc *ssa.CallCommon) bool {
		f := calleeFunc(cc)
		return f != nil && f == a.GetSchema
	})
	// normalizeHeader: the []string -> []string function of the create path
	hdrFn := func(f *ssa.Function) bool {
		return f.Signature.Recv() == nil && sigIs(f.Signature, []func(types.Type) bool{tStrings}, []func(types.Type) bool{tStrings})
	}
	ncands := filterFns(level, func(f *ssa.Function) bool { return hdrFn(f) && callsAny(sh.scopeOf(a.CreateCmd, 2), f) })
	a.NormalizeHeader = sh.pickFn("cmd.normalize", "normalizeHeader", level, hdrFn, ncands)
	// server: the implementer of the generated service interface
	var scands []*types.Named
	if si := w.namedType(pkgProto, "QueryServiceServer"); si != nil {
		if it, ok := si.Underlying().(*types.Interface); ok {
			for _, n := range pkgNamedTypes(w, pkgCmd) {
				if implementsIface(n, it) {
					scands = append(scands, n)
				}
			}
		}
	}
	a.ServerT = sh.pickType("srv.type", pkgCmd, "server", isStructNamed, scands)
	a.ServerQuery = a.methodOf(a.ServerT, "Query")
}
