package main

// Two further necessary conditions of C10 (format → parse preserves meaning) on the *column name* leg of the round trip.
// The formatter writes column names verbatim (C10.quote: `<Column>=…`, `;` + Join(GroupBy)); for the text to come back as
// the same name
//
//	C10.fieldtoken    — every identifier must be lexed as a field token, whatever its spelling, and
//	C10.fieldverbatim — the parser must store the token's text itself as the column / group-by name.
//
// Both rules find the lexer and the token type structurally (state functions `func(*L) S` with S = func(*L) S; the token
// struct is the element type of L's channel; its kind field is the one whose type has named constants, its text field the
// only string), so renaming types, fields, constants or functions does not affect them.

import (
	"fmt"
	"go/constant"
	"go/token"
	"go/types"
	"sort"
	"strings"

	"golang.org/x/tools/go/ssa"
)

// lexMachine describes the state-function lexer of the parser package.
type lexMachine struct {
	lexT     *types.Named // L
	stateT   *types.Named // S
	states   []*ssa.Function
	tokT     *types.Named // token struct
	kindF    *types.Var   // its kind field
	textF    *types.Var   // its text field
	kindT    *types.Named
	kindName map[int64]string
}

func findLexMachine(c *Ctx) *lexMachine {
	m := &lexMachine{kindName: map[int64]string{}}
	pkg := c.w.Pkgs[pkgParser]
	if pkg == nil {
		return nil
	}
	for _, fn := range c.w.ModFuncs {
		if c.w.pkgPathOf(fn) != pkgParser || fn.Signature.Recv() != nil || fn.Parent() != nil || fn.Blocks == nil {
			continue
		}
		sig := fn.Signature
		if sig.Params().Len() != 1 || sig.Results().Len() != 1 {
			continue
		}
		ptr, ok := sig.Params().At(0).Type().(*types.Pointer)
		if !ok {
			continue
		}
		l := namedOf(ptr.Elem())
		s, _ := sig.Results().At(0).Type().(*types.Named)
		if l == nil || s == nil || l.Obj().Pkg() == nil || l.Obj().Pkg().Path() != pkgParser {
			continue
		}
		if _, isStruct := l.Underlying().(*types.Struct); !isStruct {
			continue
		}
		if ssig, ok := s.Underlying().(*types.Signature); !ok || !types.Identical(ssig, sig) {
			continue
		}
		if m.lexT == nil {
			m.lexT, m.stateT = l, s
		}
		if m.lexT == l && m.stateT == s {
			m.states = append(m.states, fn)
		}
	}
	if m.lexT == nil {
		return nil
	}
	st := m.lexT.Underlying().(*types.Struct)
	for i := 0; i < st.NumFields(); i++ {
		if ch, ok := st.Field(i).Type().Underlying().(*types.Chan); ok {
			if t := namedOf(ch.Elem()); t != nil {
				if _, isStruct := t.Underlying().(*types.Struct); isStruct && m.tokT == nil {
					m.tokT = t
				}
			}
		}
	}
	if m.tokT == nil {
		return m
	}
	// named constants per type, to tell the kind field (an enumeration) from a position field (a plain named integer)
	nConst := map[*types.Named]int{}
	consts := map[*types.Named]map[int64]string{}
	scope := pkg.Types.Scope()
	for _, name := range scope.Names() {
		if k, ok := scope.Lookup(name).(*types.Const); ok {
			if n, ok := k.Type().(*types.Named); ok {
				nConst[n]++
				if v, exact := constant.Int64Val(k.Val()); exact {
					if consts[n] == nil {
						consts[n] = map[int64]string{}
					}
					consts[n][v] = name
				}
			}
		}
	}
	ts := m.tokT.Underlying().(*types.Struct)
	nText, nKind := 0, 0
	for i := 0; i < ts.NumFields(); i++ {
		f := ts.Field(i)
		if b, ok := f.Type().Underlying().(*types.Basic); ok {
			switch {
			case b.Info()&types.IsString != 0:
				m.textF = f
				nText++
			case b.Info()&types.IsInteger != 0:
				if n, ok := f.Type().(*types.Named); ok && nConst[n] >= 2 {
					m.kindF, m.kindT = f, n
					m.kindName = consts[n]
					nKind++
				}
			}
		}
	}
	if nText != 1 {
		m.textF = nil
	}
	if nKind != 1 {
		m.kindF, m.kindT = nil, nil
	}
	return m
}

func (m *lexMachine) isState(f *ssa.Function) bool {
	for _, s := range m.states {
		if s == f {
			return true
		}
	}
	return false
}

func (m *lexMachine) kindString(k int64) string {
	if n, ok := m.kindName[k]; ok {
		return n
	}
	return fmt.Sprint(k)
}

// takesLexer: f has the lexer among its parameters (receiver included).
func (m *lexMachine) takesLexer(f *ssa.Function) bool {
	for _, p := range f.Params {
		if ptr, ok := p.Type().(*types.Pointer); ok && namedOf(ptr.Elem()) == m.lexT {
			return true
		}
	}
	return false
}

// bindFrame: a helper followed from a call site; its parameters stand for the call's arguments in the caller's frame.
type bindFrame struct {
	call   *ssa.Call
	callee *ssa.Function
	parent *bindFrame
}

func (fr *bindFrame) depth() int {
	n := 0
	for f := fr; f != nil; f = f.parent {
		n++
	}
	return n
}

func (fr *bindFrame) active(g *ssa.Function) bool {
	for f := fr; f != nil; f = f.parent {
		if f.callee == g {
			return true
		}
	}
	return false
}

// moduleCallers: the static call sites of fn inside the parser package.
func moduleCallers(c *Ctx, fn *ssa.Function) []*ssa.Call {
	var out []*ssa.Call
	node := c.w.CG.Nodes[fn]
	if node == nil {
		return nil
	}
	for _, e := range node.In {
		if e.Site == nil || e.Caller == nil || c.w.pkgPathOf(e.Caller.Func) != pkgParser {
			continue
		}
		if call, ok := e.Site.(*ssa.Call); ok && calleeFunc(&call.Call) == fn {
			out = append(out, call)
		}
	}
	return out
}

// ---------------------------------------------------------------------------------------------------------------------
// C10.fieldtoken

type kindSite struct {
	consts     map[int64]bool
	unresolved string // why the kind is not a compile-time constant
	at         ssa.Instruction
}

// c10FieldToken — the lexer state that scans an identifier emits the field token and nothing else. The formatter prints a
// column name as it is, so `or`, `Not`, `AND1` … must come back as field tokens: a state that chooses the token kind from
// the scanned word (keyword table, case folding, prefix test) turns some valid column names into operators or values and
// the formatted query is rejected or parsed as something else.
//
// The identifier state is the state function that consumes with a lexer method over a constant alphabet containing all
// ASCII letters, or that can emit the kind the parser requires in front of a comparison (the constant the call of the
// function storing Query_Expression_Equal.Column is guarded by). All emissions reachable from it — calls of a sending
// lexer method that takes the kind, directly or through helpers that are handed the lexer, parameters bound to the call's
// arguments, results of kind-returning helpers followed into their returns, and direct sends of a token literal — must
// carry that one constant. A kind that is not a constant after this resolution (map lookup, computed value) is reported:
// it can only depend on the text. Lexical-error emissions (sending methods without a kind parameter) are not tokens of the
// language and are ignored.
func c10FieldToken(c *Ctx) {
	const rule = "C10.fieldtoken"
	m := findLexMachine(c)
	if m == nil || len(m.states) == 0 {
		c.r.ok(rule, "lexer", "no state-function lexer in the parser package")
		return
	}
	if m.tokT == nil || m.kindF == nil {
		c.r.undecided(rule, "<anchor>", "the token struct sent by the lexer, or its kind field (a field of an enumeration type), cannot be identified")
		return
	}
	isSend := func(i ssa.Instruction) bool { return len(sendsOf(i)) > 0 } // a send statement or the send case of a select
	sends := func(f *ssa.Function) bool { return c.fc.mayContain(f, isSend, 3) }
	isLexMethod := func(f *ssa.Function) bool {
		if f == nil || f.Blocks == nil || f.Signature.Recv() == nil {
			return false
		}
		ptr, ok := f.Signature.Recv().Type().(*types.Pointer)
		return ok && namedOf(ptr.Elem()) == m.lexT
	}
	// emit-like: a sending lexer method with a parameter of the kind type; returns that parameter's index
	emitIdx := func(f *ssa.Function) int {
		if !isLexMethod(f) || !sends(f) {
			return -1
		}
		for k, p := range f.Params {
			if types.Identical(p.Type(), m.kindT) {
				return k
			}
		}
		return -1
	}
	var resolve func(v ssa.Value, fr *bindFrame, seen map[ssa.Value]bool, out *kindSite)
	resolve = func(v ssa.Value, fr *bindFrame, seen map[ssa.Value]bool, out *kindSite) {
		if seen[v] || out.unresolved != "" {
			return
		}
		seen[v] = true
		switch x := v.(type) {
		case *ssa.Const:
			if k, ok := constInt(x); ok {
				out.consts[k] = true
				return
			}
		case *ssa.Phi:
			for _, e := range x.Edges {
				resolve(e, fr, seen, out)
			}
			return
		case *ssa.ChangeType:
			resolve(x.X, fr, seen, out)
			return
		case *ssa.Convert:
			resolve(x.X, fr, seen, out)
			return
		case *ssa.Parameter:
			if fr != nil {
				if a := argFor(fr.call, fr.callee, x); a != nil {
					resolve(a, fr.parent, map[ssa.Value]bool{}, out)
					return
				}
			}
			out.unresolved = "it is a parameter of " + safeFname(x.Parent())
			return
		case *ssa.UnOp:
			if x.Op == token.MUL {
				if vals, ok := cellValues(x.X); ok && len(vals) > 0 {
					for _, e := range vals {
						resolve(e, fr, seen, out)
					}
					return
				}
				if g, ok := x.X.(*ssa.Global); ok {
					out.unresolved = "it is read from the variable " + g.Name()
					return
				}
			}
		case *ssa.Call, *ssa.Extract:
			if call, callee, vals, ok := resultOrigins(c.w, v); ok && !fr.active(callee) && fr.depth() < 4 {
				sub := &bindFrame{call: call, callee: callee, parent: fr}
				for _, rv := range vals {
					resolve(rv, sub, map[ssa.Value]bool{}, out)
				}
				return
			}
			if ex, ok := v.(*ssa.Extract); ok {
				if _, isLookup := ex.Tuple.(*ssa.Lookup); isLookup {
					out.unresolved = "it is looked up in a table"
					return
				}
			}
			if call, ok := v.(*ssa.Call); ok {
				out.unresolved = "it is the result of " + shortName(calleeName(&call.Call))
				return
			}
		case *ssa.Lookup:
			out.unresolved = "it is looked up in a table"
			return
		}
		out.unresolved = "it is computed (" + strings.TrimSpace(fmt.Sprintf("%T", v)) + ")"
	}
	var collect func(g *ssa.Function, fr *bindFrame, out *[]kindSite)
	collect = func(g *ssa.Function, fr *bindFrame, out *[]kindSite) {
		allInstrs(g, func(i ssa.Instruction) {
			switch x := i.(type) {
			case *ssa.Send:
				// a token literal sent directly: the kind stored into the literal
				site := kindSite{consts: map[int64]bool{}, at: i}
				if namedOf(x.X.Type()) != m.tokT {
					return
				}
				found := false
				if ld, ok := x.X.(*ssa.UnOp); ok && ld.Op == token.MUL {
					if al, ok := ld.X.(*ssa.Alloc); ok {
						for _, r := range referrers(al) {
							if fa, ok := r.(*ssa.FieldAddr); ok && fieldOf(fa.X.Type(), fa.Field) == m.kindF {
								for _, rr := range referrers(fa) {
									if st, ok := rr.(*ssa.Store); ok && st.Addr == fa {
										found = true
										resolve(st.Val, fr, map[ssa.Value]bool{}, &site)
									}
								}
							}
						}
					}
				}
				if !found {
					site.unresolved = "the token sent here is not a literal whose kind can be read off"
				}
				*out = append(*out, site)
			case *ssa.Call:
				f := calleeFunc(&x.Call)
				if f == nil || c.w.pkgPathOf(f) != pkgParser || f.Blocks == nil {
					return
				}
				if k := emitIdx(f); k >= 0 && k < len(x.Call.Args) {
					site := kindSite{consts: map[int64]bool{}, at: i}
					resolve(x.Call.Args[k], fr, map[ssa.Value]bool{}, &site)
					*out = append(*out, site)
					return
				}
				if isLexMethod(f) && sends(f) {
					return // a sending method without a kind parameter: the lexical-error path
				}
				if m.isState(f) || !m.takesLexer(f) || !sends(f) || fr.active(f) || fr.depth() >= 3 {
					return
				}
				collect(f, &bindFrame{call: x, callee: f, parent: fr}, out)
			}
		})
	}
	// the kind the parser requires in front of a column name
	fieldKind, haveKind := parserFieldKind(c, m)
	// candidates
	letters := "abcdefghijklmnopqrstuvwxyzABCDEFGHIJKLMNOPQRSTUVWXYZ"
	n := 0
	for _, s := range m.states {
		var sites []kindSite
		collect(s, nil, &sites)
		scansIdent := false
		allInstrs(s, func(i ssa.Instruction) {
			call, ok := i.(*ssa.Call)
			if !ok || !isLexMethod(calleeFunc(&call.Call)) {
				return
			}
			for _, a := range call.Call.Args {
				if set, ok := constString(a); ok {
					all := true
					for _, r := range letters {
						if !strings.ContainsRune(set, r) {
							all = false
						}
					}
					if all {
						scansIdent = true
					}
				}
			}
		})
		emitsField := false
		for _, st := range sites {
			if haveKind && st.consts[fieldKind] {
				emitsField = true
			}
		}
		if !scansIdent && !emitsField {
			continue
		}
		n++
		want := fieldKind
		if !haveKind {
			// without the parser's expectation: the one constant the state emits
			cnt := map[int64]int{}
			for _, st := range sites {
				for k := range st.consts {
					cnt[k]++
				}
			}
			best := -1
			for k, v := range cnt {
				if v > best || (v == best && k < want) {
					best, want = v, k
				}
			}
		}
		bad := ""
		var at ssa.Instruction
		for _, st := range sites {
			switch {
			case st.unresolved != "":
				bad = "the kind of a token emitted by the identifier state is not a constant (" + st.unresolved + "): it is chosen from the scanned text"
				at = st.at
			default:
				var others []string
				for k := range st.consts {
					if k != want {
						others = append(others, m.kindString(k))
					}
				}
				sort.Strings(others)
				if len(others) > 0 && bad == "" {
					bad = "the identifier state can emit " + strings.Join(others, ", ") + " instead of the field token " + m.kindString(want)
					at = st.at
				}
			}
		}
		switch {
		case len(sites) == 0:
			c.r.undecided(rule, safeFname(s), "the state that scans identifiers emits no token that can be followed", c.w.pos(s.Pos()))
		case bad != "":
			c.r.bad(rule, safeFname(s), bad+": some identifiers (valid column names, which the formatter writes verbatim) are not lexed as fields, so the formatted query is rejected or parses to a different tree", []string{c.w.ipos(at)})
		default:
			note := ""
			if !haveKind {
				note = " (the parser's expected kind could not be determined; only constancy was checked)"
			}
			c.r.ok(rule, safeFname(s), fmt.Sprintf("every token emitted after scanning an identifier has the constant kind %s%s", m.kindString(want), note), c.w.pos(s.Pos()))
		}
	}
	if n == 0 {
		c.r.undecided(rule, "lexer", "no state function that scans identifiers (consumes over an alphabet with all letters, or emits the parser's field kind) was found", c.w.pos(m.states[0].Pos()))
	}
}

// parserFieldKind: the constant token kind that guards the parsing of a comparison — the kind K with `tok.kind == K`
// known at the call of the function that stores Query_Expression_Equal.Column (or at that store itself).
func parserFieldKind(c *Ctx, m *lexMachine) (int64, bool) {
	col := c.w.field(pkgProto, "Query_Expression_Equal", "Column")
	if col == nil || c.a.ParseQuery == nil {
		return 0, false
	}
	found := map[int64]bool{}
	look := func(at ssa.Instruction) {
		for _, cm := range cmpsAt(at) {
			if cm.Op != token.EQL || cm.Y == nil {
				continue
			}
			for _, pair := range [][2]ssa.Value{{cm.X, cm.Y}, {cm.Y, cm.X}} {
				if k, ok := constInt(pair[1]); ok && types.Identical(pair[0].Type(), m.kindT) {
					found[k] = true
				}
			}
		}
	}
	for _, fn := range c.scope(c.a.ParseQuery, 8) {
		allInstrs(fn, func(i ssa.Instruction) {
			st, ok := i.(*ssa.Store)
			if !ok {
				return
			}
			fa, ok := st.Addr.(*ssa.FieldAddr)
			if !ok || fieldOf(fa.X.Type(), fa.Field) != col {
				return
			}
			for _, call := range moduleCallers(c, fn) {
				look(call)
			}
			if len(found) == 0 {
				look(i) // the comparison is parsed in place, under the test itself
			}
		})
	}
	if len(found) != 1 {
		return 0, false
	}
	for k := range found {
		return k, true
	}
	return 0, false
}

// ---------------------------------------------------------------------------------------------------------------------
// C10.fieldverbatim

// c10FieldVerbatim — the parser keeps column names as written. The value stored into Query_Expression_Equal.Column, and
// every element that ends up in Query.GroupBy, is the text field of a token delivered by the token source (a call
// returning the token struct, a channel receive, the look-ahead buffer), reached only through phis, local variables,
// struct literals, parameters (bound to the arguments of the call, or to those of every caller) and results of parser
// helpers (followed into their return statements). Any other call applied on the way (ToLower, TrimSpace, Title, a
// normalising helper that does such a thing), a re-slice, a concatenation, or an assignment to the token's text makes
// parse(format(tree)) name a different column than the tree did: violated. Constants and copies of an existing Column
// are neutral. Sources the rule does not know (map/slice elements, fields of non-local structs) are undecided.
func c10FieldVerbatim(c *Ctx) {
	const rule = "C10.fieldverbatim"
	m := findLexMachine(c)
	colF := c.w.field(pkgProto, "Query_Expression_Equal", "Column")
	gbF := c.w.field(pkgProto, "Query", "GroupBy")
	if colF == nil || gbF == nil {
		c.r.undecided(rule, "<anchor>", "Query_Expression_Equal.Column / Query.GroupBy not found")
		return
	}
	var tokT *types.Named
	var textF *types.Var
	if m != nil {
		tokT, textF = m.tokT, m.textF
	}
	if tokT == nil || textF == nil {
		// no state-function lexer: the token type is the struct the parser's token source returns; without it the
		// notion "the token's text" has no structural meaning
		c.r.undecided(rule, "<anchor>", "the lexer's token struct or its text field (its only string field) cannot be identified")
		return
	}
	v := &verbatim{c: c, tokT: tokT, textF: textF, colF: colF}
	nCol, nGB := 0, 0
	for _, fn := range c.scope(c.a.ParseQuery, 8) {
		allInstrs(fn, func(i ssa.Instruction) {
			st, ok := i.(*ssa.Store)
			if !ok {
				return
			}
			fa, ok := st.Addr.(*ssa.FieldAddr)
			if !ok {
				return
			}
			switch fieldOf(fa.X.Type(), fa.Field) {
			case colF:
				nCol++
				key := fmt.Sprintf("%s: Column#%d", safeFname(fn), nCol)
				why, decided := v.text(st.Val, nil, map[ssa.Value]bool{})
				v.report(rule, key, "the column of the comparison", why, decided, i)
			case gbF:
				nGB++
				key := fmt.Sprintf("%s: GroupBy#%d", safeFname(fn), nGB)
				why, decided := "", true
				v.elems(st.Val, nil, map[ssa.Value]bool{}, func(e ssa.Value, fr *bindFrame) {
					if why != "" {
						return
					}
					why, decided = v.text(e, fr, map[ssa.Value]bool{})
				}, func(reason string) {
					if why == "" {
						why, decided = reason, false
					}
				})
				v.report(rule, key, "an element of the group-by list", why, decided, i)
			}
		})
	}
	if nCol == 0 {
		c.r.undecided(rule, "parser: Column", "no assignment of Query_Expression_Equal.Column reachable from ParseQuery")
	}
	if nGB == 0 {
		c.r.undecided(rule, "parser: GroupBy", "no assignment of Query.GroupBy reachable from ParseQuery")
	}
}

type verbatim struct {
	c     *Ctx
	tokT  *types.Named
	textF *types.Var
	colF  *types.Var
}

func (v *verbatim) report(rule, key, what, why string, decided bool, at ssa.Instruction) {
	switch {
	case why == "":
		v.c.r.ok(rule, key, "the field token's text itself", v.c.w.ipos(at))
	case decided:
		v.c.r.bad(rule, key, what+" is not the field token's text itself: "+why+". The formatter writes the name verbatim and the lexer keeps it verbatim, so the re-parsed query names a different column than the tree that was formatted", []string{v.c.w.ipos(at)})
	default:
		v.c.r.undecided(rule, key, what+" cannot be traced back to the field token's text: "+why, v.c.w.ipos(at))
	}
}

// param resolves a parameter to the values it stands for: the bound argument when the function was entered through a
// followed call, else the arguments of all its callers in the parser package.
func (v *verbatim) param(p *ssa.Parameter, fr *bindFrame, each func(a ssa.Value, fr *bindFrame) bool) (string, bool) {
	if fr != nil {
		if a := argFor(fr.call, fr.callee, p); a != nil {
			each(a, fr.parent)
			return "", true
		}
	}
	calls := moduleCallers(v.c, p.Parent())
	if len(calls) == 0 {
		return "it is a parameter of " + safeFname(p.Parent()) + ", which has no caller in the parser package", false
	}
	for _, call := range calls {
		if a := argFor(call, p.Parent(), p); a != nil {
			if !each(a, nil) {
				break
			}
		}
	}
	return "", true
}

// text: "" if s is the verbatim text of a token; else (why, decided) — decided=true for a positive transformation.
func (v *verbatim) text(s ssa.Value, fr *bindFrame, seen map[ssa.Value]bool) (string, bool) {
	if seen[s] {
		return "", true
	}
	seen[s] = true
	if fr.depth() > 6 {
		return "the value passes through too many helpers", false
	}
	all := func(vals []ssa.Value, fr *bindFrame) (string, bool) {
		for _, e := range vals {
			if why, d := v.text(e, fr, seen); why != "" {
				return why, d
			}
		}
		return "", true
	}
	switch x := s.(type) {
	case *ssa.Const:
		return "", true
	case *ssa.Phi:
		return all(x.Edges, fr)
	case *ssa.ChangeType:
		return v.text(x.X, fr, seen)
	case *ssa.Convert:
		if b, ok := x.X.Type().Underlying().(*types.Basic); ok && b.Info()&types.IsString != 0 {
			return v.text(x.X, fr, seen)
		}
		return "it is converted from " + typeString(x.X.Type()), true
	case *ssa.Field:
		f := fieldOf(x.X.Type(), x.Field)
		if f == v.textF {
			return v.token(x.X, fr, map[ssa.Value]bool{})
		}
		return "it is the field " + f.Name() + " of a " + typeString(x.X.Type()) + " value", false
	case *ssa.UnOp:
		if x.Op != token.MUL {
			break
		}
		switch a := x.X.(type) {
		case *ssa.FieldAddr:
			f := fieldOf(a.X.Type(), a.Field)
			if f == v.colF {
				return "", true // a copy of an existing column name
			}
			if al, ok := a.X.(*ssa.Alloc); ok {
				if f == v.textF {
					if w := v.textOverwritten(al); w != "" {
						return w, true
					}
					return v.tokenCell(al, fr, map[ssa.Value]bool{})
				}
				// a field of a local struct: what was stored into it
				var vals []ssa.Value
				for _, r := range referrers(al) {
					if fa, ok := r.(*ssa.FieldAddr); ok && fa.Field == a.Field {
						for _, rr := range referrers(fa) {
							if st, ok := rr.(*ssa.Store); ok && st.Addr == fa {
								vals = append(vals, st.Val)
							}
						}
					}
				}
				if len(vals) > 0 {
					return all(vals, fr)
				}
			}
			if f == v.textF {
				return v.tokenAddr(a.X, fr, map[ssa.Value]bool{})
			}
			return "it is loaded from the field " + f.Name(), false
		case *ssa.Alloc:
			if vals, ok := cellValues(a); ok && len(vals) > 0 {
				return all(vals, fr)
			}
		}
		return "it is loaded from memory the rule does not follow", false
	case *ssa.Parameter:
		why, dec := "", true
		if w, ok := v.param(x, fr, func(a ssa.Value, afr *bindFrame) bool {
			why, dec = v.text(a, afr, seen)
			return why == ""
		}); !ok {
			return w, false
		}
		return why, dec
	case *ssa.Call, *ssa.Extract:
		if call, callee, vals, ok := resultOrigins(v.c.w, s); ok && v.c.w.pkgPathOf(callee) == pkgParser {
			if fr.active(callee) {
				return "", true
			}
			return all(vals, &bindFrame{call: call, callee: callee, parent: fr})
		}
		if call, ok := s.(*ssa.Call); ok {
			name := calleeName(&call.Call)
			if name == "strings.Clone" {
				return v.text(call.Call.Args[0], fr, seen)
			}
			if name == "" {
				name = "a function value"
			}
			return "it is the result of " + shortName(name), true
		}
		return "it is a component of a call result the rule does not follow", false
	case *ssa.BinOp:
		return "it is computed with " + x.Op.String(), true
	case *ssa.Slice:
		return "it is a re-slice of the text", true
	case *ssa.Lookup, *ssa.Index, *ssa.IndexAddr:
		return "it is an element looked up in a table", false
	}
	return fmt.Sprintf("it has a form the rule does not know (%T)", s), false
}

// textOverwritten: the text field of the local token variable al is assigned somewhere.
func (v *verbatim) textOverwritten(al *ssa.Alloc) string {
	for _, r := range referrers(al) {
		if fa, ok := r.(*ssa.FieldAddr); ok && fieldOf(fa.X.Type(), fa.Field) == v.textF {
			for _, rr := range referrers(fa) {
				if st, ok := rr.(*ssa.Store); ok && st.Addr == fa {
					return "the token's text is overwritten before it is used (" + v.c.w.ipos(st) + ")"
				}
			}
		}
	}
	return ""
}

// token: t (a value of the token struct type) was delivered by the token source.
func (v *verbatim) token(t ssa.Value, fr *bindFrame, seen map[ssa.Value]bool) (string, bool) {
	if seen[t] {
		return "", true
	}
	seen[t] = true
	switch x := t.(type) {
	case *ssa.Call:
		return "", true // a call returning a token: the token source (next/peek/nextItem or a helper around them)
	case *ssa.Extract:
		return "", true // v, ok := <-items, or a component of a helper's result
	case *ssa.Phi:
		for _, e := range x.Edges {
			if why, d := v.token(e, fr, seen); why != "" {
				return why, d
			}
		}
		return "", true
	case *ssa.Parameter:
		why, dec := "", true
		if w, ok := v.param(x, fr, func(a ssa.Value, afr *bindFrame) bool {
			why, dec = v.token(a, afr, seen)
			return why == ""
		}); !ok {
			return w, false
		}
		return why, dec
	case *ssa.UnOp:
		if x.Op == token.ARROW {
			return "", true
		}
		if x.Op != token.MUL {
			break
		}
		return v.tokenAddr(x.X, fr, seen)
	}
	return fmt.Sprintf("the token comes from a form the rule does not know (%T)", t), false
}

// tokenAddr: the token stored at address a was delivered by the token source.
func (v *verbatim) tokenAddr(a ssa.Value, fr *bindFrame, seen map[ssa.Value]bool) (string, bool) {
	switch a := a.(type) {
	case *ssa.Alloc:
		return v.tokenCell(a, fr, seen)
	case *ssa.IndexAddr, *ssa.FieldAddr:
		return "", true // the parser's look-ahead buffer / a token kept in the parser's state
	}
	return fmt.Sprintf("the token is read through a pointer the rule does not follow (%T)", a), false
}

// tokenCell: every value assigned to the local token variable al was delivered by the token source, and its text is
// not assigned separately.
func (v *verbatim) tokenCell(al *ssa.Alloc, fr *bindFrame, seen map[ssa.Value]bool) (string, bool) {
	if w := v.textOverwritten(al); w != "" {
		return w, true
	}
	stores, esc := cellStores(al)
	if esc {
		return "the token variable's address escapes", false
	}
	if len(stores) == 0 {
		return "the token is assembled by the parser, not delivered by the lexer", false
	}
	for _, st := range stores {
		if why, d := v.token(st.Val, fr, seen); why != "" {
			return why, d
		}
	}
	return "", true
}

// elems enumerates the values that can become elements of the string slice s: operands of append (the compiler's
// variadic array or a whole appended slice), stores through s[i], results of parser helpers, local variables.
func (v *verbatim) elems(s ssa.Value, fr *bindFrame, seen map[ssa.Value]bool, each func(e ssa.Value, fr *bindFrame), unknown func(why string)) {
	if seen[s] {
		return
	}
	seen[s] = true
	if fr.depth() > 6 {
		unknown("the list passes through too many helpers")
		return
	}
	// elements assigned in place: s[i] = e
	indexStores := func(x ssa.Value) {
		for _, r := range referrers(x) {
			if ia, ok := r.(*ssa.IndexAddr); ok && ia.X == x {
				for _, rr := range referrers(ia) {
					if st, ok := rr.(*ssa.Store); ok && st.Addr == ia {
						each(st.Val, fr)
					}
				}
			}
		}
	}
	indexStores(s)
	switch x := s.(type) {
	case *ssa.Const:
		return
	case *ssa.Phi:
		for _, e := range x.Edges {
			v.elems(e, fr, seen, each, unknown)
		}
		return
	case *ssa.ChangeType:
		v.elems(x.X, fr, seen, each, unknown)
		return
	case *ssa.MakeSlice:
		return
	case *ssa.Alloc:
		return // the array behind a slice expression: its stores were collected above
	case *ssa.Slice:
		v.elems(x.X, fr, seen, each, unknown)
		return
	case *ssa.UnOp:
		if x.Op == token.MUL {
			if vals, ok := cellValues(x.X); ok && len(vals) > 0 {
				for _, e := range vals {
					v.elems(e, fr, seen, each, unknown)
				}
				return
			}
		}
	case *ssa.Parameter:
		if w, ok := v.param(x, fr, func(a ssa.Value, afr *bindFrame) bool {
			v.elems(a, afr, seen, each, unknown)
			return true
		}); !ok {
			unknown(w)
		}
		return
	case *ssa.Call, *ssa.Extract:
		if call, ok := s.(*ssa.Call); ok {
			if b, isB := call.Call.Value.(*ssa.Builtin); isB && b.Name() == "append" {
				v.elems(call.Call.Args[0], fr, seen, each, unknown)
				if len(call.Call.Args) > 1 {
					v.elems(call.Call.Args[1], fr, seen, each, unknown)
				}
				return
			}
		}
		if call, callee, vals, ok := resultOrigins(v.c.w, s); ok && v.c.w.pkgPathOf(callee) == pkgParser {
			if fr.active(callee) {
				return
			}
			sub := &bindFrame{call: call, callee: callee, parent: fr}
			for _, rv := range vals {
				v.elems(rv, sub, map[ssa.Value]bool{}, each, unknown)
			}
			return
		}
		if call, ok := s.(*ssa.Call); ok {
			unknown("the list is the result of " + shortName(calleeName(&call.Call)))
			return
		}
	}
	unknown(fmt.Sprintf("the list has a form the rule does not know (%T)", s))
}
