package main

import (
	"fmt"
	"go/token"
	"go/types"

	"golang.org/x/tools/go/ssa"
)

func init() {
	register(&propDef{
		id:  "C11",
		run: runC11,
		explanation: "Decided (structural, for every query text, argument list and execution history): " +
			"C11.clone — in the binding function every store to a protobuf message field (also inside the callback handed to Walk) goes through the deep copy made by proto.Clone, never through the parsed query that was passed in; a binding function that rebuilds the query copy-on-write instead (new nodes only on the way to a replaced placeholder, the rest shared with the template) is accepted iff its result is a new root with lists of its own under which everything is made in this call or part of the template argument, and no helper of it writes into a list of nodes not made in this call (copy, indexed store, append to a re-slice x[:n] of the template's operand list); " +
			"C11.template — program-wide census: every store to a field of a generated message struct outside the generated package writes into a message created in that function (parser literals, a fresh ParseQuery result, the clone), and the statement types' stored query is assigned only at construction; hence a prepared statement's template cannot change between executions; " +
			"C11.bounds — every non-constant index into a slice that came in as a parameter in the parser package is bounded below and above by dominating tests relating it to the slice's length (symbolic comparison of loads of the same field path and linear offsets); " +
			"C11.bindall — the callback with which the binding function walks the clone never stops the walk (every return is the constant after which Walk continues, read off Walk's own test of the callback's result) and the binding function does not return before the walk unless no values were supplied: a placeholder number may occur several times, all occurrences are bound; for a rebuilding binder: the node binder has a case for every node kind with operands (read off the generated oneof), binds every operand field, returns the node unchanged only where every bound operand is the original one and otherwise a node of the same kind holding the bound operands, and the list binder's loop visits every element and keeps the bound version of each (path enumeration over the loop body with the invariant changed => list == bound prefix); " +
			"C11.stmtquery — every statement a prepare function of the driver returns carries the result of ParseQuery applied to that call's own query parameter (directly, via a parse helper or a constructor), never a statement or parse taken from a map or field; " +
			"C11.arity — both statement types compare the number of supplied values with the statement's placeholder count before binding, on every path, and return an error otherwise (the count may be read from a field of the statement that every store initialises, in the statement's literal, with the count of the query the same literal stores); C11.numinput — that count is the highest placeholder number: a running maximum (initialised to 0, updated only under `placeholder > maximum`) over a Walk whose callback never stops early. " +
			"NOT decided: that the n-th argument lands exactly in $n for all n (value-level); only the index expression, its bounds and the cloning are structural.",
		assumptions: []string{"proto.Clone makes a deep copy", "database/sql passes arguments in order", "go/ssa, dominance"},
	})
	register(&propDef{
		id:  "C12",
		run: runC12,
		explanation: "Decided (structural, for every dataset, query and option combination): " +
			"C12.width — the single total-count row is built only under a test that the group-by list is empty (a function of the result alone cannot distinguish 'group-by, nothing matched' from 'no group-by'); where the total count is handed to a row-building helper, the call is the construction site that must be so conditioned; " +
			"C12.errflow — errors of ParseQuery, of the protobuf-to-query conversion, of Index.Execute and of the RPC propagate out of Prepare/Query (tested against nil, no success return and no retry on the failing branch); " +
			"C12.cols — the column list is the group-by list followed by the constant \"count\"; the column-type methods split at len(cols)-1 with TEXT before and BIGINT at it; Next writes the count at index len(fields) and the fields at their own indices. " +
			"For rows stored as []driver.Value the same invariants are decided where the rows are built (every row placed into the row list is the group's values, appended in field-list order, followed by that group's count converted to int64, or the total count alone; a helper that builds the row is judged with its parameters bound to the arguments of the placing call: the group, or its field list — or a list of strings collected from it in order — and its count; an empty list and the total count) and Next must copy element i of the stored row to index i. " +
			"C12.rowsfresh — the row list (and, for slice rows, every row in it) is storage created for this result. " +
			"C12.bindall, C12.stmtquery — as C11.bindall and C11.stmtquery: the rows returned are those of the query text given, with every occurrence of a placeholder bound. " +
			"C12.bind — the query executed is the deep copy of the statement's template with the arguments written into the copy only, and nothing else modifies parsed queries (so repeated executions of a prepared statement see their own arguments); C12.cacheowner — a cache requested in the DSN is created for the one index being opened. " +
			"NOT decided: that row values and order equal the library's result (values; group order is passed through unchanged by the same loop, not proven equal); DSN option handling beyond C17.",
		assumptions: []string{"database/sql calls Rows methods as documented", "go/ssa, dominance"},
	})
}

// pbMessages: named struct types of the generated package that are protobuf messages (have a ProtoReflect method).
func pbMessages(c *Ctx) map[*types.Named]bool {
	out := map[*types.Named]bool{}
	p := c.w.Pkgs[pkgProto]
	if p == nil {
		return out
	}
	sc := p.Types.Scope()
	for _, name := range sc.Names() {
		tn, ok := sc.Lookup(name).(*types.TypeName)
		if !ok {
			continue
		}
		n, ok := tn.Type().(*types.Named)
		if !ok {
			continue
		}
		if _, isStruct := n.Underlying().(*types.Struct); !isStruct {
			continue
		}
		out[n] = true
	}
	return out
}

func runC11(c *Ctx) {
	if !c.need("C11.clone", c.a.ReplacePH, c.a.Walk, c.a.FileStmtQuery, c.a.GrpcStmtQuery, c.a.NumInput) {
		return
	}
	bindRules(c, "C11.clone", "C11.template")
	bindAllRule(c, "C11.bindall")
	stmtQueryRule(c, "C11.stmtquery")
	c11Rest(c)
}

// bindRules: binding writes only into the deep copy; statement templates are immutable (shared by C11 and C12).
func bindRules(c *Ctx, cloneRule, templateRule string) {
	msgs := pbMessages(c)
	fr := newFresh(c)
	// ---- clone: writes in the binding function and its closures
	bind := c.w.reach(c.a.ReplacePH)
	nStores := 0
	for _, fn := range bind.sorted() {
		if fn != c.a.ReplacePH && fn.Parent() != c.a.ReplacePH {
			// a helper of the binding function (a copy-on-write binder rebuilds the query in helpers): its stores into
			// message fields are judged by the census below, like every other function's. What the census does not see
			// are writes into a bare list of nodes that came in as a parameter (the operand list handed to a list
			// binder: `append(xs[:i], …)` overwrites the template's operands from i on, copy(xs, …), xs[i] = …).
			if c.w.pkgPathOf(fn) == pkgProto || !c.w.inModule(fn) {
				continue
			}
			for _, e := range fr.writes(fn) {
				if owner, _ := protectedField(c.w, e, msgs); owner != nil {
					nStores++
					continue
				}
				if owner := typeProtectedWrite(e, msgs); owner != nil {
					key := fmt.Sprintf("%s: %s list of %s", safeFname(fn), e.Kind, owner.Obj().Name())
					how := ""
					if e.Kind == "append-reslice" {
						how = " (an append to a re-slice xs[:i] keeps xs's backing array and overwrites its elements from i on)"
					}
					c.r.check(e.Fresh, cloneRule, key, "writes into a list made in this call", "the binder writes into a list of nodes that was not made in this call — the operand list of the caller's parsed query"+how+": the prepared statement's template is modified, so later executions see the previous arguments", c.w.ipos(e.Ins))
				}
			}
			continue
		}
		for _, e := range fr.writes(fn) {
			owner, fld := protectedField(c.w, e, msgs)
			if owner == nil {
				if owner := typeProtectedWrite(e, msgs); owner != nil {
					key := fmt.Sprintf("%s: %s list of %s", safeFname(fn), e.Kind, owner.Obj().Name())
					c.r.check(e.Fresh, cloneRule, key, "writes into a list made in this call", "the binding function writes into a list of nodes that was not made in this call: the caller's parsed query (the prepared statement's template) is modified, so later executions see the previous arguments", c.w.ipos(e.Ins))
				}
				continue
			}
			nStores++
			key := fmt.Sprintf("%s: %s %s.%s", safeFname(fn), e.Kind, owner.Obj().Name(), fld.Name())
			c.r.check(e.Fresh, cloneRule, key, "writes into the clone", "a placeholder is bound by writing into a message that is not the deep copy made in this call: the caller's parsed query (the prepared statement's template) is modified, so later executions see the previous arguments", c.w.ipos(e.Ins))
		}
	}
	if nStores == 0 {
		c.r.undecided(cloneRule, safeFname(c.a.ReplacePH), "the binding function does not store into any message field", c.w.pos(c.a.ReplacePH.Pos()))
	}
	// the result returned must be the clone as well
	allInstrs(c.a.ReplacePH, func(i ssa.Instruction) {
		if ret, ok := i.(*ssa.Return); ok && len(ret.Results) == 1 {
			rv := retVals(ret)[0]
			if fr.level(rv) == deep {
				c.r.ok(cloneRule, safeFname(c.a.ReplacePH)+": result", "returns the deep copy", c.w.ipos(i))
				return
			}
			// not a deep copy: a rebuilt query (new root, own lists, below it only this call's allocations and parts of
			// the template) is as good, given that nothing shared is ever written (the effect obligations)
			okCow, why := cowResult(c, fr, rv)
			if why != "" {
				why = " (a new root message, but " + why + ")"
			}
			c.r.check(okCow, cloneRule, safeFname(c.a.ReplacePH)+": result", "returns a new query built from this call's allocations and unwritten parts of the template",
				"the binding function returns a query that is not a deep copy made in this call"+why+": bound values leak into the template or into other executions", c.w.ipos(i))
		}
	})
	// ---- template: program-wide census outside the generated package
	n := 0
	for _, fn := range c.w.ModFuncs {
		if c.w.pkgPathOf(fn) == pkgProto {
			continue
		}
		if fn == c.a.ReplacePH || fn.Parent() == c.a.ReplacePH {
			continue
		}
		for _, e := range fr.writes(fn) {
			owner, fld := protectedField(c.w, e, msgs)
			if owner == nil {
				continue
			}
			n++
			key := fmt.Sprintf("%s: %s %s.%s", safeFname(fn), e.Kind, owner.Obj().Name(), fld.Name())
			c.r.check(e.Fresh, templateRule, key, "message created in this function", "a protobuf message that was not created in this function is modified: parsed queries held by prepared statements must never change", c.w.ipos(e.Ins))
		}
	}
	c.r.Stats["message_field_writes_outside_generated_code"] = n
	// statement template fields assigned only at construction
	// (the field is found by its type, *updogv1.Query, in the statement struct or in a struct it embeds: the statement
	// kinds may share a base struct that holds the query)
	// (the statement types: the implementers of driver.Stmt, rules_ag10.go; today's names only label a type that is missing)
	for k, t := range []*types.Named{c.a.FileStmtT, c.a.GrpcStmtT} {
		tn := []string{"fileStmt", "grpcStmt"}[k]
		if t != nil {
			tn = t.Obj().Name()
		}
		qs := stmtQueryFields(t)
		if len(qs) == 0 {
			c.r.undecided(templateRule, tn+".q", "statement type not found, or it has no field that holds the parsed query (*updogv1.Query), directly or in an embedded struct")
			continue
		}
		for _, q := range qs {
			key := tn + "." + q.name
			bad := 0
			for _, fn := range c.w.ModFuncs {
				for _, e := range fr.writes(fn) {
					for _, f := range e.fields() {
						if f == q.fld && !e.Fresh {
							bad++
							c.r.bad(templateRule, key+": store in "+safeFname(fn), "the statement's query template is assigned after construction", []string{c.w.ipos(e.Ins)})
						}
					}
				}
			}
			if bad == 0 {
				c.r.ok(templateRule, key, "assigned only when the statement is constructed")
			}
		}
	}
}

func c11Rest(c *Ctx) {
	// ---- bounds
	nIdx := 0
	for _, fn := range c.w.ModFuncs {
		if c.w.pkgPathOf(fn) != pkgParser {
			continue
		}
		allInstrs(fn, func(i ssa.Instruction) {
			ia, ok := i.(*ssa.IndexAddr)
			if !ok {
				return
			}
			if _, isSlice := ia.X.Type().Underlying().(*types.Slice); !isSlice {
				return
			}
			if _, isK := constInt(ia.Index); isK {
				return
			}
			// only slices that arrive as parameters (the argument list); locally built slices are indexed by their own loops
			root := path(ia.X).Root
			if _, isParam := spilledParam(root).(*ssa.Parameter); !isParam {
				if ld, ok := root.(*ssa.UnOp); !ok || !isParamCell(ld.X) {
					return
				}
			}
			nIdx++
			key := fmt.Sprintf("%s: index#%d", safeFname(fn), nIdx)
			ok2, why := c.fc.indexInBounds(ia.X, ia.Index, ia)
			c.r.check(ok2, "C11.bounds", key, "0 <= index < len guaranteed by dominating tests",
				"an argument slice is indexed without a bounds guarantee ("+why+"): too few arguments for the placeholders panic instead of yielding an error", c.w.ipos(i))
		})
	}
	if nIdx == 0 {
		c.r.undecided("C11.bounds", "parser", "no index into an argument slice found in the parser package")
	}
	// ---- arity
	for _, fn := range []*ssa.Function{c.a.FileStmtQuery, c.a.GrpcStmtQuery} {
		arityRule(c, "C11.arity", fn)
	}
	numInputRule(c, "C11.numinput")
}

func isParamCell(v ssa.Value) bool {
	cell := peelCell(v)
	al, ok := cell.(*ssa.Alloc)
	if !ok {
		return false
	}
	stores, esc := cellStores(al)
	if esc || len(stores) != 1 {
		return false
	}
	_, isParam := stores[0].Val.(*ssa.Parameter)
	return isParam
}

// argsParam: the parameter in which fn receives the rendered argument values of an execution: a []string (the last
// one, as ever), or failing that a struct of the driver package, passed by value, that holds them (wrapped).
func argsParam(fn *ssa.Function) (p *ssa.Parameter, wrapped bool) {
	for _, q := range fn.Params {
		if isStringSlice(q.Type()) {
			p = q
		}
	}
	if p != nil {
		return p, false
	}
	for _, q := range fn.Params {
		if len(argValuesFields(q.Type())) > 0 {
			p = q
		}
	}
	return p, p != nil
}

// wrappedValuesRead: v is a read of a []string field of the struct parameter p (`p.values`), and that field of p is
// never assigned in the function (a struct parameter whose fields are addressed lives in a local copy: the copy is
// written once, from the parameter, and the field only read) — so all such reads yield the slice the caller passed.
func wrappedValuesRead(v ssa.Value, p *ssa.Parameter) bool {
	pa := path(v)
	var fld *types.Var
	for _, s := range pa.Steps {
		if s.Elem || (s.Field != nil && fld != nil) {
			return false
		}
		if s.Field != nil {
			fld = s.Field
		}
	}
	if fld == nil || !isStringSlice(fld.Type()) || !isStringSlice(v.Type()) {
		return false
	}
	if _, isSlice := peel(v).(*ssa.Slice); isSlice {
		return false // a re-slice p.values[:k] is not the slice whose length was tested
	}
	if pa.Root == ssa.Value(p) {
		return true // read by Field instructions: the parameter is an immutable value
	}
	al, ok := pa.Root.(*ssa.Alloc)
	if !ok || spilledParam(al) != ssa.Value(p) {
		return false
	}
	for _, r := range referrers(al) {
		fa, ok := r.(*ssa.FieldAddr)
		if !ok || fieldOf(fa.X.Type(), fa.Field) != fld {
			continue
		}
		for _, rr := range referrers(fa) {
			switch rr.(type) {
			case *ssa.UnOp, *ssa.DebugRef:
			default:
				return false
			}
		}
	}
	return true
}

// forwardsToMethod: w does nothing but call a module function m with one of its free variables as the first argument
// (the receiver) and its own parameters as the remaining ones, and return what m returns — the synthetic wrapper of a
// method value `x.m`, or the closure `func(a…) T { return x.m(a…) }`. k is the index of that free variable.
func forwardsToMethod(w *ssa.Function) (m *ssa.Function, k int) {
	if w == nil || len(w.Blocks) != 1 {
		return nil, 0
	}
	var call *ssa.Call
	var ret *ssa.Return
	for _, i := range w.Blocks[0].Instrs {
		switch x := i.(type) {
		case *ssa.DebugRef:
		case *ssa.Call:
			if call != nil {
				return nil, 0
			}
			call = x
		case *ssa.Return:
			ret = x
		default:
			return nil, 0
		}
	}
	if call == nil || ret == nil || call.Call.IsInvoke() || len(call.Call.Args) != len(w.Params)+1 {
		return nil, 0
	}
	if len(ret.Results) != 1 || ret.Results[0] != ssa.Value(call) {
		return nil, 0
	}
	m = calleeFunc(&call.Call)
	fv, isFv := call.Call.Args[0].(*ssa.FreeVar)
	if m == nil || m.Blocks == nil || !isFv || len(m.Params) != len(call.Call.Args) {
		return nil, 0
	}
	for j, p := range w.Params {
		if call.Call.Args[j+1] != ssa.Value(p) {
			return nil, 0
		}
	}
	for j, v := range w.FreeVars {
		if v == fv {
			return m, j
		}
	}
	return nil, 0
}

func arityRule(c *Ctx, rule string, anchor *ssa.Function) {
	name := safeFname(anchor)
	// binding may happen in a helper shared by the statement kinds: analyse the function that calls the binding function
	fn := anchor
	var binds []ssa.Instruction
	for _, f := range c.scope(anchor, 2, c.a.ReplacePH, c.a.NumInput) {
		var bs []ssa.Instruction
		allInstrs(f, func(i ssa.Instruction) {
			if call, ok := i.(*ssa.Call); ok && calleeFunc(&call.Call) == c.a.ReplacePH {
				bs = append(bs, i)
			}
		})
		if len(bs) > 0 {
			fn, binds = f, bs
			break
		}
	}
	if len(binds) == 0 {
		c.r.undecided(rule, name, "the statement's query function does not call the binding function", c.w.pos(anchor.Pos()))
		return
	}
	if fn != anchor {
		// the helper must receive the statement's own values: the []string itself, the struct that wraps it, or the
		// wrapped []string read from that struct (as an argument or as the receiver of a method of the struct)
		avals, awrapped := argsParam(anchor)
		okPass := false
		allInstrs(anchor, func(i ssa.Instruction) {
			if call, ok := i.(*ssa.Call); ok && calleeFunc(&call.Call) == fn {
				for _, a := range call.Call.Args {
					if avals != nil && (a == ssa.Value(avals) || (awrapped && wrappedValuesRead(a, avals))) {
						okPass = true
					}
				}
			}
		})
		if !okPass {
			c.r.undecided(rule, name, "the helper that binds the placeholders is not given the statement's argument values directly", c.w.pos(anchor.Pos()))
			return
		}
	}
	// the values parameter; when the values arrive wrapped in a struct (`stmtArgs{values []string}`), the values are the
	// []string field of that parameter that is bound: every binding call must be given a read of one and the same field,
	// and that is the slice whose length the test must have looked at
	var vals ssa.Value
	vp, wrapped := argsParam(fn)
	if vp == nil {
		c.r.undecided(rule, name, "no []string parameter (and no struct parameter that holds the argument values)", c.w.pos(fn.Pos()))
		return
	}
	vals = vp
	if wrapped {
		vals = nil
		for _, b := range binds {
			var arg ssa.Value
			for _, a := range b.(*ssa.Call).Call.Args {
				if isStringSlice(a.Type()) {
					arg = a
				}
			}
			if arg == nil || !wrappedValuesRead(arg, vp) || (vals != nil && !sameSliceSource(arg, vals)) {
				c.r.undecided(rule, name, "the values bound are not read from (one field of) the struct in which the function receives the statement's argument values", c.w.ipos(b))
				return
			}
			if vals == nil {
				vals = arg
			}
		}
	}
	isCountCall := func(v ssa.Value) *ssa.Call {
		call, ok := peelConv(v).(*ssa.Call)
		if !ok {
			return nil
		}
		if f := calleeFunc(&call.Call); f != nil && (f == c.a.NumInput || (f.Name() == "NumInput" && c.w.pkgPathOf(f) == pkgDriver)) {
			return call
		}
		return nil
	}
	// the count may also be read from a field of the statement in which it was put when the statement was constructed
	// (the template never changes afterwards — C11.template —, so neither does its highest placeholder number)
	isCount := func(v ssa.Value) bool {
		return isCountCall(v) != nil || cachedCount(c, v, binds, isCountCall)
	}
	cut := func(pred, succ *ssa.BasicBlock) bool {
		iff, ok := pred.Instrs[len(pred.Instrs)-1].(*ssa.If)
		if !ok || len(pred.Succs) != 2 {
			return false
		}
		for _, cm := range trueCmps(fact{iff.Cond, pred.Succs[0] == succ}) {
			if cm.Y == nil {
				continue
			}
			x, y, op := cm.X, cm.Y, cm.Op
			if isCount(x) {
				x, y, op = y, x, swapOp(op)
			}
			// len(values) >= count  (or ==)
			if isLenOf(x, vals) && isCount(y) && (op == token.GEQ || op == token.EQL) {
				return true
			}
		}
		return false
	}
	// the test may live in a helper `check(n, values) error`: an edge on which that helper's error is known to be nil counts,
	// provided the helper returns nil only on paths that established len(values) >= n
	guardErrs := map[ssa.Value]bool{}
	allInstrs(fn, func(i ssa.Instruction) {
		call, ok := i.(*ssa.Call)
		if !ok {
			return
		}
		h := calleeFunc(&call.Call)
		if h == nil || !c.w.inModule(h) || h.Blocks == nil || h == c.a.ReplacePH || h == c.a.NumInput {
			return
		}
		res := h.Signature.Results()
		if res.Len() != 1 || !isErrorType(res.At(0).Type()) {
			return
		}
		var pv, pn ssa.Value
		for k, a := range call.Call.Args {
			if k >= len(h.Params) {
				continue
			}
			if a == vals || (wrapped && sameSliceSource(a, vals)) {
				pv = h.Params[k]
			}
			if isCount(a) {
				pn = h.Params[k]
			}
		}
		if pv == nil {
			return
		}
		hcut := func(pred, succ *ssa.BasicBlock) bool {
			iff, ok := pred.Instrs[len(pred.Instrs)-1].(*ssa.If)
			if !ok || len(pred.Succs) != 2 {
				return false
			}
			cnt := func(v ssa.Value) bool { return (pn != nil && peelConv(v) == pn) || isCount(v) }
			for _, cm := range trueCmps(fact{iff.Cond, pred.Succs[0] == succ}) {
				if cm.Y == nil {
					continue
				}
				x, y, op := cm.X, cm.Y, cm.Op
				if cnt(x) {
					x, y, op = y, x, swapOp(op)
				}
				if isLenOf(x, pv) && cnt(y) && (op == token.GEQ || op == token.EQL) {
					return true
				}
			}
			return false
		}
		if c.fc.pathAvoidingEdges(h, isSuccessReturn, nil, hcut) == nil {
			guardErrs[call] = true
		}
	})
	cut0 := cut
	cut = func(pred, succ *ssa.BasicBlock) bool {
		if cut0(pred, succ) {
			return true
		}
		iff, ok := pred.Instrs[len(pred.Instrs)-1].(*ssa.If)
		if !ok || len(pred.Succs) != 2 {
			return false
		}
		for _, cm := range trueCmps(fact{iff.Cond, pred.Succs[0] == succ}) {
			if cm.Op == token.EQL && cm.Y != nil && isNilConst(cm.Y) && guardErrs[cm.X] {
				return true
			}
		}
		return false
	}
	target := func(i ssa.Instruction) bool {
		for _, b := range binds {
			if b == i {
				return true
			}
		}
		return false
	}
	if p := c.fc.pathAvoidingEdges(fn, target, nil, cut); p != nil {
		c.r.bad(rule, name, "placeholders are bound on a path that has not established len(values) >= highest placeholder number: with too few arguments the statement runs a silently different query (or panics) instead of returning an error",
			[]string{c.w.ipos(p[len(p)-1])}, c.fc.witnessStrings(p)...)
		return
	}
	c.r.ok(rule, name, "binding is preceded on every path by a test that enough values were supplied", c.w.pos(fn.Pos()))
}

// ---------------- C12 ----------------

func runC12(c *Ctx) {
	if !c.need("C12.width", c.a.NewRows, c.a.FileStmtQuery, c.a.GrpcStmtQuery, c.a.ParseQuery, c.a.Execute, c.a.ToQuery) {
		return
	}
	c12Width(c)
	c12Errflow(c)
	c12Cols(c)
	c12RowsFresh(c)
	// bound arguments and DSN cache options are part of C12's quantifier: rows are the library's result only if the
	// executed query is the bound copy of an unmodified template and the cache belongs to this one index
	if c.a.ReplacePH != nil {
		bindRules(c, "C12.bind", "C12.bind")
		if c.a.Walk != nil {
			bindAllRule(c, "C12.bindall")
		}
	}
	stmtQueryRule(c, "C12.stmtquery")
	cacheOwnerRule(c, "C12.cacheowner")
}

func c12Width(c *Ctx) {
	const rule = "C12.width"
	fn := c.a.NewRows
	var result, groupBy ssa.Value
	for _, p := range fn.Params {
		if typeIs(p.Type(), pkgRoot, "Result") {
			result = p
		}
		if sl, ok := p.Type().Underlying().(*types.Slice); ok {
			if b, ok := sl.Elem().Underlying().(*types.Basic); ok && b.Kind() == types.String {
				groupBy = p
			}
		}
	}
	if result == nil || groupBy == nil {
		c.r.undecided(rule, safeFname(fn), "expected parameters (result *updog.Result, groupBy []string)", c.w.pos(fn.Pos()))
		return
	}
	countFld := structFieldNamed(c.w.namedType(pkgRoot, "Result"), "Count")
	// isTotal: val is result.Count (possibly converted and, when rows are stored as []driver.Value, boxed into the interface)
	isTotal := func(val ssa.Value) bool {
		if mi, isMI := val.(*ssa.MakeInterface); isMI {
			val = mi.X
		}
		ld, ok := peelConv(val).(*ssa.UnOp)
		if !ok || ld.Op != token.MUL {
			return false
		}
		p := path(ld.X)
		return p.lastField() == countFld && spilledParam(p.Root) == result
	}
	// the type of one stored row (element type of the rows type's row list)
	var rowType types.Type
	if c.a.RowsT != nil {
		if storage, kind := rowsStorage(c.a.RowsT); kind != rowsNone {
			rowType = storage.Type().Underlying().(*types.Slice).Elem()
		}
	}
	n := 0
	allInstrs(fn, func(i ssa.Instruction) {
		// the total-count row is built where result.Count is stored (into the row literal), or where it is handed to a
		// helper of the module that returns a row and puts this argument into it (newRow(nil, result.Count)): the
		// call is then the construction site, and it is the call that must be conditioned
		var st ssa.Instruction
		switch x := i.(type) {
		case *ssa.Store:
			if !isTotal(x.Val) {
				return
			}
			st = x
		case *ssa.Call:
			callee := calleeFunc(&x.Call)
			if callee == nil || !c.w.inModule(callee) || callee.Blocks == nil || !returnsType(callee, rowType) {
				return
			}
			found := false
			for k, a := range x.Call.Args {
				if isTotal(a) && k < len(callee.Params) && c.paramStored(callee.Params[k], 2) {
					found = true
				}
			}
			if !found {
				return
			}
			st = x
		default:
			return
		}
		n++
		key := fmt.Sprintf("%s: total row#%d", safeFname(fn), n)
		okGuard := false
		for _, cm := range cmpsAt(st) {
			if cm.Y == nil {
				continue
			}
			x, y, op := cm.X, cm.Y, cm.Op
			if _, isK := constInt(x); isK {
				x, y, op = y, x, swapOp(op)
			}
			k, isK := constInt(y)
			if !isK || !isLenOf(x, groupBy) {
				continue
			}
			if (op == token.EQL && k == 0) || (op == token.LEQ && k == 0) || (op == token.LSS && k == 1) {
				okGuard = true
			}
		}
		c.r.check(okGuard, rule, key, "built only when the group-by list is empty",
			"the total-count row is not conditioned on the group-by list being empty: a query with a group-by clause that matches no group yields one bogus row (total in the first column, NULL count) instead of no rows", c.w.ipos(st))
	})
	if n == 0 {
		c.r.bad(rule, safeFname(fn), "no row carrying the result's total count is ever built: a query without group-by returns no row", []string{c.w.pos(fn.Pos())})
	}
}

// returnsType: one of fn's results has type t.
func returnsType(fn *ssa.Function, t types.Type) bool {
	if t == nil {
		return false
	}
	res := fn.Signature.Results()
	for k := 0; k < res.Len(); k++ {
		if types.Identical(res.At(k).Type(), t) {
			return true
		}
	}
	return false
}

// paramStored: the value v (a parameter of a row-building helper) is stored somewhere by the helper — converted and
// boxed or not, directly or by a further helper of the module it is handed on to: it becomes part of what is built.
func (c *Ctx) paramStored(v ssa.Value, depth int) bool {
	for _, r := range referrers(v) {
		switch x := r.(type) {
		case *ssa.Convert, *ssa.ChangeType, *ssa.MakeInterface:
			if c.paramStored(x.(ssa.Value), depth) {
				return true
			}
		case *ssa.Store:
			if x.Val == v {
				return true
			}
		case *ssa.Call:
			g := calleeFunc(&x.Call)
			if g == nil || !c.w.inModule(g) || g.Blocks == nil || depth <= 0 {
				continue
			}
			for k, a := range x.Call.Args {
				if a == v && k < len(g.Params) && c.paramStored(g.Params[k], depth-1) {
					return true
				}
			}
		}
	}
	return false
}

func c12Errflow(c *Ctx) {
	const rule = "C12.errflow"
	targets := map[*ssa.Function]string{c.a.ParseQuery: "ParseQuery", c.a.Execute: "Index.Execute", c.a.ToQuery: "convert.ToQuery", c.a.OpenIndex: "OpenIndex"}
	n := 0
	for _, fn := range c.w.ModFuncs {
		if c.w.pkgPathOf(fn) != pkgDriver {
			continue
		}
		allInstrs(fn, func(i ssa.Instruction) {
			call, ok := i.(*ssa.Call)
			if !ok {
				return
			}
			what := ""
			if f := calleeFunc(&call.Call); f != nil {
				what = targets[f]
				if what == "" && c.w.pkgPathOf(f) == pkgDriver && f.Signature.Results().Len() > 0 && isErrorType(f.Signature.Results().At(f.Signature.Results().Len()-1).Type()) && f.Name() != "Close" {
					what = safeFname(f)
				}
			} else if call.Call.IsInvoke() && call.Call.Method.Name() == "Query" && typeIs(call.Call.Value.Type(), pkgProto, "QueryServiceClient") {
				what = "QueryServiceClient.Query"
			}
			if what == "" {
				return
			}
			sig := call.Call.Signature().Results()
			if sig.Len() == 0 || !isErrorType(sig.At(sig.Len()-1).Type()) {
				return
			}
			n++
			key := fmt.Sprintf("%s: %s", safeFname(fn), what)
			out := c.fc.errPropagated(fn, call, resultValue(call, sig.Len()-1))
			if out.ok {
				c.r.ok(rule, key, out.msg, c.w.ipos(call))
			} else {
				c.r.bad(rule, key, "error of "+what+" does not reach the caller: "+out.msg, []string{c.w.ipos(out.site)}, c.fc.witnessStrings(out.witness)...)
			}
		})
	}
	c.r.expect(rule, 6)
}

func c12Cols(c *Ctx) {
	const rule = "C12.cols"
	// (the rows type = the implementer of driver.Rows; cols = its []string field, the one Columns() returns; rules_ag10.go)
	rowsT := c.a.RowsT
	if rowsT == nil {
		c.r.undecided(rule, "rows", "type not found"+c.a.SH.whyText())
		return
	}
	cols := c.a.RowsColsF
	if cols == nil {
		c.r.undecided(rule, "rows", "the column-list field of the rows type was not found"+c.a.SH.whyText())
		return
	}
	// (a) newRows: cols = append(groupBy, "count")
	fn := c.a.NewRows
	var groupBy ssa.Value
	for _, p := range fn.Params {
		if sl, ok := p.Type().Underlying().(*types.Slice); ok {
			if b, ok := sl.Elem().Underlying().(*types.Basic); ok && b.Kind() == types.String {
				groupBy = p
			}
		}
	}
	okCols := false
	allInstrs(fn, func(i ssa.Instruction) {
		st, ok := i.(*ssa.Store)
		if !ok {
			return
		}
		fa, ok := st.Addr.(*ssa.FieldAddr)
		if !ok || fieldOf(fa.X.Type(), fa.Field) != cols {
			return
		}
		call, ok := st.Val.(*ssa.Call)
		if !ok {
			return
		}
		if b, ok := call.Call.Value.(*ssa.Builtin); !ok || b.Name() != "append" || len(call.Call.Args) != 2 {
			return
		}
		if call.Call.Args[0] != groupBy {
			return
		}
		// the variadic slice holds exactly the constant "count"
		if sl, ok := call.Call.Args[1].(*ssa.Slice); ok {
			if al, ok := sl.X.(*ssa.Alloc); ok {
				if arr, ok := al.Type().Underlying().(*types.Pointer).Elem().Underlying().(*types.Array); ok && arr.Len() == 1 {
					for _, r := range referrers(al) {
						if ia, ok := r.(*ssa.IndexAddr); ok {
							for _, rr := range referrers(ia) {
								if s2, ok := rr.(*ssa.Store); ok {
									if v, ok := constString(s2.Val); ok && v == "count" {
										okCols = true
									}
								}
							}
						}
					}
				}
			}
		}
	})
	c.r.check(okCols, rule, "newRows: columns", "columns = group-by list followed by \"count\"", "the reported columns are not the group-by columns followed by \"count\"", c.w.pos(fn.Pos()))
	// (b) column type methods split at len(cols)-1
	for _, m := range []struct{ name, before, at string }{{"ColumnTypeDatabaseTypeName", "TEXT", "BIGINT"}, {"ColumnTypeScanType", "", ""}, {"ColumnTypeLength", "", ""}} {
		f := c.a.methodOf(rowsT, m.name)
		if f == nil {
			c.r.undecided(rule, "rows."+m.name, "method not found")
			continue
		}
		var idx ssa.Value
		if len(f.Params) >= 2 {
			idx = f.Params[1]
		}
		okSplit := false
		valueOnTrue := true
		var theIf *ssa.If
		allInstrs(f, func(i ssa.Instruction) {
			iff, ok := i.(*ssa.If)
			if !ok {
				return
			}
			if vt, ok := colSplit(c, iff.Cond, idx, cols, 0); ok {
				okSplit, valueOnTrue, theIf = true, vt, iff
			}
		})
		if !okSplit {
			c.r.bad(rule, "rows."+m.name, "the method does not distinguish value columns from the count column by `index < len(cols)-1`", []string{c.w.pos(f.Pos())})
			continue
		}
		if m.before != "" {
			// returns on the true branch yield "TEXT", on the false branch "BIGINT"
			okNames := true
			allInstrs(f, func(i ssa.Instruction) {
				ret, ok := i.(*ssa.Return)
				if !ok || len(ret.Results) != 1 {
					return
				}
				v, isK := constString(retVals(ret)[0])
				if !isK {
					okNames = false
					return
				}
				onTrue := theIf.Block().Succs[0] == ret.Block() || theIf.Block().Succs[0].Dominates(ret.Block())
				if !valueOnTrue {
					onTrue = !onTrue // the branch tests "is the count column"
				}
				if (onTrue && v != m.before) || (!onTrue && v != m.at) {
					okNames = false
				}
			})
			c.r.check(okNames, rule, "rows."+m.name, "TEXT for value columns, BIGINT for the count column", "the column type names are not TEXT for the group-by columns and BIGINT for the count", c.w.pos(f.Pos()))
		} else {
			c.r.ok(rule, "rows."+m.name, "splits at len(cols)-1", c.w.pos(f.Pos()))
		}
	}
	// (c) Next: count written at len(fields)
	next := c.a.methodOf(rowsT, "Next")
	if next == nil {
		c.r.undecided(rule, "rows.Next", "method not found")
		return
	}
	// the rows are kept either as structs {fields, count}, from which Next assembles the row, or already in the shape
	// Next hands out: []driver.Value = the group's values followed by the count
	storage, kind := rowsStorage(rowsT)
	if kind == rowsSlice {
		c12ColsSliceRows(c, rule, rowsT, storage, next)
		return
	}
	// (the row type = element type of the slice-of-struct field; fields = its []string, count = its uint64 field; rules_ag10.go)
	rowT := c.a.RowT
	if kind == rowsStruct {
		if n := namedOf(storage.Type().Underlying().(*types.Slice).Elem()); n != nil {
			rowT = n
		}
	}
	fieldsF, countF := c.a.RowFieldsF, c.a.RowCountF
	if rowT == nil || rowT != c.a.RowT || fieldsF == nil || countF == nil {
		c.r.undecided(rule, "rows.Next", "the row type or its value-list / count fields were not found"+c.a.SH.whyText(), c.w.pos(next.Pos()))
		return
	}
	okCount, okFields := false, false
	var dest ssa.Value
	if len(next.Params) >= 2 {
		dest = next.Params[1]
	}
	allInstrs(next, func(i ssa.Instruction) {
		st, ok := i.(*ssa.Store)
		if !ok {
			return
		}
		ia, ok := st.Addr.(*ssa.IndexAddr)
		if !ok || ia.X != dest {
			return
		}
		src := st.Val
		if mi, ok := src.(*ssa.MakeInterface); ok {
			src = mi.X
		}
		sp := path(peelConv(src))
		switch {
		case sp.lastField() == countF:
			// index must be len(<row>.fields)
			// accepted positions: len(fields), len(values)-1, len(cols)-1 (all equal: database/sql sizes values by Columns())
			ib, io := lin(ia.Index)
			if call, ok := ib.(*ssa.Call); ok {
				if b, ok := call.Call.Value.(*ssa.Builtin); ok && b.Name() == "len" {
					arg := call.Call.Args[0]
					switch {
					case io == 0 && path(arg).lastField() == fieldsF:
						okCount = true
					case io == -1 && (arg == dest || path(arg).lastField() == cols):
						okCount = true
					}
				}
			}
		case sp.hasField(fieldsF):
			// fields[i] -> values[i]: same loop index
			if li, ok := peel(src).(*ssa.UnOp); ok {
				if sia, ok := li.X.(*ssa.IndexAddr); ok && sia.Index == ia.Index {
					okFields = true
				}
			}
		}
	})
	c.r.check(okCount, rule, "rows.Next: count", "count stored at index len(fields)", "Next does not store the count right after the group's values (index len(fields))", c.w.pos(next.Pos()))
	c.r.check(okFields, rule, "rows.Next: fields", "field i stored at index i", "Next does not copy the group's values to the same positions", c.w.pos(next.Pos()))
}

func isLenOfField(v ssa.Value, f *types.Var) bool {
	call, ok := peelConv(v).(*ssa.Call)
	if !ok {
		return false
	}
	if b, ok := call.Call.Value.(*ssa.Builtin); !ok || b.Name() != "len" {
		return false
	}
	return path(call.Call.Args[0]).lastField() == f
}

// numInputRule: the number the arity test compares against is the highest placeholder number of the statement:
// a running maximum over all Placeholder fields visited by Walk (which must visit every node: the callback always
// returns true), starting at 0.
// The maximum lives in a local variable the callback closes over, or in a field of a local struct object of which the
// callback is a closure or a method value (`ps := placeholderScan{}; Walk(q, ps.visit); return int(ps.highest)`): then
// the method is judged like the closure, with its receiver standing for the object — provided the object bound to the
// method value is the one whose field is returned, and the object is used for nothing else.
func numInputRule(c *Ctx, rule string) {
	fn := c.a.NumInput
	name := safeFname(fn)
	site := c.w.pos(fn.Pos())
	eqT := c.w.namedType(pkgProto, "Query_Expression_Equal")
	ph := structFieldNamed(eqT, "Placeholder")
	var cb *ssa.Function
	var mkcb *ssa.MakeClosure
	allInstrs(fn, func(i ssa.Instruction) {
		if call, ok := i.(*ssa.Call); ok && (calleeFunc(&call.Call) == c.a.Walk || calleeFunc(&call.Call) == c.a.WalkInner) && len(call.Call.Args) == 2 {
			if mc, ok := call.Call.Args[1].(*ssa.MakeClosure); ok {
				cb, _ = mc.Fn.(*ssa.Function)
				mkcb = mc
			}
		}
	})
	if cb == nil || ph == nil {
		c.r.undecided(rule, name, "the placeholder count is not computed by a Walk callback; the rule recognises a running maximum only", site)
		return
	}
	// returned value: load of a cell initialised with 0 — a local variable, or a field of a local struct object
	var cell ssa.Value   // the variable, or the struct object
	var cellF *types.Var // the field of the object (nil: the variable itself)
	okRet := true
	allInstrs(fn, func(i ssa.Instruction) {
		ret, ok := i.(*ssa.Return)
		if !ok {
			return
		}
		ld, ok := peelConv(retVals(ret)[0]).(*ssa.UnOp)
		if !ok || ld.Op != token.MUL {
			okRet = false
			return
		}
		if fa, isFa := ld.X.(*ssa.FieldAddr); isFa {
			if obj, isAlloc := fa.X.(*ssa.Alloc); isAlloc {
				cell, cellF = obj, fieldOf(fa.X.Type(), fa.Field)
				return
			}
		}
		cell, cellF = ld.X, nil
	})
	if !okRet || cell == nil {
		c.r.bad(rule, name, "the function does not return the running maximum it computes", []string{site})
		return
	}
	// the callback a method value x.visit: the method, whose receiver stands for the object bound — which must be the
	// object whose field is returned (a scan into another object leaves the returned maximum at 0)
	// (go/ssa's wrapper of the method value, or a hand-written closure of the same form: `func(e) bool { return x.visit(e) }`)
	var recv ssa.Value
	if m, k := forwardsToMethod(cb); m != nil {
		if cellF != nil && k < len(mkcb.Bindings) && mkcb.Bindings[k] == cell {
			recv = m.Params[0]
		}
		cb = m
	}
	// isMax: addr is the address of the running maximum, seen from fn or from the callback
	isMax := func(addr ssa.Value) bool {
		if cellF == nil {
			return peelCell(addr) == cell
		}
		fa, ok := addr.(*ssa.FieldAddr)
		if !ok || fieldOf(fa.X.Type(), fa.Field) != cellF {
			return false
		}
		return (recv != nil && fa.X == recv) || peelCell(fa.X) == cell
	}
	// the running maximum starts at 0: explicitly, or as the zero value of a variable declared without initialiser
	okInit := true
	if _, isAlloc := cell.(*ssa.Alloc); !isAlloc {
		okInit = false
	}
	allInstrs(fn, func(i ssa.Instruction) {
		if st, ok := i.(*ssa.Store); ok && (st.Addr == cell || isMax(st.Addr)) {
			if k, isK := constInt(st.Val); !isK || k != 0 {
				okInit = false
			}
		}
	})
	why := ""
	if !okInit {
		why = "the maximum does not start at 0"
	}
	if cellF != nil && okInit {
		// the object: created here, zero or with fields set one by one, handed to the callback and read — nothing else
		// (copied from another object, passed to a helper that could set the field: not followed)
		for _, r := range referrers(cell) {
			switch x := r.(type) {
			case *ssa.DebugRef:
			case *ssa.MakeClosure:
				if x != mkcb {
					okInit = false
				}
			case *ssa.FieldAddr:
				for _, rr := range referrers(x) {
					switch y := rr.(type) {
					case *ssa.DebugRef, *ssa.UnOp:
					case *ssa.Store:
						if y.Addr != ssa.Value(x) {
							okInit = false
						}
					default:
						okInit = false
					}
				}
			default:
				okInit = false
			}
		}
		if !okInit {
			why = "the object that holds the maximum is used in ways the rule does not follow (copied, passed on, or its field's address taken)"
		}
	}
	// the callback: every store to the cell stores a Placeholder load under `that placeholder > current value`
	nSt, okSt := 0, true
	allInstrs(cb, func(i ssa.Instruction) {
		switch x := i.(type) {
		case *ssa.Store:
			if !isMax(x.Addr) {
				return
			}
			nSt++
			if srcField(x.Val) != ph {
				okSt, why = false, "something other than a placeholder number is stored as the maximum"
				return
			}
			guard := false
			for _, cm := range cmpsAt(x) {
				if cm.Y == nil {
					continue
				}
				a, b, op := cm.X, cm.Y, cm.Op
				if op == token.LSS {
					a, b, op = b, a, token.GTR
				}
				if op != token.GTR {
					continue
				}
				if srcField(a) == ph && c.fc.samePathLoad(a, x.Val) {
					if ld, ok := b.(*ssa.UnOp); ok && ld.Op == token.MUL && isMax(ld.X) {
						guard = true
					}
				}
			}
			if !guard {
				okSt, why = false, "the maximum is updated without the test `placeholder > current maximum`"
			}
		case *ssa.Return:
			if b, isK := constBool(x.Results[0]); !isK || !b {
				okSt, why = false, "the callback can stop the walk early, so placeholders in the rest of the tree are not counted"
			}
		}
	})
	if nSt == 0 {
		okSt, why = false, "the callback never updates the maximum"
	}
	c.r.check(okRet && okInit && okSt, rule, name, "highest placeholder number: running maximum over every node, starting at 0",
		"the value compared with the number of arguments is not the highest placeholder number ("+why+"): with gaps or repeats in the numbering too few arguments pass the arity test and a placeholder stays unbound", site)
}

// c12RowsFresh: the row storage of a result set is created for that result set. Every value stored into the slice-of-rows
// field of the rows type is fresh (a literal, make, or an append chain that starts from a fresh or nil slice) — never a
// buffer that outlives the call (a field of the connection or statement, a parameter bound to one): database/sql allows
// a second query on the same driver connection object while the rows of the first are still being read (the file
// connection is shared by all pool slots; sql.Tx), so recycled storage lets a later query overwrite rows an earlier
// reader has not fetched yet. When the rows are slices themselves ([]driver.Value), the same holds for every row placed
// into the list.
func c12RowsFresh(c *Ctx) {
	const rule = "C12.rowsfresh"
	rowsT := c.a.RowsT
	if rowsT == nil {
		c.r.undecided(rule, "<anchor>", "rows type not found"+c.a.SH.whyText())
		return
	}
	fld, kind := rowsStorage(rowsT)
	if fld == nil {
		c.r.undecided(rule, "<anchor>", "the rows type has no slice-of-row field (rows are structs or slices of driver.Value)")
		return
	}
	fr := newFresh(c)
	n := 0
	for _, fn := range c.w.ModFuncs {
		if c.w.pkgPathOf(fn) != pkgDriver {
			continue
		}
		allInstrs(fn, func(i ssa.Instruction) {
			st, ok := i.(*ssa.Store)
			if !ok {
				return
			}
			const staleRowMsg = "a row of the result is kept in a slice that was not created for this row (a recycled buffer, a field, a caller's slice): a later row or a later query on the same connection overwrites values an earlier reader has not fetched yet"
			if ia, isIA := st.Addr.(*ssa.IndexAddr); isIA && kind == rowsSlice {
				// rows[i] = row: a row that is a slice itself is storage of its own as well
				if ld, isLd := ia.X.(*ssa.UnOp); isLd && ld.Op == token.MUL && path(ld.X).lastField() == fld {
					n++
					key := fmt.Sprintf("%s: store rows.%s[i]#%d", safeFname(fn), fld.Name(), n)
					c.r.check(isNilConst(st.Val) || fr.level(st.Val) >= shallow, rule, key, "the row is created for this result", staleRowMsg, c.w.ipos(st))
				}
				return
			}
			fa, ok := st.Addr.(*ssa.FieldAddr)
			if !ok || fieldOf(fa.X.Type(), fa.Field) != fld {
				return
			}
			n++
			key := fmt.Sprintf("%s: store rows.%s#%d", safeFname(fn), fld.Name(), n)
			// rows that are slices themselves: every row placed into the list is storage of its own as well
			staleRow := false
			if kind == rowsSlice {
				placed, _ := rowsPlaced(st.Val, fld)
				for _, rv := range placed {
					if !isNilConst(rv) && fr.level(rv) < shallow {
						staleRow = true
					}
				}
			}
			if staleRow {
				c.r.bad(rule, key, staleRowMsg, []string{c.w.ipos(st)})
			} else if isNilConst(st.Val) || fr.level(st.Val) >= shallow {
				c.r.ok(rule, key, "row storage is created for this result", c.w.ipos(st))
			} else {
				c.r.bad(rule, key, "the rows of a result are kept in storage that was not created for this result (a recycled buffer, a field, a caller's slice): a later query on the same connection can overwrite rows that an earlier reader has not fetched yet", []string{c.w.ipos(st)})
			}
		})
	}
	if n == 0 {
		c.r.undecided(rule, "<vacuity>", "no store to the row list of the rows type found")
	}
}

// colSplit: cond separates the value columns (index < len(cols)-1) from the count column (index == len(cols)-1).
// Accepted: any comparison of index (plus a constant) with len(cols) (plus a constant) that is equivalent to one of
// `index < len-1` (value columns on the true branch) or `index >= len-1`, `index == len-1` (count column on the true
// branch), a negation of one, or a call of a module predicate that returns such a comparison of its parameter.
// valueOnTrue tells which branch the value columns take.
func colSplit(c *Ctx, cond, idx ssa.Value, cols *types.Var, depth int) (valueOnTrue bool, ok bool) {
	if depth > 2 {
		return false, false
	}
	if u, isU := cond.(*ssa.UnOp); isU && u.Op == token.NOT {
		v, ok := colSplit(c, u.X, idx, cols, depth+1)
		return !v, ok
	}
	if call, isCall := cond.(*ssa.Call); isCall {
		h := calleeFunc(&call.Call)
		if h == nil || !c.w.inModule(h) || h.Blocks == nil {
			return false, false
		}
		for k, a := range call.Call.Args {
			if peelConv(a) != idx || k >= len(h.Params) {
				continue
			}
			// every return of the predicate is the same kind of comparison
			n, all, val := 0, true, false
			allInstrs(h, func(i ssa.Instruction) {
				ret, isRet := i.(*ssa.Return)
				if !isRet || len(ret.Results) != 1 {
					return
				}
				n++
				v, ok := colSplit(c, ret.Results[0], h.Params[k], cols, depth+1)
				if !ok || (n > 1 && v != val) {
					all = false
				}
				val = v
			})
			if n > 0 && all {
				return val, true
			}
		}
		return false, false
	}
	for _, cm := range trueCmps(fact{cond, true}) {
		if cm.Y == nil {
			continue
		}
		x, y, op := cm.X, cm.Y, cm.Op
		xb, xo := lin(x)
		yb, yo := lin(y)
		if isLenOfField(xb, cols) && peelConv(yb) == idx {
			xb, xo, yb, yo, op = yb, yo, xb, xo, swapOp(op)
		}
		if peelConv(xb) != idx || !isLenOfField(yb, cols) {
			continue
		}
		d := yo - xo // index op len + d
		switch {
		case op == token.LSS && d == -1, op == token.LEQ && d == -2, op == token.NEQ && d == -1:
			return true, true
		case op == token.GEQ && d == -1, op == token.GTR && d == -2, op == token.EQL && d == -1:
			return false, true
		}
	}
	return false, false
}
