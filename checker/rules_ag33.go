package main

// Copy-on-write binding of placeholders (C11.clone / C12.bind and C11.bindall / C12.bindall).
//
// The binding function need not deep-copy the parsed query and patch the copy. It may also REBUILD the query: a node
// binder B(e) returns e itself when nothing below e was replaced and otherwise a new node that carries the bound
// operands, so that only the nodes on a path from the root to a replaced placeholder are new and every other sub-tree
// is shared with the template. That is as good as the deep copy iff
//
//	(effect)    nothing the binder writes lies in memory that existed before the call (EFFECT over everything reachable
//	            from the binding function: stores, copy, and appends whose base is a re-slice x[:n] of a list that was
//	            not made here — such an append overwrites x's elements from n on);
//	(origin)    the query handed out is a new root message whose own lists are its own, and everything below it is made
//	            in this call, is part of the template argument, or carries no references (cowOrigin) — nothing from a
//	            global, a cache or a previous execution;
//	(traversal) the rebuild visits every node: B has a case for every node kind that has operands, binds every operand
//	            field in it, returns the node unchanged only where every bound operand is identical to the original one,
//	            and otherwise a node of the same kind that holds the bound operands; the helper that binds an operand
//	            list visits every element and its result holds the bound version of every element (cowBindAll).
//
// The node kinds and their operand fields are read off the generated types (cowTreeOf), never off names.

import (
	"fmt"
	"go/token"
	"go/types"
	"sort"
	"strings"

	"golang.org/x/tools/go/ssa"
)

// ---------------- the expression tree as the generated types describe it ----------------

// A cowKind is one alternative of the node's oneof: the wrapper struct W (*W implements the oneof interface), the
// message M it points to, and M's fields: operands (a node, a list of nodes) and the rest.
type cowKind struct {
	W      *types.Named
	inner  int // W's field that points to M
	M      *types.Named
	single []int // fields of M of type *N
	list   []int // fields of M of type []*N
	other  []int // other exported fields of M
}

func (k *cowKind) operands() []int { return append(append([]int{}, k.single...), k.list...) }

type cowTree struct {
	root     *types.Named // the query message
	exprFlds []int        // the root's fields of type *N
	N        *types.Named // the expression node
	oneof    int          // N's field of the oneof interface type
	kinds    []*cowKind
}

func ptrTo(t types.Type) *types.Named {
	p, ok := t.Underlying().(*types.Pointer)
	if !ok {
		return nil
	}
	n, _ := types.Unalias(p.Elem()).(*types.Named)
	return n
}

func structOf(n *types.Named) *types.Struct {
	if n == nil {
		return nil
	}
	st, _ := n.Underlying().(*types.Struct)
	return st
}

// cowTreeOf reads the tree shape off the result type of the binding function: the root message, its fields that point
// to a message with a oneof (an interface-typed field declared in the generated package), and the oneof's alternatives.
func cowTreeOf(c *Ctx) *cowTree {
	fn := c.a.ReplacePH
	p := c.w.Pkgs[pkgProto]
	if fn == nil || p == nil || fn.Signature.Results().Len() != 1 {
		return nil
	}
	inGen := func(n *types.Named) bool {
		return n != nil && n.Obj().Pkg() != nil && n.Obj().Pkg().Path() == pkgProto
	}
	t := &cowTree{root: ptrTo(fn.Signature.Results().At(0).Type())}
	rst := structOf(t.root)
	if !inGen(t.root) || rst == nil {
		return nil
	}
	var iface *types.Interface
	for i := 0; i < rst.NumFields(); i++ {
		n := ptrTo(rst.Field(i).Type())
		nst := structOf(n)
		if !inGen(n) || nst == nil {
			continue
		}
		for j := 0; j < nst.NumFields(); j++ {
			in, _ := types.Unalias(nst.Field(j).Type()).(*types.Named)
			if !inGen(in) {
				continue
			}
			it, ok := in.Underlying().(*types.Interface)
			if !ok || it.NumMethods() == 0 {
				continue
			}
			if t.N != nil && (t.N != n || t.oneof != j) {
				return nil // more than one candidate: not the shape this knows
			}
			t.N, t.oneof, iface = n, j, it
		}
		if t.N == n {
			t.exprFlds = append(t.exprFlds, i)
		}
	}
	if t.N == nil {
		return nil
	}
	nodePtr := types.NewPointer(t.N)
	sc := p.Types.Scope()
	for _, name := range sc.Names() {
		tn, ok := sc.Lookup(name).(*types.TypeName)
		if !ok {
			continue
		}
		w, ok := tn.Type().(*types.Named)
		wst := structOf(w)
		if !ok || wst == nil || !types.Implements(types.NewPointer(w), iface) {
			continue
		}
		k := &cowKind{W: w, inner: -1}
		for i := 0; i < wst.NumFields(); i++ {
			if m := ptrTo(wst.Field(i).Type()); inGen(m) && structOf(m) != nil {
				if k.inner >= 0 {
					return nil
				}
				k.inner, k.M = i, m
			}
		}
		if k.inner < 0 {
			continue // an alternative that holds a scalar: no operands, nothing to rebuild
		}
		mst := structOf(k.M)
		for i := 0; i < mst.NumFields(); i++ {
			f := mst.Field(i)
			switch {
			case types.Identical(f.Type(), nodePtr):
				k.single = append(k.single, i)
			case types.Identical(f.Type(), types.NewSlice(nodePtr)):
				k.list = append(k.list, i)
			case f.Exported():
				k.other = append(k.other, i)
			}
		}
		t.kinds = append(t.kinds, k)
	}
	return t
}

// ---------------- small matchers ----------------

// ag33FieldLoad: v is a load of field idx of the object base points to.
func ag33FieldLoad(v ssa.Value, idx int) (base ssa.Value, ok bool) {
	ld, isLd := peel(v).(*ssa.UnOp)
	if !isLd || ld.Op != token.MUL {
		return nil, false
	}
	fa, isFa := ld.X.(*ssa.FieldAddr)
	if !isFa || fa.Field != idx {
		return nil, false
	}
	return fa.X, true
}

// storedField: the one value stored into field idx of a freshly allocated struct (a composite literal).
func storedField(al *ssa.Alloc, idx int) (ssa.Value, bool) {
	var vals []ssa.Value
	for _, r := range referrers(al) {
		fa, ok := r.(*ssa.FieldAddr)
		if !ok || fa.Field != idx {
			continue
		}
		for _, rr := range referrers(fa) {
			if st, ok := rr.(*ssa.Store); ok && st.Addr == ssa.Value(fa) {
				vals = append(vals, st.Val)
			}
		}
	}
	if len(vals) != 1 {
		return nil, false
	}
	return vals[0], true
}

func sameLin(a, b ssa.Value) bool {
	ba, oa := lin(a)
	bb, ob := lin(b)
	return ba == bb && oa == ob
}

// hasBool: the facts say that boolean v is val.
func hasBool(cms []cmp, v ssa.Value, val bool) bool {
	for _, cm := range cms {
		if cm.Y == nil && cm.X == v && (cm.Op == token.EQL) == val {
			return true
		}
	}
	return false
}

// hasEq: the facts say a == b.
func hasEq(cms []cmp, a, b ssa.Value) bool {
	for _, cm := range cms {
		if cm.Op != token.EQL || cm.Y == nil {
			continue
		}
		if (cm.X == a && cm.Y == b) || (cm.X == b && cm.Y == a) {
			return true
		}
	}
	return false
}

func hasNil(cms []cmp, is func(ssa.Value) bool) bool {
	for _, cm := range cms {
		if cm.Op == token.EQL && cm.Y != nil && isNilConst(cm.Y) && is(cm.X) {
			return true
		}
	}
	return false
}

// ---------------- (traversal) C11.bindall / C12.bindall for a rebuilding binder ----------------

type cowFinding struct {
	bad  bool // a positively identified defect (else: a shape this does not follow)
	msg  string
	site string
}

type cowFindings []cowFinding

func (f *cowFindings) bad(msg, site string) { *f = append(*f, cowFinding{true, msg, site}) }
func (f *cowFindings) und(msg, site string) { *f = append(*f, cowFinding{false, msg, site}) }
func (f cowFindings) report(c *Ctx, rule, key, okmsg, consequence, site string) {
	if len(f) == 0 {
		c.r.ok(rule, key, okmsg, site)
		return
	}
	sort.SliceStable(f, func(i, j int) bool { return f[i].bad && !f[j].bad })
	var msgs, sites []string
	seen := map[string]bool{}
	for _, x := range f {
		if x.bad == f[0].bad && !seen[x.msg] {
			seen[x.msg] = true
			msgs = append(msgs, x.msg)
			sites = append(sites, x.site)
		}
	}
	if f[0].bad {
		c.r.bad(rule, key, strings.Join(msgs, "; ")+": "+consequence, sites)
		return
	}
	c.r.undecided(rule, key, "not followed: "+strings.Join(msgs, "; "), sites...)
}

type cowNodeBinder struct {
	c     *Ctx
	rule  string
	t     *cowTree
	B     *ssa.Function
	k     int // B's node parameter
	lists map[*ssa.Function]bool
}

const cowUnbound = "placeholders in that part of the query stay unbound (or bound operands are lost) and the statement answers a different query than the one given"

// cowBindAll decides the traversal obligations for a binding function that rebuilds the query instead of walking a
// clone. It returns false when the binding function does not have that shape at all (the caller then reports that it
// can decide the traversal for Walk only).
func cowBindAll(c *Ctx, rule string) bool {
	fn := c.a.ReplacePH
	t := cowTreeOf(c)
	if t == nil || len(t.exprFlds) == 0 || len(fn.Params) == 0 {
		return false
	}
	var tmpl *ssa.Parameter
	for _, p := range fn.Params {
		if ptrTo(p.Type()) == t.root {
			tmpl = p
		}
	}
	if tmpl == nil {
		return false
	}
	name := safeFname(fn)
	rst := structOf(t.root)
	nb := &cowNodeBinder{c: c, rule: rule, t: t, lists: map[*ssa.Function]bool{}}
	// every query the binding function returns is a new root whose expression is B(template's expression)
	type rootRet struct {
		ret *ssa.Return
		al  *ssa.Alloc
	}
	var rets []rootRet
	shape := true
	allInstrs(fn, func(i ssa.Instruction) {
		ret, ok := i.(*ssa.Return)
		if !ok || isRecoverBlockReturn(ret) || len(ret.Results) != 1 {
			return
		}
		al, isAl := peel(retVals(ret)[0]).(*ssa.Alloc)
		if !isAl || ptrTo(al.Type()) != t.root {
			shape = false
			return
		}
		rets = append(rets, rootRet{ret, al})
	})
	if !shape || len(rets) == 0 {
		return false
	}
	var fs cowFindings
	for _, r := range rets {
		for _, fi := range t.exprFlds {
			fname := rst.Field(fi).Name()
			val, ok := storedField(r.al, fi)
			if !ok {
				fs.bad("the query returned has no "+fname, c.w.ipos(r.ret))
				continue
			}
			if b, isT := ag33FieldLoad(val, fi); isT && peel(b) == ssa.Value(tmpl) {
				fs.bad("the query returned carries the template's "+fname+" as it is, placeholders included", c.w.ipos(r.ret))
				continue
			}
			call, isCall := peel(val).(*ssa.Call)
			var g *ssa.Function
			if isCall {
				g = calleeFunc(&call.Call)
			}
			if g == nil || !c.w.inModule(g) || g.Blocks == nil {
				return false // not a rebuild by a module function
			}
			k := -1
			for j, a := range call.Call.Args {
				if b, isT := ag33FieldLoad(a, fi); isT && peel(b) == ssa.Value(tmpl) && j < len(g.Params) {
					k = j
				}
			}
			if k < 0 || ptrTo(g.Params[k].Type()) != t.N || g.Signature.Results().Len() != 1 || ptrTo(g.Signature.Results().At(0).Type()) != t.N {
				fs.und(fname+" of the query returned is computed by "+safeFname(g)+", which is not applied to the template's "+fname+" as a node binder (node in, node out)", c.w.ipos(call))
				continue
			}
			if nb.B != nil && (nb.B != g || nb.k != k) {
				fs.und("more than one node binder", c.w.ipos(call))
				continue
			}
			nb.B, nb.k = g, k
		}
	}
	if nb.B == nil && len(fs) == 0 {
		return false
	}
	fs.report(c, rule, name, "every query returned is a new root whose expression is the node binder applied to the template's expression",
		"the placeholders are not bound in the query that is executed", c.w.pos(fn.Pos()))
	if nb.B != nil {
		nb.check()
	}
	return true
}

// passDown: the arguments of a call of the node binder other than the node are the caller's own parameters for the same
// positions (the values to bind are handed down unchanged). bind maps a parameter of the calling function to the node
// binder's parameter it stands for.
func (nb *cowNodeBinder) passDown(call *ssa.Call, bind map[ssa.Value]*ssa.Parameter) bool {
	for j, a := range call.Call.Args {
		if j == nb.k || j >= len(nb.B.Params) {
			continue
		}
		if bind[peel(a)] != nb.B.Params[j] {
			return false
		}
	}
	return true
}

func (nb *cowNodeBinder) check() {
	c, B, t := nb.c, nb.B, nb.t
	e := ssa.Value(B.Params[nb.k])
	bname := safeFname(B)
	own := map[ssa.Value]*ssa.Parameter{}
	for _, p := range B.Params {
		own[p] = p
	}
	isNode := func(v ssa.Value) bool { return peel(v) == e }
	// the kind tests: comma-ok type assertions on the node's oneof value
	asserts := map[*types.Named]*ssa.TypeAssert{}
	dup := false
	allInstrs(B, func(i ssa.Instruction) {
		ta, ok := i.(*ssa.TypeAssert)
		if !ok || !ta.CommaOk {
			return
		}
		if b, isLd := ag33FieldLoad(ta.X, t.oneof); !isLd || !isNode(b) {
			return
		}
		w := ptrTo(ta.AssertedType)
		if asserts[w] != nil {
			dup = true
		}
		asserts[w] = ta
	})
	if len(asserts) == 0 || dup {
		c.r.undecided(nb.rule, bname, "the node binder does not distinguish the node kinds by one type switch (or comma-ok type assertions) on the node's oneof value; that it reaches every operand is decided for that form only", c.w.pos(B.Pos()))
		return
	}
	inRegion := map[*ssa.BasicBlock]bool{}
	type kindCase struct {
		k   *cowKind
		okv ssa.Value
	}
	var withOperands []kindCase
	for _, k := range t.kinds {
		k := k
		key := bname + ": " + k.W.Obj().Name()
		mst := structOf(k.M)
		ta := asserts[k.W]
		if ta == nil {
			if len(k.operands()) > 0 {
				c.r.bad(nb.rule, key, "the node binder has no case for this node kind, so the operands of such a node are never visited: "+cowUnbound, []string{c.w.pos(B.Pos())})
			}
			continue
		}
		var fs cowFindings
		v, okv := extractOf(ta, 0), extractOf(ta, 1)
		blk := ta.Block()
		iff, isIf := blk.Instrs[len(blk.Instrs)-1].(*ssa.If)
		if v == nil || okv == nil || !isIf || iff.Cond != ssa.Value(okv) || len(blk.Succs) != 2 || len(blk.Succs[0].Preds) != 1 {
			c.r.undecided(nb.rule, key, "the case of this node kind is not entered by a branch on the type assertion's ok", c.w.ipos(ta))
			continue
		}
		var region []*ssa.BasicBlock
		for _, b := range B.Blocks {
			if blk.Succs[0].Dominates(b) {
				region = append(region, b)
				inRegion[b] = true
			}
		}
		if len(k.operands()) > 0 {
			withOperands = append(withOperands, kindCase{k, okv})
		}
		isInner := func(x ssa.Value) bool { // v.<M>
			b, ok := ag33FieldLoad(x, k.inner)
			return ok && peel(b) == ssa.Value(v)
		}
		isFieldOfM := func(x ssa.Value, f int) bool { // v.<M>.<f>
			b, ok := ag33FieldLoad(x, f)
			return ok && isInner(b)
		}
		// the bound operands
		type boundOp struct {
			fld     int
			list    bool
			res     ssa.Value
			changed ssa.Value
		}
		var ops []boundOp
		for _, f := range k.operands() {
			isList := false
			for _, lf := range k.list {
				isList = isList || lf == f
			}
			fname := mst.Field(f).Name()
			var found []boundOp
			loaded := false
			for _, b := range region {
				for _, ins := range b.Instrs {
					if isFieldOfM(valueOf(ins), f) {
						loaded = true
					}
					call, ok := ins.(*ssa.Call)
					if !ok {
						continue
					}
					g := calleeFunc(&call.Call)
					at := -1
					for j, a := range call.Call.Args {
						if isFieldOfM(a, f) {
							at = j
						}
					}
					if at < 0 || g == nil {
						continue
					}
					switch {
					case !isList && g == B && at == nb.k:
						if !nb.passDown(call, own) {
							fs.und("the recursive call for "+fname+" does not hand the binder's other parameters down unchanged", c.w.ipos(call))
						}
						found = append(found, boundOp{fld: f, res: call})
					case isList && g != B && c.w.inModule(g) && g.Blocks != nil:
						if r0, r1, ok := nb.listBinder(g, at, call); ok {
							found = append(found, boundOp{fld: f, list: true, res: r0, changed: r1})
						}
					}
				}
			}
			switch {
			case len(found) == 1:
				ops = append(ops, found[0])
			case len(found) > 1:
				fs.und("operand field "+fname+" is bound more than once", c.w.ipos(ta))
			case loaded:
				fs.und("operand field "+fname+" is not bound by a recursive call of the node binder (a node) or by a list binder returning (list, changed)", c.w.ipos(ta))
			default:
				fs.bad("operand field "+fname+" of this node kind is never visited", c.w.ipos(ta))
			}
		}
		complete := len(ops) == len(k.operands())
		// the returns of the case
		for _, b := range region {
			ret, ok := b.Instrs[len(b.Instrs)-1].(*ssa.Return)
			if !ok || len(ret.Results) != 1 {
				continue
			}
			rv := peel(retVals(ret)[0])
			cms := cmpsAt(ret)
			switch x := rv.(type) {
			case *ssa.Parameter:
				if rv != e {
					fs.und("returns a parameter other than the node", c.w.ipos(ret))
					continue
				}
				if hasNil(cms, isInner) || !complete {
					continue // no message behind the wrapper: no operands (or: already reported above)
				}
				for _, op := range ops {
					same := false
					if op.list {
						same = hasBool(cms, op.changed, false)
					} else {
						for _, cm := range cms {
							if cm.Op == token.EQL && cm.Y != nil && ((cm.X == op.res && isFieldOfM(cm.Y, op.fld)) || (cm.Y == op.res && isFieldOfM(cm.X, op.fld))) {
								same = true
							}
						}
					}
					if !same {
						fs.bad("the node is returned as it is on a path on which the bound "+mst.Field(op.fld).Name()+" is not known to be the original one", c.w.ipos(ret))
					}
				}
			case *ssa.Alloc:
				w2, mAl := nb.nodeLit(x)
				if w2 == nil {
					fs.und("returns a new node that is not a literal node{wrapper{message}}", c.w.ipos(ret))
					continue
				}
				if w2 != k.W {
					fs.bad("a node of this kind is rebuilt as a "+w2.Obj().Name(), c.w.ipos(ret))
					continue
				}
				for _, op := range ops {
					sv, ok := storedField(mAl, op.fld)
					if !ok || peel(sv) != op.res {
						fs.bad("the rebuilt node's "+mst.Field(op.fld).Name()+" is not the bound "+mst.Field(op.fld).Name(), c.w.ipos(ret))
					} else if op.list && !hasBool(cms, op.changed, true) {
						fs.und("the rebuilt node takes the list binder's list on a path on which the binder is not known to have reported a change (the list is only then defined)", c.w.ipos(ret))
					}
				}
				for _, f := range k.other {
					if sv, ok := storedField(mAl, f); !ok || !isFieldOfM(sv, f) {
						if len(k.operands()) > 0 { // (a leaf's fields are what binding replaces)
							fs.und("the rebuilt node's "+mst.Field(f).Name()+" is not copied from the original node", c.w.ipos(ret))
						}
					}
				}
			default:
				if isNilConst(rv) {
					fs.bad("nil is returned for a node of this kind: the sub-tree is dropped", c.w.ipos(ret))
				} else {
					fs.und("returns neither the node nor a node literal", c.w.ipos(ret))
				}
			}
		}
		okmsg := "every operand is bound; the node is returned as it is only where every bound operand is the original one, else rebuilt with the bound operands"
		if len(k.operands()) == 0 {
			okmsg = "no operands; returned as it is or rebuilt as a node of the same kind"
		}
		fs.report(c, nb.rule, key, okmsg, cowUnbound, c.w.ipos(ta))
	}
	// returns outside the cases: the node as it is, once no kind with operands matched (or there are no values / no node)
	var fs cowFindings
	var vals ssa.Value
	for _, p := range B.Params {
		if sl, ok := p.Type().Underlying().(*types.Slice); ok {
			if b, ok := sl.Elem().Underlying().(*types.Basic); ok && b.Kind() == types.String {
				vals = p
			}
		}
	}
	noValues := func(cms []cmp) bool {
		for _, cm := range cms {
			if cm.Y == nil || vals == nil {
				continue
			}
			x, y, op := cm.X, cm.Y, cm.Op
			if _, isK := constInt(x); isK {
				x, y, op = y, x, swapOp(op)
			}
			if k, isK := constInt(y); isK && isLenOf(x, vals) && ((op == token.EQL && k == 0) || (op == token.LEQ && k == 0) || (op == token.LSS && k == 1)) {
				return true
			}
		}
		return false
	}
	for _, b := range B.Blocks {
		if inRegion[b] || len(b.Instrs) == 0 {
			continue
		}
		ret, ok := b.Instrs[len(b.Instrs)-1].(*ssa.Return)
		if !ok || isRecoverBlockReturn(ret) || len(ret.Results) != 1 {
			continue
		}
		rv := peel(retVals(ret)[0])
		cms := cmpsAt(ret)
		nilNode := hasNil(cms, isNode)
		switch {
		case isNilConst(rv):
			if !nilNode {
				fs.bad("nil is returned for a node that is not known to be nil", c.w.ipos(ret))
			}
		case rv == e:
			if nilNode || noValues(cms) {
				continue
			}
			for _, kc := range withOperands {
				if !hasBool(cms, kc.okv, false) {
					fs.bad("the node is returned as it is before its kind was compared with "+kc.k.W.Obj().Name(), c.w.ipos(ret))
					break
				}
			}
		default:
			fs.und("a return outside the cases of the node kinds returns neither the node nor nil", c.w.ipos(ret))
		}
	}
	fs.report(c, nb.rule, bname+": other returns", "outside the cases of the node kinds the node is returned as it is, and only after no kind with operands matched (or there is no node / no value)", cowUnbound, c.w.pos(B.Pos()))
}

func valueOf(i ssa.Instruction) ssa.Value {
	v, _ := i.(ssa.Value)
	return v
}

// nodeLit: al is a node literal N{oneof: &W{inner: &M{…}}}: returns W and the allocation of M.
func (nb *cowNodeBinder) nodeLit(al *ssa.Alloc) (*types.Named, *ssa.Alloc) {
	if ptrTo(al.Type()) != nb.t.N {
		return nil, nil
	}
	ov, ok := storedField(al, nb.t.oneof)
	if !ok {
		return nil, nil
	}
	mi, ok := ov.(*ssa.MakeInterface)
	if !ok {
		return nil, nil
	}
	wAl, ok := peel(mi.X).(*ssa.Alloc)
	if !ok {
		return nil, nil
	}
	for _, k := range nb.t.kinds {
		if ptrTo(wAl.Type()) != k.W {
			continue
		}
		mv, ok := storedField(wAl, k.inner)
		if !ok {
			return nil, nil
		}
		mAl, ok := peel(mv).(*ssa.Alloc)
		if !ok || ptrTo(mAl.Type()) != k.M {
			return nil, nil
		}
		return k.W, mAl
	}
	return nil, nil
}

// listBinder decides the helper that binds an operand list, L(xs, …) (list, changed), called as `call` from the node
// binder with the operand list as argument #lk. It reports its own obligation (once) and returns the two results of the
// call. Contract established: changed is true iff some element's bound version differs from the element, and then list
// holds the bound version of every element of xs, in order (when changed is false, list is unspecified).
//
// Decided by enumerating the paths through the body of L's one loop, with the invariant
//
//	flag  ⇒ acc == [B(xs[0]) … B(xs[i-1])]        !flag ⇒ B(xs[j]) == xs[j] for all j < i
//
// where acc and flag are the loop-carried list and boolean. A path keeps it if it
//
//	(skip)    leaves acc and flag alone, under !flag and B(xs[i]) == xs[i];
//	(append)  sets acc = append(acc, B(xs[i])) under flag, flag stays true;
//	(start)   sets acc = append(P, B(xs[i])) under !flag, where P is a list with the contents of xs[:i] (xs[:i] itself,
//	          make(len i)+copy(P, xs[:i]), append(nil, xs[:i]...)), and sets flag.
//
// Whether P may be xs[:i] ITSELF is not this rule's business (contents are right); that the append then overwrites the
// template's operands is reported by the effect rule (C11.clone / C12.bind).
func (nb *cowNodeBinder) listBinder(L *ssa.Function, lk int, call *ssa.Call) (r0, r1 ssa.Value, ok bool) {
	c, B := nb.c, nb.B
	res := L.Signature.Results()
	listT := types.NewSlice(types.NewPointer(nb.t.N))
	if res.Len() != 2 || !types.Identical(res.At(0).Type(), listT) || lk >= len(L.Params) {
		return nil, nil, false
	}
	if b, isB := res.At(1).Type().Underlying().(*types.Basic); !isB || b.Kind() != types.Bool {
		return nil, nil, false
	}
	r0, r1 = resultValue(call, 0), resultValue(call, 1)
	if r0 == nil || r1 == nil {
		return nil, nil, false
	}
	if nb.lists[L] {
		return r0, r1, true
	}
	nb.lists[L] = true
	key := safeFname(L) + ": operands"
	var fs cowFindings
	defer func() {
		fs.report(c, nb.rule, key, "the list binder visits every operand, and its list (when it reports a change) holds the bound version of every operand in order", cowUnbound, c.w.pos(L.Pos()))
	}()
	// the parameters of L stand for the node binder's parameters the call passes
	bind := map[ssa.Value]*ssa.Parameter{}
	for j, a := range call.Call.Args {
		if p, isP := peel(a).(*ssa.Parameter); isP && p.Parent() == B && j < len(L.Params) {
			bind[L.Params[j]] = p
		}
	}
	xs := ssa.Value(L.Params[lk])
	loops := loopsOf(L)
	if len(loops) != 1 {
		fs.und(fmt.Sprintf("the list binder has %d loops (one loop over the operands expected)", len(loops)), c.w.pos(L.Pos()))
		return r0, r1, true
	}
	lp := loops[0]
	h := lp.header
	var acc, flag, ind *ssa.Phi
	for _, ins := range h.Instrs {
		phi, isPhi := ins.(*ssa.Phi)
		if !isPhi {
			continue
		}
		switch {
		case types.Identical(phi.Type(), listT):
			if acc != nil {
				fs.und("two loop-carried lists", c.w.ipos(phi))
			}
			acc = phi
		case types.Identical(phi.Type().Underlying(), types.Typ[types.Bool]):
			if flag != nil {
				fs.und("two loop-carried booleans", c.w.ipos(phi))
			}
			flag = phi
		}
	}
	// the element visited
	var bcall *ssa.Call
	var elem, idx ssa.Value
	nB := 0
	allInstrs(L, func(i ssa.Instruction) {
		cl, isCall := i.(*ssa.Call)
		if !isCall || calleeFunc(&cl.Call) != B {
			return
		}
		nB++
		if !lp.blocks[cl.Block()] || nb.k >= len(cl.Call.Args) {
			return
		}
		ld, isLd := cl.Call.Args[nb.k].(*ssa.UnOp)
		if !isLd || ld.Op != token.MUL {
			return
		}
		ia, isIa := ld.X.(*ssa.IndexAddr)
		if !isIa || peel(ia.X) != xs {
			return
		}
		bcall, elem, idx = cl, ld, ia.Index
	})
	if nB == 0 {
		fs.bad("the list binder never applies the node binder to the operands", c.w.pos(L.Pos()))
		return r0, r1, true
	}
	if nB != 1 || bcall == nil || acc == nil || flag == nil || len(fs) > 0 {
		fs.und("the list binder is not one loop `b := B(xs[i])` with one loop-carried list and one loop-carried changed flag", c.w.pos(L.Pos()))
		return r0, r1, true
	}
	if !nb.passDown(bcall, bind) {
		fs.und("the call of the node binder does not hand the binder's other parameters down unchanged", c.w.ipos(bcall))
	}
	// the index runs 0, 1, … and the loop is left only at the header, when the index has reached len(xs)
	base, off := lin(idx)
	ind, _ = base.(*ssa.Phi)
	if ind == nil || ind.Block() != h {
		fs.und("the index of the operand visited is not the loop's induction variable", c.w.ipos(bcall))
		return r0, r1, true
	}
	for k, pred := range h.Preds {
		ed := ind.Edges[k]
		if lp.blocks[pred] {
			if eb, eo := lin(ed); eb != ssa.Value(ind) || eo != 1 {
				fs.bad("the index does not advance by one on every iteration: operands are skipped", c.w.ipos(bcall))
			}
			continue
		}
		if k0, isK := constInt(ed); !isK {
			fs.und("the index does not start at a constant", c.w.ipos(bcall))
		} else if k0+off != 0 {
			fs.bad(fmt.Sprintf("the loop starts at operand %d, not at the first one", k0+off), c.w.ipos(bcall))
		}
		if fv, isK := constBool(flag.Edges[k]); !isK || fv {
			fs.und("the changed flag is not false when the loop is entered", c.w.ipos(flag))
		}
	}
	var blocks []*ssa.BasicBlock
	for b := range lp.blocks {
		blocks = append(blocks, b)
	}
	sort.Slice(blocks, func(i, j int) bool { return blocks[i].Index < blocks[j].Index })
	for _, b := range blocks {
		for _, s := range b.Succs {
			if lp.blocks[s] {
				continue
			}
			last := b.Instrs[len(b.Instrs)-1]
			if b != h {
				fs.bad("the loop over the operands can be left before the last operand was visited", c.w.ipos(last))
				continue
			}
			iff, isIf := last.(*ssa.If)
			var bo *ssa.BinOp
			if isIf {
				bo, _ = iff.Cond.(*ssa.BinOp)
			}
			if bo == nil || bo.Op != token.LSS || !sameLin(bo.X, idx) || !isLenOf(bo.Y, xs) || s != h.Succs[1] {
				fs.und("the loop's exit test is not `index < len(operands)`", c.w.ipos(last))
			}
		}
	}
	// the paths through the body
	isPrefixSlice := func(v ssa.Value) bool { // xs[:i]
		sl, isSl := v.(*ssa.Slice)
		if !isSl || peel(sl.X) != xs || !sameLin(sl.High, idx) || sl.High == nil {
			return false
		}
		if sl.Low != nil {
			if k0, isK := constInt(sl.Low); !isK || k0 != 0 {
				return false
			}
		}
		return true
	}
	var walk func(path []*ssa.BasicBlock)
	nPaths := 0
	walk = func(path []*ssa.BasicBlock) {
		cur := path[len(path)-1]
		for _, s := range cur.Succs {
			if !lp.blocks[s] {
				continue
			}
			if s == h {
				nPaths++
				nb.listPath(&fs, path, h, acc, flag, bcall, elem, idx, isPrefixSlice)
				continue
			}
			seen := false
			for _, p := range path {
				seen = seen || p == s
			}
			if seen || nPaths > 64 {
				fs.und("inner cycle in the loop body", c.w.ipos(s.Instrs[0]))
				continue
			}
			walk(append(append([]*ssa.BasicBlock{}, path...), s))
		}
	}
	walk([]*ssa.BasicBlock{h})
	// the returns
	allInstrs(L, func(i ssa.Instruction) {
		ret, isRet := i.(*ssa.Return)
		if !isRet || isRecoverBlockReturn(ret) || len(ret.Results) != 2 {
			return
		}
		rv := retVals(ret)
		v0, v1 := peel(rv[0]), peel(rv[1])
		cms := cmpsAt(ret)
		if !h.Dominates(ret.Block()) {
			fs.und("a return before the loop over the operands", c.w.ipos(ret))
			return
		}
		k1, isK := constBool(v1)
		switch {
		case v1 == ssa.Value(flag) && v0 == ssa.Value(acc):
		case isK && k1:
			if v0 != ssa.Value(acc) {
				fs.bad("a change is reported with a list that is not the one built in the loop", c.w.ipos(ret))
			} else if !hasBool(cms, flag, true) {
				fs.und("a change is reported on a path on which the changed flag is not known to be set", c.w.ipos(ret))
			}
		case isK && !k1:
			if !hasBool(cms, flag, false) {
				fs.bad("'unchanged' is reported on a path on which the changed flag is not known to be false: the caller then keeps the unbound node", c.w.ipos(ret))
			}
		default:
			fs.und("the results are not (list built in the loop, changed flag)", c.w.ipos(ret))
		}
	})
	return r0, r1, true
}

// listPath classifies one acyclic path through the loop body (from the header back to the header).
func (nb *cowNodeBinder) listPath(fs *cowFindings, path []*ssa.BasicBlock, h *ssa.BasicBlock, acc, flag *ssa.Phi, bcall *ssa.Call, elem, idx ssa.Value, isPrefixSlice func(ssa.Value) bool) {
	c := nb.c
	at := map[*ssa.BasicBlock]int{}
	for i, b := range path {
		at[b] = i
	}
	latch := path[len(path)-1]
	site := c.w.ipos(latch.Instrs[len(latch.Instrs)-1])
	if _, on := at[bcall.Block()]; !on {
		fs.bad("there is a path through the loop body on which the operand is not bound", site)
		return
	}
	// phis of the body take the value of the edge the path comes in by
	resolve := func(v ssa.Value) ssa.Value {
		for n := 0; n < 32; n++ {
			phi, isPhi := v.(*ssa.Phi)
			if !isPhi || phi.Block() == h {
				return v
			}
			i, on := at[phi.Block()]
			if !on || i == 0 {
				return v
			}
			next := v
			for k, p := range phi.Block().Preds {
				if p == path[i-1] {
					next = phi.Edges[k]
				}
			}
			if next == v {
				return v
			}
			v = next
		}
		return v
	}
	var cms []cmp
	for i, b := range path {
		succ := h
		if i+1 < len(path) {
			succ = path[i+1]
		}
		iff, isIf := b.Instrs[len(b.Instrs)-1].(*ssa.If)
		if !isIf || len(b.Succs) != 2 || b.Succs[0] == b.Succs[1] {
			continue
		}
		for _, cm := range trueCmps(fact{iff.Cond, b.Succs[0] == succ}) {
			cm.X = resolve(cm.X)
			if cm.Y != nil {
				cm.Y = resolve(cm.Y)
			}
			cms = append(cms, cm)
		}
	}
	kL := -1
	for k, p := range h.Preds {
		if p == latch {
			kL = k
		}
	}
	nAcc, nFlag := resolve(acc.Edges[kL]), resolve(flag.Edges[kL])
	fT, fF := hasBool(cms, flag, true), hasBool(cms, flag, false)
	kf, isK := constBool(nFlag)
	nextTrue := (isK && kf) || (nFlag == ssa.Value(flag) && fT)
	nextFalse := (isK && !kf) || (nFlag == ssa.Value(flag) && fF)
	if nAcc == ssa.Value(acc) {
		if !(fF && hasEq(cms, bcall, elem)) {
			fs.bad("there is a path through the loop body that does not add the bound operand to the list although a list was started or the operand changed", site)
		} else if !nextFalse {
			fs.bad("the changed flag is set although no list was started", site)
		}
		return
	}
	ap := isAppend(nAcc)
	if ap == nil {
		fs.und("the loop-carried list is not extended by append", site)
		return
	}
	if al := sliceOfArray(ap.Call.Args[1]); al == nil {
		fs.und("what is appended is not the one bound operand", site)
		return
	} else if elems, n, ok := arrayElems(al); !ok || n != 1 || peel(elems[0]) != ssa.Value(bcall) {
		fs.bad("what is appended to the list is not the bound version of the operand visited", site)
		return
	}
	base := resolve(ap.Call.Args[0])
	if base == ssa.Value(acc) {
		switch {
		case !fT:
			fs.bad("the bound operand is appended to the list on a path on which no list was started: the operands before it are missing from the list", site)
		case !nextTrue:
			fs.bad("the changed flag is cleared after an append", site)
		}
		return
	}
	// a list started here: the contents of xs[:i]
	prefix := isPrefixSlice(base)
	if ms, isMs := base.(*ssa.MakeSlice); isMs && sameLin(ms.Len, idx) {
		for _, b := range path {
			for _, ins := range b.Instrs {
				cl, isCall := ins.(*ssa.Call)
				if !isCall {
					continue
				}
				if bi, isB := cl.Call.Value.(*ssa.Builtin); isB && bi.Name() == "copy" && cl.Call.Args[0] == base && isPrefixSlice(cl.Call.Args[1]) {
					prefix = true
				}
			}
		}
	}
	if a2 := isAppend(base); a2 != nil && isNilConst(a2.Call.Args[0]) && isPrefixSlice(a2.Call.Args[1]) {
		prefix = true
	}
	switch {
	case !prefix:
		fs.und("the list is started from something that is not recognisably a copy of the operands before the one visited (xs[:i])", site)
	case !fF:
		fs.bad("the list is started anew on a path on which one may already exist: the bound operands collected so far are replaced by the original ones", site)
	case !nextTrue:
		fs.bad("a list is started but the changed flag is not set: the next iteration starts it again or the caller ignores it", site)
	}
}

// ---------------- (origin) what a rebuilt query is made of ----------------

// cowOrigin decides that a value is built only from objects allocated during this call of the binding function, from
// the template argument (and what is loaded out of it), and from values without references. It follows helper results,
// parameters of unexported helpers (all their call sites), phis, append chains and composite literals. Anything else —
// a global, a map element, the result of a function outside the module — is "not from here".
type cowOrigin struct {
	c    *Ctx
	fr   *Fresh
	tmpl *ssa.Parameter
	memo map[ssa.Value]bool
	busy map[ssa.Value]bool
	why  string
}

func (o *cowOrigin) fail(v ssa.Value, what string) bool {
	if o.why == "" {
		o.why = what
		if i, ok := v.(ssa.Instruction); ok {
			o.why += " (" + o.c.w.ipos(i) + ")"
		}
	}
	return false
}

func (o *cowOrigin) ok(v ssa.Value) bool {
	if v == nil {
		return true
	}
	if r, done := o.memo[v]; done {
		return r
	}
	if o.busy[v] {
		return true // coinductive on cycles (loop-carried lists, recursion)
	}
	o.busy[v] = true
	r := o.ok1(v)
	delete(o.busy, v)
	o.memo[v] = r
	return r
}

func (o *cowOrigin) all(vs ...ssa.Value) bool {
	for _, v := range vs {
		if !o.ok(v) {
			return false
		}
	}
	return true
}

func (o *cowOrigin) ok1(v ssa.Value) bool {
	if isValueType(v.Type()) {
		return true
	}
	switch x := v.(type) {
	case *ssa.Const, *ssa.Function, *ssa.MakeClosure, *ssa.Builtin:
		return true
	case *ssa.Parameter:
		if x == o.tmpl {
			return true
		}
		fn := x.Parent()
		idx := -1
		for i, q := range fn.Params {
			if q == x {
				idx = i
			}
		}
		node := o.c.w.CG.Nodes[fn]
		if fn.Parent() != nil || fn.Object() == nil || fn.Object().Exported() || !o.c.w.inModule(fn) || o.fr.addressTaken(fn) || node == nil || len(node.In) == 0 {
			return o.fail(v, "a parameter of "+safeFname(fn)+" whose callers are not all known")
		}
		for _, e := range node.In {
			if e.Site == nil || calleeFunc(e.Site.Common()) != fn || idx >= len(e.Site.Common().Args) {
				return o.fail(v, "a parameter of "+safeFname(fn)+" whose callers are not all known")
			}
			if !o.ok(e.Site.Common().Args[idx]) {
				return false
			}
		}
		return true
	case *ssa.Alloc:
		// an object made here: everything stored into it
		for _, r := range referrers(x) {
			switch y := r.(type) {
			case *ssa.FieldAddr, *ssa.IndexAddr:
				for _, rr := range referrers(y.(ssa.Value)) {
					switch z := rr.(type) {
					case *ssa.Store:
						if z.Addr == y.(ssa.Value) && !o.ok(z.Val) {
							return false
						}
					case *ssa.UnOp, *ssa.DebugRef, *ssa.FieldAddr, *ssa.IndexAddr:
					default:
						return o.fail(x, "an object whose field address is handed on")
					}
				}
			case *ssa.Store:
				if y.Addr == ssa.Value(x) && !o.ok(y.Val) {
					return false
				}
			case *ssa.Call:
				if _, isB := y.Call.Value.(*ssa.Builtin); !isB {
					return o.fail(x, "an object handed to a function that may fill it")
				}
			}
		}
		return true
	case *ssa.MakeSlice:
		// contents arrive by copy / indexed stores / append somewhere in the same function: all of them must be from here
		okAll := true
		allInstrs(x.Parent(), func(i ssa.Instruction) {
			switch y := i.(type) {
			case *ssa.Store:
				if _, isIa := y.Addr.(*ssa.IndexAddr); isIa && !o.ok(y.Val) {
					okAll = false
				}
			case *ssa.Call:
				if b, isB := y.Call.Value.(*ssa.Builtin); isB && b.Name() == "copy" && !o.ok(y.Call.Args[1]) {
					okAll = false
				}
			}
		})
		return okAll
	case *ssa.MakeMap, *ssa.MakeChan:
		return o.fail(v, "a map or channel")
	case *ssa.ChangeType:
		return o.ok(x.X)
	case *ssa.ChangeInterface:
		return o.ok(x.X)
	case *ssa.MakeInterface:
		return o.ok(x.X)
	case *ssa.TypeAssert:
		return o.ok(x.X)
	case *ssa.Convert:
		return o.ok(x.X)
	case *ssa.Slice:
		return o.ok(x.X)
	case *ssa.FieldAddr:
		return o.ok(x.X)
	case *ssa.IndexAddr:
		return o.ok(x.X)
	case *ssa.Field:
		return o.ok(x.X)
	case *ssa.Index:
		return o.ok(x.X)
	case *ssa.Phi:
		return o.all(x.Edges...)
	case *ssa.FreeVar:
		if b := freeVarBinding(x); b != nil {
			return o.ok(b)
		}
		return o.fail(v, "a captured variable")
	case *ssa.Extract:
		switch t := x.Tuple.(type) {
		case *ssa.Call:
			return o.call(t, x.Index)
		case *ssa.TypeAssert:
			return o.ok(t.X)
		}
		return o.fail(v, "a map element or received value")
	case *ssa.Call:
		return o.call(x, 0)
	case *ssa.UnOp:
		if x.Op != token.MUL {
			return true
		}
		if _, isCell := peelCell(x.X).(*ssa.Alloc); isCell {
			if vals, ok := cellValues(x.X); ok {
				return o.all(vals...)
			}
		}
		if _, isG := x.X.(*ssa.Global); isG {
			return o.fail(v, "a package-level variable")
		}
		// a load out of an object: what is in an object from here (or in the template) is from here (or the template's)
		return o.ok(x.X)
	case *ssa.Global:
		return o.fail(v, "a package-level variable")
	}
	return o.fail(v, "a value of unknown origin")
}

func (o *cowOrigin) call(call *ssa.Call, idx int) bool {
	cc := &call.Call
	if b, isB := cc.Value.(*ssa.Builtin); isB {
		switch b.Name() {
		case "append":
			return o.all(cc.Args...)
		case "new", "make", "len", "cap", "copy", "min", "max":
			return true
		}
		return o.fail(call, "the result of "+b.Name())
	}
	if o.fr.callResult(call, idx) == deep {
		return true
	}
	fn := calleeFunc(cc)
	if fn == nil || !o.c.w.inModule(fn) || fn.Blocks == nil {
		return o.fail(call, "the result of "+shortName(calleeName(cc)))
	}
	okAll := true
	allInstrs(fn, func(i ssa.Instruction) {
		if ret, isRet := i.(*ssa.Return); isRet && !isRecoverBlockReturn(ret) {
			if rv := retVals(ret); idx < len(rv) && !o.ok(rv[idx]) {
				okAll = false
			}
		}
	})
	return okAll
}

// cowResult: the value the binding function returns is acceptable although it is not a deep copy — a root message
// allocated in this call, whose own reference-typed fields are either wholly made here (the group-by list: the caller
// appends to it) or, for pointers to messages (the expression), built from this call's allocations and the template
// only. That the shared parts are never written is the effect obligations' business (here: the binder; program-wide:
// the template census).
func cowResult(c *Ctx, fr *Fresh, rv ssa.Value) (bool, string) {
	fn := c.a.ReplacePH
	t := cowTreeOf(c)
	if t == nil {
		return false, ""
	}
	al, ok := peel(rv).(*ssa.Alloc)
	if !ok || ptrTo(al.Type()) != t.root {
		return false, ""
	}
	var tmpl *ssa.Parameter
	for _, p := range fn.Params {
		if ptrTo(p.Type()) == t.root {
			tmpl = p
		}
	}
	if tmpl == nil {
		return false, ""
	}
	o := &cowOrigin{c: c, fr: fr, tmpl: tmpl, memo: map[ssa.Value]bool{}, busy: map[ssa.Value]bool{}}
	rst := structOf(t.root)
	for _, r := range referrers(al) {
		switch x := r.(type) {
		case *ssa.FieldAddr:
			for _, rr := range referrers(x) {
				st, isSt := rr.(*ssa.Store)
				if !isSt {
					if _, isLd := rr.(*ssa.UnOp); isLd {
						continue
					}
					if _, isDbg := rr.(*ssa.DebugRef); isDbg {
						continue
					}
					return false, "the address of the new query's " + rst.Field(x.Field).Name() + " is handed on"
				}
				if isValueType(st.Val.Type()) || fr.level(st.Val) == deep {
					continue
				}
				if ptrTo(st.Val.Type()) == nil || !pbMessages(c)[ptrTo(st.Val.Type())] {
					return false, "the new query's " + rst.Field(x.Field).Name() + " is not storage of its own (it is shared with the template or with other executions, and the caller may append to it)"
				}
				if !o.ok(st.Val) {
					return false, "the new query's " + rst.Field(x.Field).Name() + " contains " + o.why + ", which is neither made in this call nor part of the template"
				}
			}
		case *ssa.Return, *ssa.DebugRef:
		case *ssa.Store:
			if x.Addr == ssa.Value(al) {
				return false, "the new query is filled by a whole-struct assignment"
			}
		default:
			return false, "the new query is handed on before it is returned"
		}
	}
	return true, ""
}

// typeProtectedWrite: a write event of the binder whose target has no message field on its path but IS a list of
// message nodes or a message (a bare parameter such as the operand list handed to a list binder).
func typeProtectedWrite(e writeEv, msgs map[*types.Named]bool) *types.Named {
	if len(e.fields()) > 0 || e.Target.Root == nil {
		return nil
	}
	t := e.Target.Root.Type()
	for n := 0; n < 4; n++ {
		switch x := t.Underlying().(type) {
		case *types.Slice:
			t = x.Elem()
			continue
		case *types.Pointer:
			if nm, _ := types.Unalias(x.Elem()).(*types.Named); nm != nil && msgs[nm] {
				return nm
			}
			t = x.Elem()
			continue
		}
		break
	}
	return nil
}

// ---------------- C11.arity: the placeholder count kept in the statement ----------------

// cachedCount: v is a load of a field F of the statement object whose parsed query the binding calls `binds` bind
// (`stmt.numInput` next to `ReplacePlaceholders(stmt.q, …)`), and F holds the statement's placeholder count: every
// store to F in the module initialises a statement under construction (a composite literal) with numInput(x), where x
// is what the same literal puts into its parsed-query field; F's address is used for nothing but these stores and
// loads. The parsed query of a statement is assigned at construction only and never modified (C11.template), so the
// count computed then is the count of the query bound now.
func cachedCount(c *Ctx, v ssa.Value, binds []ssa.Instruction, isCountCall func(ssa.Value) *ssa.Call) bool {
	ld, ok := peelConv(v).(*ssa.UnOp)
	if !ok || ld.Op != token.MUL {
		return false
	}
	fa, ok := ld.X.(*ssa.FieldAddr)
	if !ok {
		return false
	}
	stT := ptrTo(fa.X.Type())
	fld := fieldOf(fa.X.Type(), fa.Field)
	if stT == nil || fld == nil {
		return false
	}
	// the statement's parsed-query field (directly in the statement struct)
	qIdx := -1
	for _, q := range stmtQueryFields(stT) {
		if len(q.chain) != 1 {
			continue
		}
		st := structOf(stT)
		for i := 0; i < st.NumFields(); i++ {
			if st.Field(i) == q.fld {
				if qIdx >= 0 {
					return false
				}
				qIdx = i
			}
		}
	}
	if qIdx < 0 {
		return false
	}
	// the statement whose count is read is the one whose query is bound
	for _, b := range binds {
		call, isCall := b.(*ssa.Call)
		if !isCall || len(call.Call.Args) == 0 {
			return false
		}
		base, isQ := ag33FieldLoad(call.Call.Args[0], qIdx)
		if !isQ || ptrTo(base.Type()) != stT || peel(base) != peel(fa.X) {
			return false
		}
	}
	nStores, okAll := 0, true
	for _, fn := range c.w.ModFuncs {
		allInstrs(fn, func(i ssa.Instruction) {
			a, isFa := i.(*ssa.FieldAddr)
			if !isFa || fieldOf(a.X.Type(), a.Field) != fld {
				return
			}
			for _, r := range referrers(a) {
				switch x := r.(type) {
				case *ssa.UnOp, *ssa.DebugRef:
				case *ssa.Store:
					nStores++
					al, isAl := peel(a.X).(*ssa.Alloc)
					cnt := isCountCall(x.Val)
					if x.Addr != ssa.Value(a) || !isAl || cnt == nil || len(cnt.Call.Args) == 0 {
						okAll = false
						continue
					}
					qv, isQ := storedField(al, qIdx)
					if !isQ || peel(qv) != peel(cnt.Call.Args[len(cnt.Call.Args)-1]) {
						okAll = false
					}
				default:
					okAll = false
				}
			}
		})
	}
	return okAll && nStores > 0
}
