package main

// Entry lists (ag23): a flush function may first *encode* everything that goes into the data bucket into a slice of
// (key, value) structs and hand that slice — whole, in chunks, or with a trailer appended — to a helper that ranges over
// it and calls Put(e.key, e.value). The key of such a Put is a field of a list element, so keyKind cannot classify it
// and rowcount / schemaenc do not see which value is paired with which key. This file follows the list:
//
//   - listAn is a small forward abstract interpretation of one function over its slice-of-struct values (SSA registers,
//     phis and local cells alike). A list is a sequence of segments: `one` element built from a composite literal (the
//     SSA values stored into its fields are remembered: they are what keyKind, gobEncoded and encodedUint32 are applied to)
//     or `many` (zero or more) elements appended by a loop. Segments may be optional (a re-slice may have cut them off) or
//     guarded by a CFG edge (appended on one branch only: present exactly when control came through that edge).
//   - What is established is ORDER and PAIRING only. Everything that could disturb either makes the list `top`, with the
//     reason, and every rule that meets a top list reports it: a sort over a list that holds more than one kind of key
//     (only a sort of same-kind entries keeps "bitmaps first, header last"), an element overwritten through an index, an
//     append to a re-slice that still has entries behind it (x[:n] without a capacity limit: the append overwrites them),
//     two appends to the same base, a list handed to code the analysis does not follow (a field, a channel, an unknown
//     callee, a module helper that returns a list computed from a list parameter).
//   - Parameters are bound to the join of the arguments of all call sites in the module (context-insensitive).
//
// Consumers: listPutOf recognises Put(e.F, e.G) with e an element of a list, consumesAll that the enclosing function puts
// every element of that list front to back before it can return successfully.

import (
	"fmt"
	"go/token"
	"go/types"
	"strings"

	"golang.org/x/tools/go/ssa"
)

// ---------- the abstract domain ----------

type edgeGuard struct{ pred, succ *ssa.BasicBlock }

type entSeg struct {
	many   bool
	opt    bool              // may be absent (cut off by a re-slice, or joined with a path that lacks it)
	guard  *edgeGuard        // appended on one branch of a forward join: present only if control came through this edge; with !opt: exactly if
	fields map[int]ssa.Value // field index -> the value stored into that field where the element was built
	fn     *ssa.Function     // the function that built the element (frame of the field values)
}

type entList struct {
	top    bool
	why    string
	at     ssa.Instruction
	defect bool // top because of a positively identified defect (a sort that puts the header first), not for lack of insight
	segs   []entSeg
	sub    bool // a re-slice x[:n] without capacity limit: entries of the underlying list lie behind it
}

func topList(why string, at ssa.Instruction) *entList { return &entList{top: true, why: why, at: at} }

func sameFields(a, b entSeg) bool {
	if a.many != b.many || len(a.fields) != len(b.fields) {
		return false
	}
	for k, v := range a.fields {
		if b.fields[k] != v {
			return false
		}
	}
	return true
}

func sameGuard(a, b *edgeGuard) bool {
	if a == nil || b == nil {
		return a == b
	}
	return *a == *b
}

func segEqual(a, b entSeg) bool {
	return sameFields(a, b) && a.opt == b.opt && sameGuard(a.guard, b.guard)
}

func listEqual(a, b *entList) bool {
	if a == nil || b == nil {
		return a == b
	}
	if a.top != b.top || a.sub != b.sub || len(a.segs) != len(b.segs) {
		return false
	}
	for i := range a.segs {
		if !segEqual(a.segs[i], b.segs[i]) {
			return false
		}
	}
	return true
}

// normalise: `many x` absorbs a following `one x` / `many x` (zero or more, then one more).
func normalise(segs []entSeg) []entSeg {
	var out []entSeg
	for _, s := range segs {
		if n := len(out); n > 0 && out[n-1].many && out[n-1].guard == nil && s.guard == nil {
			t := s
			t.many = true
			if sameFields(out[n-1], t) {
				continue
			}
		}
		out = append(out, s)
	}
	return out
}

// joinLists: the list at a control-flow join. The two lists must agree on a common prefix; what one of them has in
// addition was appended on that path: around a loop (back edge) it becomes `many`, on one branch of a forward join it is
// guarded by that branch's edge.
func joinLists(a, b *entList, eb *edgeGuard, back bool) *entList {
	switch {
	case a == nil:
		return b
	case b == nil:
		return a
	case a.top:
		return a
	case b.top:
		return b
	}
	out := &entList{sub: a.sub || b.sub}
	n := 0
	for n < len(a.segs) && n < len(b.segs) && sameFields(a.segs[n], b.segs[n]) {
		s := a.segs[n]
		t := b.segs[n]
		if !sameGuard(s.guard, t.guard) {
			s.guard, s.opt = nil, true
		}
		s.opt = s.opt || t.opt
		out.segs = append(out.segs, s)
		n++
	}
	ra, rb := a.segs[n:], b.segs[n:]
	if len(ra) > 0 && len(rb) > 0 {
		return topList("the entry list is built differently on two paths that join here", nil)
	}
	extra := func(rest []entSeg, g *edgeGuard) {
		for _, s := range rest {
			switch {
			case s.many:
			case back:
				s.many, s.opt, s.guard = true, false, nil
			case s.guard == nil && !s.opt && g != nil:
				s.guard = g
			default:
				s.opt = true
			}
			out.segs = append(out.segs, s)
		}
	}
	extra(ra, nil) // (the edge of a is not known to the caller's fold: such segments become optional)
	extra(rb, eb)
	out.segs = normalise(out.segs)
	return out
}

// ---------- the per-function analysis ----------

type listAn struct {
	c        *Ctx
	fn       *ssa.Function
	val      map[ssa.Value]*entList
	out      map[*ssa.BasicBlock]map[*ssa.Alloc]*entList
	poison   string
	poisonAt ssa.Instruction
	defect   bool
	busy     bool
	rets     map[int]*entList
}

var listAnMemo = map[*ssa.Function]*listAn{}

// isEntSlice: a slice of structs (the entry type is recognised by its use, not by its name).
func isEntSlice(t types.Type) bool {
	sl, ok := t.Underlying().(*types.Slice)
	if !ok {
		return false
	}
	_, ok = sl.Elem().Underlying().(*types.Struct)
	return ok
}

func isEntCell(v ssa.Value) (*ssa.Alloc, bool) {
	a, ok := v.(*ssa.Alloc)
	if !ok {
		return nil, false
	}
	return a, isEntSlice(a.Type().(*types.Pointer).Elem())
}

func listAnOf(c *Ctx, fn *ssa.Function) *listAn {
	if la, ok := listAnMemo[fn]; ok {
		return la
	}
	la := &listAn{c: c, fn: fn, val: map[ssa.Value]*entList{}, out: map[*ssa.BasicBlock]map[*ssa.Alloc]*entList{}, rets: map[int]*entList{}, busy: true}
	listAnMemo[fn] = la
	la.run()
	la.busy = false
	return la
}

func (la *listAn) poisoned() *entList {
	return &entList{top: true, why: la.poison, at: la.poisonAt, defect: la.defect}
}

func (la *listAn) setPoison(why string, at ssa.Instruction) {
	if la.poison == "" {
		la.poison, la.poisonAt = why, at
	}
}

// of: the abstract list of an SSA value of this function, after the analysis has run.
func (la *listAn) of(v ssa.Value) *entList {
	if la.poison != "" {
		return la.poisoned()
	}
	if l := la.val[v]; l != nil {
		return l
	}
	return topList("the entry list comes from a construct the rule does not follow ("+describeValue(v)+")", nil)
}

func rpo(fn *ssa.Function) []*ssa.BasicBlock {
	seen := map[*ssa.BasicBlock]bool{}
	var post []*ssa.BasicBlock
	var dfs func(b *ssa.BasicBlock)
	dfs = func(b *ssa.BasicBlock) {
		if seen[b] {
			return
		}
		seen[b] = true
		for _, s := range b.Succs {
			dfs(s)
		}
		post = append(post, b)
	}
	if len(fn.Blocks) > 0 {
		dfs(fn.Blocks[0])
	}
	for i, j := 0, len(post)-1; i < j; i, j = i+1, j-1 {
		post[i], post[j] = post[j], post[i]
	}
	return post
}

func (la *listAn) run() {
	fn := la.fn
	if fn.Blocks == nil {
		return
	}
	for _, p := range fn.Params {
		if isEntSlice(p.Type()) {
			la.val[p] = la.paramList(p)
		}
	}
	order := rpo(fn)
	for round := 0; round < 12; round++ {
		changed := false
		for _, b := range order {
			st := map[*ssa.Alloc]*entList{}
			// cell states at block entry: join over the predecessors that have been computed
			cells := map[*ssa.Alloc]bool{}
			for _, p := range b.Preds {
				for cell := range la.out[p] {
					cells[cell] = true
				}
			}
			for cell := range cells {
				var acc *entList
				first := true
				for _, p := range b.Preds {
					po, done := la.out[p]
					if !done {
						continue
					}
					l := po[cell]
					if l == nil {
						continue
					}
					if first {
						acc, first = l, false
						continue
					}
					acc = joinLists(acc, l, &edgeGuard{p, b}, b.Dominates(p))
				}
				st[cell] = acc
			}
			for _, ins := range b.Instrs {
				la.step(ins, st)
			}
			old, had := la.out[b]
			if !had || len(old) != len(st) {
				changed = true
			} else {
				for k, v := range st {
					if !listEqual(old[k], v) {
						changed = true
					}
				}
			}
			la.out[b] = st
		}
		if !changed && round > 0 {
			break
		}
		if round == 11 {
			la.setPoison("the entry lists of "+safeFname(fn)+" did not stabilise", nil)
		}
	}
	la.checkUses()
	// results
	allInstrs(fn, func(i ssa.Instruction) {
		ret, ok := i.(*ssa.Return)
		if !ok || isRecoverBlockReturn(ret) || isErrorReturn(ret) {
			return
		}
		for k, rv := range retVals(ret) {
			if !isEntSlice(rv.Type()) {
				continue
			}
			l := la.eval(rv)
			if old, ok := la.rets[k]; ok {
				l = joinLists(old, l, nil, false)
			}
			la.rets[k] = l
		}
	})
}

// eval: the list of a value that is not an instruction with state (constants, parameters), or an already computed one.
func (la *listAn) eval(v ssa.Value) *entList {
	switch x := v.(type) {
	case *ssa.Const:
		if x.IsNil() {
			return &entList{}
		}
	case *ssa.ChangeType:
		return la.eval(x.X)
	}
	if l, ok := la.val[v]; ok && l != nil {
		return l
	}
	if _, isInstr := v.(ssa.Instruction); isInstr {
		return nil // not computed yet (a value that flows around a loop): bottom
	}
	return topList("the entry list comes from a construct the rule does not follow ("+describeValue(v)+")", nil)
}

func sameLen(a, b ssa.Value) bool {
	if a == nil || b == nil {
		return false
	}
	if sameValue(a, b) {
		return true
	}
	ca, ok1 := a.(*ssa.Call)
	cb, ok2 := b.(*ssa.Call)
	if !ok1 || !ok2 {
		return false
	}
	ba, ok1 := ca.Call.Value.(*ssa.Builtin)
	bb, ok2 := cb.Call.Value.(*ssa.Builtin)
	return ok1 && ok2 && ba.Name() == "len" && bb.Name() == "len" && ca.Call.Args[0] == cb.Call.Args[0]
}

func (la *listAn) step(ins ssa.Instruction, st map[*ssa.Alloc]*entList) {
	switch x := ins.(type) {
	case *ssa.Alloc:
		if cell, ok := isEntCell(x); ok {
			st[cell] = &entList{} // the zero value: a nil slice
		}
	case *ssa.Store:
		if cell, ok := isEntCell(x.Addr); ok {
			if l := la.eval(x.Val); l != nil {
				st[cell] = l
			}
		}
	case *ssa.UnOp:
		if x.Op != token.MUL || !isEntSlice(x.Type()) {
			return
		}
		if cell, ok := isEntCell(x.X); ok {
			if l := st[cell]; l != nil {
				la.val[x] = l
			}
			return
		}
		if fv, ok := x.X.(*ssa.FreeVar); ok {
			la.val[x] = la.capturedList(fv)
			return
		}
		la.val[x] = topList("the entry list is loaded from "+describeValue(x.X)+", which the rule does not follow", x)
	case *ssa.Phi:
		if !isEntSlice(x.Type()) {
			return
		}
		var acc *entList
		first := true
		b := x.Block()
		for k, e := range x.Edges {
			l := la.eval(e)
			if l == nil {
				continue
			}
			if first {
				acc, first = l, false
				continue
			}
			acc = joinLists(acc, l, &edgeGuard{b.Preds[k], b}, b.Dominates(b.Preds[k]))
		}
		if acc != nil {
			la.val[x] = acc
		}
	case *ssa.MakeSlice:
		if !isEntSlice(x.Type()) {
			return
		}
		if k, ok := constInt(x.Len); ok && k == 0 {
			la.val[x] = &entList{}
		} else {
			la.val[x] = topList("the entry list is made with a non-zero length (zero entries)", x)
		}
	case *ssa.ChangeType:
		if isEntSlice(x.Type()) {
			if l := la.eval(x.X); l != nil {
				la.val[x] = l
			}
		}
	case *ssa.Slice:
		if !isEntSlice(x.Type()) {
			return
		}
		if arr, ok := x.X.(*ssa.Alloc); ok {
			la.val[x] = la.literal(arr, x)
			return
		}
		a := la.eval(x.X)
		if a == nil {
			return
		}
		if a.top {
			la.val[x] = a
			return
		}
		lowZero := x.Low == nil
		if k, ok := constInt(x.Low); x.Low != nil && ok && k == 0 {
			lowZero = true
		}
		highFull := x.High == nil || isLenOf(x.High, x.X)
		out := &entList{segs: append([]entSeg{}, a.segs...), sub: a.sub}
		if x.High != nil && !highFull {
			out.sub = true
		}
		if x.Max != nil && sameLen(x.Max, x.High) {
			out.sub = false // capacity cut at the length: an append copies
		}
		if !(lowZero && highFull) {
			for i := range out.segs {
				if !out.segs[i].many {
					out.segs[i].opt = true
				}
			}
		}
		la.val[x] = out
	case *ssa.Extract:
		if !isEntSlice(x.Type()) {
			return
		}
		if call, ok := x.Tuple.(*ssa.Call); ok {
			la.val[x] = la.callResult(call, x.Index)
		} else {
			la.val[x] = topList("the entry list comes from a construct the rule does not follow", x)
		}
	case *ssa.Call:
		la.call(x, st)
	case *ssa.Defer:
		la.otherCall(&x.Call, x)
	case *ssa.Go:
		la.otherCall(&x.Call, x)
	default:
		if v, ok := ins.(ssa.Value); ok && isEntSlice(v.Type()) {
			la.val[v] = topList("the entry list comes from a construct the rule does not follow ("+describeValue(v)+")", ins)
		}
	}
}

func (la *listAn) call(x *ssa.Call, st map[*ssa.Alloc]*entList) {
	if b, ok := x.Call.Value.(*ssa.Builtin); ok {
		if b.Name() == "append" && isEntSlice(x.Type()) {
			a := la.eval(x.Call.Args[0])
			if a == nil {
				return
			}
			if a.top {
				la.val[x] = a
				return
			}
			if a.sub {
				la.val[x] = topList("entries are appended to a re-slice x[:n] of a list without a capacity limit: the append overwrites the entries behind it", x)
				return
			}
			out := &entList{segs: append([]entSeg{}, a.segs...)}
			if len(x.Call.Args) > 1 {
				bl := la.eval(x.Call.Args[1])
				if bl == nil {
					return
				}
				if bl.top {
					la.val[x] = bl
					return
				}
				out.segs = append(out.segs, bl.segs...)
			}
			out.segs = normalise(out.segs)
			la.val[x] = out
		}
		return
	}
	name := calleeName(&x.Call)
	if sortCalls[name] && len(x.Call.Args) > 0 {
		arg := x.Call.Args[0]
		if mi, ok := arg.(*ssa.MakeInterface); ok {
			arg = mi.X
		}
		if isEntSlice(arg.Type()) {
			la.sorted(arg, x)
		}
		return
	}
	if isEntSlice(x.Type()) {
		la.val[x] = la.callResult(x, 0)
	}
	la.otherCall(&x.Call, x)
}

// sorted: a library sort permutes the entries of l in place (and thereby of every list that shares them). Entries of one
// kind may be permuted freely — the pairs stay pairs; a sort over entries of different kinds decides the order in which
// header and bitmaps reach the file, which the rule cannot follow: every list of the function becomes top.
func (la *listAn) sorted(arg ssa.Value, at *ssa.Call) {
	l := la.eval(arg)
	if l == nil {
		return
	}
	if l.top {
		if la.poison == "" {
			la.defect = l.defect
		}
		la.setPoison(l.why, l.at)
		return
	}
	kinds := map[string]bool{}
	for _, s := range l.segs {
		kinds[la.c.segKind(s, -1)] = true
	}
	if len(kinds) > 1 {
		ks := uniqSorted(keysOf(kinds))
		why := "the entry list is sorted as a whole (" + shortName(calleeName(&at.Call)) + " at " + la.c.w.ipos(at) + ") while it holds entries of different kinds (" + strings.Join(ks, ", ") + "): the sort, not the order in which they were appended, decides where the schema and the row counter end up among the bitmaps"
		d := headerFirstSort(la.c, at)
		if d != "" {
			why += "; " + d
		}
		if la.poison == "" {
			la.defect = d != ""
		}
		la.setPoison(why, at)
	}
}

func keysOf(m map[string]bool) []string {
	var out []string
	for k := range m {
		if k == "" {
			k = "unclassified"
		}
		out = append(out, k)
	}
	return out
}

// otherCall: a list handed to a module function is followed there (the function's parameter is bound to the argument);
// what matters here is only whether the callee reorders or overwrites it. Anything else that receives a list is not followed.
func (la *listAn) otherCall(cc *ssa.CallCommon, at ssa.Instruction) {
	for k, a := range cc.Args {
		if !isEntSlice(a.Type()) {
			continue
		}
		f := calleeFunc(cc)
		if f == nil || !la.c.w.inModule(f) || f.Blocks == nil {
			la.setPoison("the entry list is handed to "+shortName(calleeName(cc))+", which the rule does not follow", at)
			continue
		}
		pi := k
		if cc.IsInvoke() {
			la.setPoison("the entry list is handed to an interface method, which the rule does not follow", at)
			continue
		}
		if pi >= len(f.Params) {
			continue
		}
		if srt := sortsParam(la.c, f, f.Params[pi], 0); srt != nil {
			la.sorted(a, srt)
		}
		if w := overwritesParam(f, f.Params[pi]); w != nil {
			la.setPoison("the entry list is handed to "+safeFname(f)+", which overwrites entries of it", w)
		}
	}
}

// sortsParam: the callee (or a helper it passes the parameter on to) sorts its list parameter.
func sortsParam(c *Ctx, f *ssa.Function, p ssa.Value, depth int) *ssa.Call {
	if depth > 2 {
		return nil
	}
	var found *ssa.Call
	seen := map[ssa.Value]bool{}
	var visit func(v ssa.Value)
	visit = func(v ssa.Value) {
		if seen[v] || found != nil {
			return
		}
		seen[v] = true
		refs := v.Referrers()
		if refs == nil {
			return
		}
		for _, r := range *refs {
			switch r := r.(type) {
			case *ssa.Phi, *ssa.Slice, *ssa.ChangeType:
				visit(r.(ssa.Value))
			case *ssa.MakeInterface:
				visit(r)
			case *ssa.Store:
				if r.Val == v {
					if cell, ok := isEntCell(r.Addr); ok {
						// the cell's loads, here and in closures
						var loads func(a ssa.Value)
						loads = func(a ssa.Value) {
							if rr := a.Referrers(); rr != nil {
								for _, u := range *rr {
									switch u := u.(type) {
									case *ssa.UnOp:
										visit(u)
									case *ssa.MakeClosure:
										if g, ok := u.Fn.(*ssa.Function); ok {
											for bi, b := range u.Bindings {
												if b == a && bi < len(g.FreeVars) {
													loads(g.FreeVars[bi])
												}
											}
										}
									}
								}
							}
						}
						loads(cell)
					}
				}
			case *ssa.Call:
				if sortCalls[calleeName(&r.Call)] && len(r.Call.Args) > 0 && r.Call.Args[0] == v {
					found = r
					return
				}
				if g := calleeFunc(&r.Call); g != nil && c.w.inModule(g) && g.Blocks != nil && !r.Call.IsInvoke() {
					for k, a := range r.Call.Args {
						if a == v && k < len(g.Params) {
							if s := sortsParam(c, g, g.Params[k], depth+1); s != nil {
								found = s
								return
							}
						}
					}
				}
			}
		}
	}
	visit(p)
	return found
}

// callResult: the list a module function returns (join over its non-failing returns). A function that computes the
// result from a list parameter of its own is not followed (its parameter would have to be bound to this very call).
func (la *listAn) callResult(call *ssa.Call, idx int) *entList {
	f := calleeFunc(&call.Call)
	if f == nil || !la.c.w.inModule(f) || f.Blocks == nil || call.Call.IsInvoke() {
		return topList("the entry list is the result of "+shortName(calleeName(&call.Call))+", which the rule does not follow", call)
	}
	for _, p := range f.Params {
		if isEntSlice(p.Type()) {
			return topList("the entry list is the result of "+safeFname(f)+", which computes it from a list parameter (not followed)", call)
		}
	}
	cal := listAnOf(la.c, f)
	if cal.busy {
		return topList("the entry list is computed recursively", call)
	}
	if cal.poison != "" {
		return cal.poisoned()
	}
	if l := cal.rets[idx]; l != nil {
		return l
	}
	return topList("no successful return of "+safeFname(f)+" yields an entry list", call)
}

// paramList: the join of the arguments of all call sites in the module.
func (la *listAn) paramList(p *ssa.Parameter) *entList {
	fn := la.fn
	k := -1
	for j, q := range fn.Params {
		if q == p {
			k = j
		}
	}
	var acc *entList
	n := 0
	for _, g := range la.c.w.ModFuncs {
		if g == fn {
			continue
		}
		var sites []*ssa.CallCommon
		var at []ssa.Instruction
		allInstrs(g, func(i ssa.Instruction) {
			if cc := callCommon(i); cc != nil && calleeFunc(cc) == fn && !cc.IsInvoke() && k >= 0 && k < len(cc.Args) {
				sites = append(sites, cc)
				at = append(at, i)
			}
		})
		if len(sites) == 0 {
			continue
		}
		ga := listAnOf(la.c, g)
		if ga.busy {
			return topList("the entry list parameter is bound recursively", nil)
		}
		for j, cc := range sites {
			n++
			l := ga.of(cc.Args[k])
			if l.top && l.at == nil {
				l = &entList{top: true, why: l.why, at: at[j], defect: l.defect}
			}
			if acc == nil {
				acc = l
			} else if !listEqual(acc, l) {
				acc = joinLists(acc, l, nil, false)
			}
		}
	}
	if n == 0 {
		return topList("the function that receives the entry list is not called in the module", nil)
	}
	return acc
}

// capturedList: a list variable of the enclosing function read inside a function literal: the join of everything
// stored into it (the literal may run at any time).
func (la *listAn) capturedList(fv *ssa.FreeVar) *entList {
	cell, ok := peelCell(fv).(*ssa.Alloc)
	if !ok || cell.Parent() == nil || cell.Parent() == la.fn {
		return topList("a captured entry list the rule does not follow", nil)
	}
	pa := listAnOf(la.c, cell.Parent())
	if pa.busy {
		return topList("the captured entry list is bound recursively", nil)
	}
	if pa.poison != "" {
		return pa.poisoned()
	}
	stores, esc := cellStores(cell)
	if esc {
		return topList("the captured entry list escapes", nil)
	}
	var acc *entList
	for _, s := range stores {
		if s.Parent() != cell.Parent() {
			return topList("the captured entry list is assigned inside a function literal", s)
		}
		l := pa.of(s.Val)
		if acc == nil {
			acc = l
		} else if !listEqual(acc, l) {
			acc = joinLists(acc, l, nil, false)
		}
	}
	if acc == nil {
		return &entList{}
	}
	return acc
}

// literal: the slice `arr[:]` of a fresh array whose elements are filled in place: `[]T{{…}, {…}}` and the varargs array
// of `append(l, T{…})`. Every element must be written exactly once, either field by field or as a whole from a local
// struct that was filled field by field.
func (la *listAn) literal(arr *ssa.Alloc, at ssa.Instruction) *entList {
	at0, ok := arr.Type().(*types.Pointer).Elem().Underlying().(*types.Array)
	if !ok {
		return topList("the entry list is a slice of a local the rule does not follow", at)
	}
	n := at0.Len()
	elems := make([]map[int]ssa.Value, n)
	bad := ""
	var fieldsOf func(addr ssa.Value, into map[int]ssa.Value) bool
	fieldsOf = func(addr ssa.Value, into map[int]ssa.Value) bool {
		refs := addr.Referrers()
		if refs == nil {
			return false
		}
		for _, r := range *refs {
			switch r := r.(type) {
			case *ssa.FieldAddr:
				frefs := r.Referrers()
				for _, fr := range *frefs {
					switch fr := fr.(type) {
					case *ssa.Store:
						if fr.Addr != ssa.Value(r) {
							return false
						}
						if _, dup := into[r.Field]; dup {
							return false
						}
						into[r.Field] = fr.Val
					case *ssa.UnOp, *ssa.DebugRef:
					default:
						return false
					}
				}
			case *ssa.Store:
				if r.Addr != addr {
					return false
				}
				// whole element from a local struct
				ld, ok := r.Val.(*ssa.UnOp)
				if !ok || ld.Op != token.MUL {
					return false
				}
				loc, ok := ld.X.(*ssa.Alloc)
				if !ok || len(into) > 0 {
					return false
				}
				if !fieldsOf(loc, into) {
					return false
				}
			case *ssa.UnOp, *ssa.DebugRef:
			default:
				return false
			}
		}
		return true
	}
	refs := arr.Referrers()
	if refs == nil {
		return topList("the entry list is a slice of a local the rule does not follow", at)
	}
	for _, r := range *refs {
		switch r := r.(type) {
		case *ssa.IndexAddr:
			k, ok := constInt(r.Index)
			if !ok || k < 0 || k >= n || elems[k] != nil {
				bad = "an element of the literal is addressed in a way the rule does not follow"
				continue
			}
			elems[k] = map[int]ssa.Value{}
			if !fieldsOf(r, elems[k]) {
				bad = "an element of the literal is filled in a way the rule does not follow"
			}
		case *ssa.Slice, *ssa.DebugRef:
		default:
			bad = "the literal's array is used in a way the rule does not follow"
		}
	}
	if bad != "" {
		return topList(bad, at)
	}
	out := &entList{}
	for k := int64(0); k < n; k++ {
		if elems[k] == nil {
			elems[k] = map[int]ssa.Value{}
		}
		out.segs = append(out.segs, entSeg{fields: elems[k], fn: la.fn})
	}
	return out
}

// checkUses: every use of a list value must be one the analysis models; anything else could reorder or overwrite entries.
func (la *listAn) checkUses() {
	for v := range la.val {
		refs := v.Referrers()
		if refs == nil {
			continue
		}
		nAppendBase := 0
		for _, r := range *refs {
			switch r := r.(type) {
			case *ssa.Phi, *ssa.Slice, *ssa.Return, *ssa.DebugRef, *ssa.ChangeType, *ssa.BinOp, *ssa.Extract, *ssa.MakeInterface:
				if mi, ok := r.(*ssa.MakeInterface); ok {
					if mrefs := mi.Referrers(); mrefs != nil {
						for _, u := range *mrefs {
							if cc := callCommon(u); cc == nil || !sortCalls[calleeName(cc)] {
								if _, dbg := u.(*ssa.DebugRef); !dbg {
									la.setPoison("the entry list is converted to an interface and handed on, which the rule does not follow", u)
								}
							}
						}
					}
				}
			case *ssa.Store:
				if r.Val == v {
					if _, ok := isEntCell(r.Addr); !ok {
						la.setPoison("the entry list is stored into "+describeValue(r.Addr)+", which the rule does not follow", r)
					}
				}
			case *ssa.IndexAddr:
				if irefs := r.Referrers(); irefs != nil {
					for _, u := range *irefs {
						switch u := u.(type) {
						case *ssa.UnOp, *ssa.DebugRef:
						case *ssa.FieldAddr:
							if frefs := u.Referrers(); frefs != nil {
								for _, w := range *frefs {
									if st, ok := w.(*ssa.Store); ok && st.Addr == ssa.Value(u) {
										la.setPoison("a field of an entry of the list is overwritten", st)
									}
								}
							}
						case *ssa.Store:
							if u.Addr == ssa.Value(r) {
								la.setPoison("an entry of the list is overwritten through an index", u)
							}
						default:
							la.setPoison("the address of an entry of the list is handed on, which the rule does not follow", u.(ssa.Instruction))
						}
					}
				}
			case *ssa.Call:
				if b, ok := r.Call.Value.(*ssa.Builtin); ok {
					if b.Name() == "append" && len(r.Call.Args) > 0 && r.Call.Args[0] == v {
						nAppendBase++
					}
					if b.Name() == "copy" {
						la.setPoison("entries are copied with copy(), which the rule does not follow", r)
					}
				}
				// module callees and sorts were handled in step
			case *ssa.Defer, *ssa.Go:
			case *ssa.Range, *ssa.Index, *ssa.Lookup:
			default:
				la.setPoison("the entry list is used by a construct the rule does not follow", r)
			}
		}
		if nAppendBase > 1 {
			// harmless if the value is computed anew between the two (the loop-carried phi of `l = append(l, e)` and the
			// append after the loop)
			var apps []ssa.Instruction
			for _, r := range *refs {
				if call, ok := r.(*ssa.Call); ok {
					if b, ok := call.Call.Value.(*ssa.Builtin); ok && b.Name() == "append" && call.Call.Args[0] == v {
						apps = append(apps, call)
					}
				}
			}
			isDef := func(i ssa.Instruction) bool {
				if phi, ok := v.(*ssa.Phi); ok {
					_, isPhi := i.(*ssa.Phi)
					return isPhi && i.Block() == phi.Block()
				}
				d, ok := v.(ssa.Instruction)
				return ok && d == i
			}
			for _, a1 := range apps {
				for _, a2 := range apps {
					if a1 != a2 && la.c.fc.pathFrom(la.fn, a1, func(i ssa.Instruction) bool { return i == a2 }, isDef, nil) != nil {
						la.setPoison("two appends extend the same list value: the second may overwrite what the first appended", a2)
					}
				}
			}
		}
	}
	// cells captured by function literals must only be read there
	allInstrs(la.fn, func(i ssa.Instruction) {
		al, ok := i.(*ssa.Alloc)
		if !ok {
			return
		}
		cell, ok := isEntCell(al)
		if !ok {
			return
		}
		stores, esc := cellStores(cell)
		if esc {
			la.setPoison("the address of the entry list variable is handed on, which the rule does not follow", i)
		}
		for _, s := range stores {
			if s.Parent() != la.fn {
				la.setPoison("the entry list variable is assigned inside a function literal", s)
			}
		}
	})
}

// ---------- kinds, consumers ----------

// segKind: the key kind of an entry (keyKind of what was stored into its key field). fk < 0: the key field is not known
// yet (no consumer seen): the first []byte field whose value keyKind classifies.
func (c *Ctx) segKind(s entSeg, fk int) string {
	if fk >= 0 {
		if v := s.fields[fk]; v != nil {
			return keyKind(c, v)
		}
		return ""
	}
	for k := 0; k < 8; k++ {
		if v := s.fields[k]; v != nil {
			if kk := keyKind(c, v); kk != "" && kk != "value-prefix" {
				return kk
			}
		}
	}
	return ""
}

// listPut: Put(e.F, e.G) with e an element of a list L (`L[i]`, or the copy a `for _, e := range L` makes of it).
type listPut struct {
	put    *ssa.Call
	list   ssa.Value
	index  ssa.Value
	fk, fv int
}

func elemFieldLoad(v ssa.Value) (list, index ssa.Value, field int, ok bool) {
	ld, isLd := v.(*ssa.UnOp)
	if !isLd || ld.Op != token.MUL {
		return
	}
	fa, isFA := ld.X.(*ssa.FieldAddr)
	if !isFA {
		return
	}
	elem := fa.X
	if loc, isLoc := elem.(*ssa.Alloc); isLoc {
		// the range variable: a local struct stored exactly once, from L[i]
		var src ssa.Value
		n := 0
		if refs := loc.Referrers(); refs != nil {
			for _, r := range *refs {
				if st, isSt := r.(*ssa.Store); isSt && st.Addr == ssa.Value(loc) {
					n++
					src = st.Val
				}
			}
		}
		if n != 1 {
			return
		}
		sl, isLd := src.(*ssa.UnOp)
		if !isLd || sl.Op != token.MUL {
			return
		}
		elem = sl.X
	}
	ia, isIA := elem.(*ssa.IndexAddr)
	if !isIA || !isEntSlice(ia.X.Type()) {
		return
	}
	return ia.X, ia.Index, fa.Field, true
}

func listPutOf(put *ssa.Call) (listPut, bool) {
	if calleeName(&put.Call) != boltPut || len(put.Call.Args) < 3 {
		return listPut{}, false
	}
	l, idx, fk, ok := elemFieldLoad(put.Call.Args[1])
	if !ok {
		return listPut{}, false
	}
	lp := listPut{put: put, list: l, index: idx, fk: fk, fv: -1}
	if l2, idx2, fv, ok := elemFieldLoad(put.Call.Args[2]); ok && l2 == l && idx2 == idx {
		lp.fv = fv
	}
	return lp, true
}

// listOfPut: the abstract list a list Put walks.
func (c *Ctx) listOfPut(lp listPut) *entList {
	fn := lp.put.Parent()
	la := listAnOf(c, fn)
	if la.busy {
		return topList("the entry list is bound recursively", lp.put)
	}
	l := la.of(lp.list)
	if l.top && l.at == nil {
		return &entList{top: true, why: l.why, at: lp.put, defect: l.defect}
	}
	return l
}

// consumesAll: the function of the list Put stores every entry of the list, front to back, before it can return
// successfully: the Put sits in a loop `for i := range L` / `for _, e := range L` (index from 0 in steps of 1 up to
// len(L)), every trip through the body passes the Put, and a successful return is reached only through the loop's exit.
func (c *Ctx) consumesAll(lp listPut) bool {
	fn := lp.put.Parent()
	phi, step := inductionOf(lp.index)
	if phi == nil || step != 1 {
		return false
	}
	_, off := lin(lp.index)
	var init int64 = -99
	for k, e := range phi.Edges {
		if !phi.Block().Dominates(phi.Block().Preds[k]) {
			if v, ok := constInt(e); ok {
				init = v
			} else {
				return false
			}
		}
	}
	if init+off != 0 {
		return false
	}
	var loop *loopInfo
	for _, l := range loopsOf(fn) {
		if l.header == phi.Block() {
			loop = l
		}
	}
	if loop == nil || !loop.blocks[lp.put.Block()] {
		return false
	}
	// the exit test: index < len(L)
	h := loop.header
	iff, ok := h.Instrs[len(h.Instrs)-1].(*ssa.If)
	if !ok || len(h.Succs) != 2 || !loop.blocks[h.Succs[0]] || loop.blocks[h.Succs[1]] {
		return false
	}
	okCond := false
	for _, cm := range trueCmps(fact{iff.Cond, true}) {
		if cm.Op == token.LSS && cm.Y != nil {
			xb, xo := lin(cm.X)
			if xb == ssa.Value(phi) && xo == off && isLenOf(cm.Y, lp.list) {
				okCond = true
			}
		}
	}
	if !okCond {
		return false
	}
	// every trip passes the Put: no way from the body's entry back to the header that avoids it
	body := h.Succs[0]
	if len(body.Instrs) == 0 {
		return false
	}
	isPut := func(i ssa.Instruction) bool { return i == ssa.Instruction(lp.put) }
	if isPut(body.Instrs[0]) {
		// fine
	} else if p := c.fc.pathFrom(fn, body.Instrs[0], func(i ssa.Instruction) bool { return i.Block() == h }, isPut, nil); p != nil {
		return false
	}
	// other exits of the loop lead to no successful return
	exit := func(pred, succ *ssa.BasicBlock) bool { return pred == h && succ == h.Succs[1] }
	return c.fc.pathAvoidingEdges(fn, mayBeSuccessReturn, nil, exit) == nil
}

// headerFirstSort: the less function of the sort compares the key field of two entries byte-wise ascending, and the
// constant keys of schema and row counter are smaller than the bitmap prefix: the sort puts the header in front.
func headerFirstSort(c *Ctx, sc *ssa.Call) string {
	name := calleeName(&sc.Call)
	if name != "sort.Slice" && name != "sort.SliceStable" || len(sc.Call.Args) < 2 {
		return ""
	}
	var fn *ssa.Function
	switch v := sc.Call.Args[1].(type) {
	case *ssa.MakeClosure:
		fn, _ = v.Fn.(*ssa.Function)
	case *ssa.Function:
		fn = v
	}
	if fn == nil || fn.Blocks == nil {
		return ""
	}
	asc := false
	allInstrs(fn, func(j ssa.Instruction) {
		ret, ok := j.(*ssa.Return)
		if !ok || len(ret.Results) != 1 {
			return
		}
		b, ok := ret.Results[0].(*ssa.BinOp)
		if !ok || b.Op != token.LSS {
			return
		}
		if k, isK := constInt(b.Y); !isK || k != 0 {
			return
		}
		call, ok := b.X.(*ssa.Call)
		if !ok || calleeName(&call.Call) != "bytes.Compare" {
			return
		}
		i0, f0 := elemIndexField(call.Call.Args[0])
		i1, f1 := elemIndexField(call.Call.Args[1])
		if f0 != nil && f0 == f1 && len(fn.Params) == 2 && i0 == ssa.Value(fn.Params[0]) && i1 == ssa.Value(fn.Params[1]) {
			asc = true
		}
	})
	if !asc {
		return ""
	}
	first := func(g *ssa.Global) (byte, bool) {
		bs, ok := globalBytes(c, g)
		if !ok || len(bs) == 0 {
			return 0, false
		}
		return bs[0], true
	}
	s, ok1 := first(c.a.KeySchema)
	r, ok2 := first(c.a.KeyRows)
	v, ok3 := first(c.a.KeyValue)
	if ok1 && ok2 && ok3 && s < v && r < v {
		return fmt.Sprintf("it sorts by key, ascending: the keys of schema (%q) and row counter (%q) are smaller than every bitmap key (%q…), so both are written FIRST, in the first transaction", string(s), string(r), string(v))
	}
	return ""
}

// globalBytes: the content of a package-level []byte variable that is initialised from a composite literal of constants
// and never assigned again (companion of globalSliceLen).
func globalBytes(c *Ctx, g *ssa.Global) ([]byte, bool) {
	n, ok := globalSliceLen(c, g)
	if !ok || n <= 0 || n > 64 {
		return nil, false
	}
	out := make([]byte, n)
	set := make([]bool, n)
	init := g.Pkg.Func("init")
	if init == nil {
		return nil, false
	}
	good := true
	allInstrs(init, func(i ssa.Instruction) {
		st, isSt := i.(*ssa.Store)
		if !isSt || st.Addr != ssa.Value(g) {
			return
		}
		sl, isSl := st.Val.(*ssa.Slice)
		if !isSl {
			good = false
			return
		}
		al, isAl := sl.X.(*ssa.Alloc)
		if !isAl || al.Referrers() == nil {
			good = false
			return
		}
		for _, r := range *al.Referrers() {
			ia, isIA := r.(*ssa.IndexAddr)
			if !isIA {
				continue
			}
			k, isK := constInt(ia.Index)
			if !isK || k < 0 || k >= n || ia.Referrers() == nil {
				good = false
				continue
			}
			for _, u := range *ia.Referrers() {
				if es, isES := u.(*ssa.Store); isES && es.Addr == ssa.Value(ia) {
					if b, isB := constInt(es.Val); isB && b >= 0 && b < 256 {
						out[k], set[k] = byte(b), true
					} else {
						good = false
					}
				}
			}
		}
	})
	for _, s := range set {
		if !s {
			good = false
		}
	}
	return out, good
}

// listTops: the list Puts whose entry list could not be followed, met while summarising flush events (reset per anchor
// by headerLastRule): the reason is reported instead of the bare consequence "the function never writes the schema key".
var listTops = map[*ssa.Call]*entList{}

// listPutKinds: the key kinds a list Put may store ("" among them: an entry whose key cannot be classified, or a list
// that cannot be followed).
func listPutKinds(c *Ctx, i ssa.Instruction) (map[string]bool, bool) {
	call, ok := i.(*ssa.Call)
	if !ok {
		return nil, false
	}
	lp, ok := listPutOf(call)
	if !ok {
		return nil, false
	}
	out := map[string]bool{}
	l := c.listOfPut(lp)
	if l.top {
		listTops[call] = l
		out[""] = true
		return out, true
	}
	for _, s := range l.segs {
		k := c.segKind(s, lp.fk)
		if k != "schema" && k != "rows" && k != "value" {
			k = ""
		}
		out[k] = true
	}
	return out, true
}

// ---------- how an instruction of a flush function carries the header ----------

// hdrCarry says how an instruction i of fn that may put the header key k (schema / rows) — directly, in the callback of
// DB.Update, in a module helper, or as an entry of a list it hands to a consumer — relates to "k has been put":
//   - must: whenever i completes successfully, k has been put;
//   - a guard g (a boolean of fn's frame) with onlyIf: k is put only if g == pol, and/or whenever: k is put whenever
//     g == pol. (z4: the callback writes the header `if isLast`; z5: the trailer is appended to the batch `if last`.)
//   - listParam: i is itself a list Put over a list that fn received as a parameter: what the list holds is decided by
//     the callers, where the call of fn is the carrier.
//
// Nothing of this: k may or may not have been put.
type hdrCarry struct {
	must      bool
	g         ssa.Value
	pol       bool
	onlyIf    bool
	whenever  bool
	listParam bool
	loopExit  *edgeGuard // a list Put of fn that walks a list holding k completely: k has been put when the loop is left here
}

func carrierCallee(cc *ssa.CallCommon) (callee *ssa.Function, isTx bool) {
	switch calleeName(cc) {
	case "(*go.etcd.io/bbolt.DB).Update", "(*go.etcd.io/bbolt.DB).Batch":
		if len(cc.Args) > 1 {
			switch v := cc.Args[1].(type) {
			case *ssa.MakeClosure:
				f, _ := v.Fn.(*ssa.Function)
				return f, true
			case *ssa.Function:
				return v, true
			}
		}
		return nil, true
	}
	if cc.IsInvoke() {
		return nil, false
	}
	return calleeFunc(cc), false
}

// mayBeSuccessReturn: a return that is not known to carry a non-nil error.
func mayBeSuccessReturn(i ssa.Instruction) bool {
	ret, ok := i.(*ssa.Return)
	if !ok || isRecoverBlockReturn(ret) {
		return false
	}
	if isErrorReturn(ret) {
		rv := retVals(ret)
		e := rv[len(rv)-1]
		if call, ok := peel(e).(*ssa.Call); ok && isCallTo(call, "fmt.Errorf", "errors.New") {
			return false
		}
		return !knownNonNil(e, ret)
	}
	return true
}

// stripNot: the condition under its negations, and whether their number is even.
func stripNot(v ssa.Value) (ssa.Value, bool) {
	pos := true
	for {
		if u, ok := v.(*ssa.UnOp); ok && u.Op == token.NOT {
			v, pos = u.X, !pos
			continue
		}
		return v, pos
	}
}

func sameCond(v, g ssa.Value) bool {
	return v == g || peel(v) == peel(g)
}

// condEdge: the CFG edge pred->succ is taken exactly when g == want.
func condEdge(pred, succ *ssa.BasicBlock, g ssa.Value, want bool) bool {
	iff, ok := pred.Instrs[len(pred.Instrs)-1].(*ssa.If)
	if !ok || len(pred.Succs) != 2 || pred.Succs[0] == pred.Succs[1] {
		return false
	}
	cond, pos := stripNot(iff.Cond)
	if !sameCond(cond, g) {
		return false
	}
	taken := pred.Succs[0] == succ
	return (taken == pos) == want
}

func instrDominates(a, b ssa.Instruction) bool {
	if a.Block() == b.Block() {
		return pointOf(a).i <= pointOf(b).i
	}
	return a.Block().Dominates(b.Block())
}

// segCarry: what a list with segments of kind k says about "k is among the entries handed over", for the consumer call /
// list Put at instruction `at` of fn.
func (c *Ctx) segCarry(fn *ssa.Function, at ssa.Instruction, l *entList, fk int, k string) hdrCarry {
	if l == nil || l.top {
		return hdrCarry{}
	}
	var segs []entSeg
	for _, s := range l.segs {
		if c.segKind(s, fk) == k {
			segs = append(segs, s)
		}
	}
	if len(segs) == 0 {
		return hdrCarry{}
	}
	for _, s := range segs {
		if !s.many && !s.opt && s.guard == nil {
			return hdrCarry{must: true}
		}
	}
	// all guarded by one edge of fn whose join dominates the consumer
	g0 := segs[0].guard
	for _, s := range segs {
		if s.many || s.guard == nil || !sameGuard(s.guard, g0) {
			return hdrCarry{}
		}
	}
	if g0.succ.Parent() != fn || !(g0.succ == at.Block() || g0.succ.Dominates(at.Block())) {
		return hdrCarry{}
	}
	exact := true
	for _, s := range segs {
		if s.opt {
			exact = false
		}
	}
	var first *hdrCarry
	for _, f := range factsOnEdge(g0.pred, g0.succ) {
		cond, pos := stripNot(f.Cond)
		cr := hdrCarry{g: cond, pol: f.Val == pos, onlyIf: true}
		// whenever: on every other edge into the join the condition has the other value
		cr.whenever = exact
		for _, o := range g0.succ.Preds {
			if o == g0.pred {
				continue
			}
			other := false
			for _, of := range factsOnEdge(o, g0.succ) {
				oc, op := stripNot(of.Cond)
				if sameCond(oc, cond) && (of.Val == op) != cr.pol {
					other = true
				}
			}
			if !other {
				cr.whenever = false
			}
		}
		if cr.whenever {
			return cr
		}
		if first == nil {
			x := cr
			first = &x
		}
	}
	if first != nil {
		return *first
	}
	return hdrCarry{}
}

func (c *Ctx) hdrCarryOf(fn *ssa.Function, i ssa.Instruction, k string, depth int) hdrCarry {
	cc := callCommon(i)
	if cc == nil || depth < 0 {
		return hdrCarry{}
	}
	if calleeName(cc) == boltPut {
		if keyKind(c, cc.Args[1]) == k {
			return hdrCarry{must: true}
		}
		call, ok := i.(*ssa.Call)
		if !ok {
			return hdrCarry{}
		}
		lp, ok := listPutOf(call)
		if !ok {
			return hdrCarry{}
		}
		if _, isParam := lp.list.(*ssa.Parameter); isParam {
			return hdrCarry{listParam: true}
		}
		if !c.consumesAll(lp) {
			return hdrCarry{}
		}
		if cr := c.segCarry(fn, i, c.listOfPut(lp), lp.fk, k); cr.must {
			phi, _ := inductionOf(lp.index)
			h := phi.Block()
			return hdrCarry{loopExit: &edgeGuard{h, h.Succs[1]}}
		}
		return hdrCarry{}
	}
	callee, _ := carrierCallee(cc)
	if callee == nil || callee.Blocks == nil || !c.w.inModule(callee) {
		return hdrCarry{}
	}
	var H []ssa.Instruction
	allInstrs(callee, func(j ssa.Instruction) {
		if flushEvents(c, j, depth-1, nil)[k] {
			H = append(H, j)
		}
	})
	if len(H) == 0 {
		return hdrCarry{}
	}
	// (a) the callee puts k on every path to a successful return
	if c.headerMissingPath(callee, k, depth-1, mayBeSuccessReturn) == nil {
		return hdrCarry{must: true}
	}
	// (b) the callee stores a list it is handed: the list decides
	if len(H) == 1 {
		if call, ok := H[0].(*ssa.Call); ok {
			if lp, ok := listPutOf(call); ok && c.consumesAll(lp) {
				if p, isParam := lp.list.(*ssa.Parameter); isParam {
					for pi, q := range callee.Params {
						if q == p && pi < len(cc.Args) {
							la := listAnOf(c, fn)
							if !la.busy {
								return c.segCarry(fn, i, la.of(cc.Args[pi]), lp.fk, k)
							}
						}
					}
				} else {
					return c.segCarry(fn, i, c.listOfPut(lp), lp.fk, k)
				}
			}
		}
	}
	// (c) every put of k in the callee is under one condition that is a boolean of fn (captured, or passed as argument)
	toFrame := func(v ssa.Value) ssa.Value {
		v = peel(v)
		// a variable of fn that is assigned more than once (`done = len(keys) == 0` in a loop) and read by the callee: its
		// value during the call is what the last assignment before the call stored
		if ld, ok := v.(*ssa.UnOp); ok && ld.Op == token.MUL {
			if cell, ok := peelCell(ld.X).(*ssa.Alloc); ok && cell.Parent() == fn {
				if st := storeInEffect(cell, i); st != nil {
					g := peel(st.Val)
					guardCell[g], guardAt[g] = cell, i
					v = g
				}
			}
		}
		if p, ok := v.(*ssa.Parameter); ok && p.Parent() == callee {
			for pi, q := range callee.Params {
				if q == p && pi < len(cc.Args) {
					return peel(cc.Args[pi])
				}
			}
			return nil
		}
		switch x := v.(type) {
		case *ssa.Parameter:
			if x.Parent() == fn {
				return v
			}
		case ssa.Instruction:
			if x.Parent() == fn {
				return v
			}
		}
		return nil
	}
	type cand struct {
		g   ssa.Value
		pol bool
	}
	var cands []cand
	for n, h := range H {
		var mine []cand
		for _, f := range factsAt(h) {
			cond, pos := stripNot(f.Cond)
			if g := toFrame(cond); g != nil {
				mine = append(mine, cand{g, f.Val == pos})
			}
		}
		if n == 0 {
			cands = mine
			continue
		}
		var keep []cand
		for _, a := range cands {
			for _, b := range mine {
				if a == b {
					keep = append(keep, a)
				}
			}
		}
		cands = keep
	}
	for _, cd := range cands {
		cr := hdrCarry{g: cd.g, pol: cd.pol, onlyIf: true}
		isK := func(j ssa.Instruction) bool {
			for _, h := range H {
				if h == j {
					return c.hdrCarryOf(callee, j, k, depth-1).must
				}
			}
			return false
		}
		cut := func(pred, succ *ssa.BasicBlock) bool {
			iff, ok := pred.Instrs[len(pred.Instrs)-1].(*ssa.If)
			if !ok || len(pred.Succs) != 2 {
				return false
			}
			cond, pos := stripNot(iff.Cond)
			if g := toFrame(cond); g == nil || g != cd.g {
				return false
			}
			return ((pred.Succs[0] == succ) == pos) != cd.pol
		}
		cr.whenever = c.fc.pathAvoidingEdges(callee, mayBeSuccessReturn, isK, cut) == nil
		return cr
	}
	return hdrCarry{}
}

// chunkOf: the call E hands a consumer the chunk P[:n] of a list variable P that the enclosing loop advances by exactly
// that chunk (`for … { write(P[:n]); P = P[n:] }`): the chunks of successive trips are consecutive pieces of the initial
// list, front to back, and every trip passes E before P advances.
type chunkInfo struct {
	phi  *ssa.Phi
	hi   ssa.Value
	init *entList
	fk   int
}

func (c *Ctx) chunkOf(fn *ssa.Function, e ssa.Instruction) *chunkInfo {
	cc := callCommon(e)
	if cc == nil {
		return nil
	}
	callee, _ := carrierCallee(cc)
	if callee == nil || callee.Blocks == nil {
		return nil
	}
	for ai, a := range cc.Args {
		sl, ok := a.(*ssa.Slice)
		if !ok || !isEntSlice(sl.Type()) || sl.High == nil || sl.Max != nil {
			continue
		}
		if k, isK := constInt(sl.Low); sl.Low != nil && !(isK && k == 0) {
			continue
		}
		phi, ok := sl.X.(*ssa.Phi)
		if !ok || len(phi.Edges) != 2 || ai >= len(callee.Params) {
			continue
		}
		// the consumer: one list Put over this parameter that stores all of it
		fk := -1
		n := 0
		allInstrs(callee, func(j ssa.Instruction) {
			if call, ok := j.(*ssa.Call); ok {
				if lp, ok := listPutOf(call); ok {
					n++
					if lp.list == ssa.Value(callee.Params[ai]) && c.consumesAll(lp) {
						fk = lp.fk
					}
				}
			}
		})
		if n != 1 || fk < 0 {
			continue
		}
		hb := phi.Block()
		var init ssa.Value
		okBack := false
		for k, ev := range phi.Edges {
			pred := hb.Preds[k]
			if !hb.Dominates(pred) {
				init = ev
				continue
			}
			back, ok := ev.(*ssa.Slice)
			if ok && back.X == ssa.Value(phi) && back.High == nil && back.Max == nil && back.Low != nil && sameValue(back.Low, sl.High) &&
				(e.Block() == pred || e.Block().Dominates(pred)) && (hb == e.Block() || hb.Dominates(e.Block())) {
				okBack = true
			}
		}
		if init == nil || !okBack {
			continue
		}
		la := listAnOf(c, fn)
		if la.busy {
			continue
		}
		l := la.of(init)
		if l.top {
			continue
		}
		return &chunkInfo{phi: phi, hi: sl.High, init: l, fk: fk}
	}
	return nil
}

// headerLast: in the list, no bitmap entry follows a schema / row-counter entry, and every entry is classified.
func (c *Ctx) headerLast(l *entList, fk int) bool {
	hdr := false
	for _, s := range l.segs {
		switch c.segKind(s, fk) {
		case "value":
			if hdr {
				return false
			}
		case "schema", "rows":
			hdr = true
		default:
			return false
		}
	}
	return true
}

// trailerLen: the number of entries from the first header entry to the end of the list, if that is a fixed number.
func (c *Ctx) trailerLen(l *entList, fk int) (int64, bool) {
	n, in := int64(0), false
	for _, s := range l.segs {
		k := c.segKind(s, fk)
		if k == "schema" || k == "rows" {
			in = true
		}
		if in {
			if s.many || s.opt || s.guard != nil {
				return 0, false
			}
			n++
		}
	}
	return n, true
}

// chunkKeepsTrailer: the chunk length n is, on every way it is computed, either len(P) (the chunk is everything that is
// left) or a constant K chosen where len(P) >= K+t is known: the cut leaves at least the t trailer entries behind, so the
// trailer (schema and row counter) is never split over two transactions.
func (c *Ctx) chunkKeepsTrailer(ch *chunkInfo, t int64) bool {
	okOne := func(v ssa.Value, cmps []cmp) bool {
		if isLenOf(v, ch.phi) {
			return true
		}
		k, isK := constInt(v)
		if !isK {
			return false
		}
		for _, cm := range cmps {
			if cm.Y == nil || !isLenOf(cm.X, ch.phi) {
				continue
			}
			b, isB := constInt(cm.Y)
			if !isB {
				continue
			}
			if cm.Op == token.GEQ && b-k >= t || cm.Op == token.GTR && b+1-k >= t {
				return true
			}
		}
		return false
	}
	if np, ok := ch.hi.(*ssa.Phi); ok {
		for k, e := range np.Edges {
			if !okOne(e, cmpsOnEdge(np.Block().Preds[k], np.Block())) {
				return false
			}
		}
		return true
	}
	if ins, ok := ch.hi.(ssa.Instruction); ok {
		return okOne(ch.hi, cmpsAt(ins))
	}
	return false
}

// lenZeroOnEdge: on the edge pred->succ the list variable P is known to be empty.
func lenZeroOnEdge(pred, succ *ssa.BasicBlock, p ssa.Value) bool {
	for _, cm := range cmpsOnEdge(pred, succ) {
		if cm.Y == nil || !isLenOf(cm.X, p) {
			continue
		}
		b, isB := constInt(cm.Y)
		if !isB {
			continue
		}
		if (cm.Op == token.EQL || cm.Op == token.LEQ) && b == 0 || cm.Op == token.LSS && b == 1 {
			return true
		}
	}
	return false
}

// headerMissingPath: a path from the entry of fn to a successful return on which the header key k has not been put, or
// nil. Instructions that must put k block the path; so do the edges on which k is known to have been put: the edge
// `g == pol` after a carrier that puts k whenever g == pol (sound when def(g) dominates the carrier and the carrier
// dominates the branch: the branch then tests the value the carrier saw), the exit of a loop that stores a whole list
// holding k, and, for a chunked consumer, the edges on which the list variable is known to be empty (everything,
// including k, has been handed over).
func (c *Ctx) headerMissingPath(fn *ssa.Function, k string, depth int, target func(ssa.Instruction) bool) []ssa.Instruction {
	if depth < 0 || fn.Blocks == nil {
		return nil
	}
	must := map[ssa.Instruction]bool{}
	type condCut struct {
		at  ssa.Instruction
		g   ssa.Value
		pol bool
	}
	var conds []condCut
	var exits []*edgeGuard
	var empties []ssa.Value
	allInstrs(fn, func(i ssa.Instruction) {
		if !flushEvents(c, i, depth, nil)[k] {
			return
		}
		cr := c.hdrCarryOf(fn, i, k, depth)
		switch {
		case cr.must:
			must[i] = true
		case cr.loopExit != nil:
			exits = append(exits, cr.loopExit)
		case cr.whenever && cr.g != nil:
			if d, ok := cr.g.(ssa.Instruction); !ok || instrDominates(d, i) {
				conds = append(conds, condCut{i, cr.g, cr.pol})
			}
		}
		if ch := c.chunkOf(fn, i); ch != nil {
			for _, s := range ch.init.segs {
				if c.segKind(s, ch.fk) == k && !s.many && !s.opt && s.guard == nil {
					empties = append(empties, ch.phi)
				}
			}
		}
	})
	cut := func(pred, succ *ssa.BasicBlock) bool {
		for _, cd := range conds {
			if (cd.at.Block() == pred || cd.at.Block().Dominates(pred)) && condEdge(pred, succ, cd.g, cd.pol) {
				return true
			}
			if c.impliesPut(fn, pred, succ, cd.at, cd.g, cd.pol) {
				return true
			}
		}
		for _, e := range exits {
			if e.pred == pred && e.succ == succ {
				return true
			}
		}
		for _, p := range empties {
			if lenZeroOnEdge(pred, succ, p) {
				return true
			}
		}
		return false
	}
	return c.fc.pathAvoidingEdges(fn, target, func(i ssa.Instruction) bool { return must[i] }, cut)
}

// guardedPath: a path from just after `from` to a target, for executions in which g == pol held at `from`: branches on g
// are followed only on the side g == pol until g is computed anew (in a next trip of a loop), from where on nothing is
// known about it.
func (c *Ctx) guardedPath(fn *ssa.Function, from ssa.Instruction, target func(ssa.Instruction) bool, g ssa.Value, pol bool) []ssa.Instruction {
	cut := func(pred, succ *ssa.BasicBlock) bool {
		if condEdge(pred, succ, g, !pol) {
			return true
		}
		// the branch reads the variable g was stored into, and no assignment to it lies between `from` and this read
		if cell := guardCell[g]; cell != nil && guardAt[g] == from {
			if iff, ok := pred.Instrs[len(pred.Instrs)-1].(*ssa.If); ok && len(pred.Succs) == 2 && pred.Succs[0] != pred.Succs[1] {
				cond, pos := stripNot(iff.Cond)
				if ld, ok := cond.(*ssa.UnOp); ok && ld.Op == token.MUL && ld.X == ssa.Value(cell) {
					isStore := func(i ssa.Instruction) bool { st, ok := i.(*ssa.Store); return ok && st.Addr == ssa.Value(cell) }
					isLd := func(i ssa.Instruction) bool { return i == ssa.Instruction(ld) }
					if c.fc.pathFrom(fn, from, isStore, isLd, nil) == nil {
						return ((pred.Succs[0] == succ) == pos) == !pol
					}
				}
			}
		}
		return false
	}
	def, _ := g.(ssa.Instruction)
	isDef := func(i ssa.Instruction) bool { return def != nil && i == def }
	if p := c.fc.pathFrom(fn, from, target, isDef, cut); p != nil {
		return p
	}
	if def == nil || def.Parent() != fn {
		return nil
	}
	pb := c.fc.pathFrom(fn, from, isDef, nil, cut)
	if pb == nil {
		return nil
	}
	if pc := c.fc.pathAvoiding(fn, def, target, nil); pc != nil {
		return append(pb, pc...)
	}
	return nil
}

// selfCommits: whenever instruction i (a carrier of header puts) completes successfully, what it put has been
// committed: the callback of DB.Update / DB.Batch, or a module helper in which no successful return is reachable from a
// header put without a Commit.
func (c *Ctx) selfCommits(i ssa.Instruction, depth int) bool {
	cc := callCommon(i)
	if cc == nil || depth < 0 {
		return false
	}
	callee, isTx := carrierCallee(cc)
	if callee == nil || callee.Blocks == nil || !c.w.inModule(callee) {
		return false
	}
	if isTx {
		ev := funcFlushEvents(c, callee, depth-1)
		return ev["schema"] || ev["rows"]
	}
	var hs, commits []ssa.Instruction
	allInstrs(callee, func(j ssa.Instruction) {
		ev := flushEvents(c, j, depth-1, nil)
		if ev["schema"] || ev["rows"] {
			hs = append(hs, j)
		}
		if ev["commit"] {
			commits = append(commits, j)
		}
	})
	if len(hs) == 0 {
		return false
	}
	isCommit := func(j ssa.Instruction) bool {
		for _, x := range commits {
			if x == j {
				return true
			}
		}
		return false
	}
	for _, h := range hs {
		if c.selfCommits(h, depth-1) {
			continue
		}
		if c.fc.pathAvoiding(callee, h, mayBeSuccessReturn, isCommit) != nil {
			return false
		}
	}
	return true
}

// guardCell / guardAt: a guard value g that hdrCarryOf read out of a variable of the flush function which is assigned
// more than once: the variable's cell and the carrier at which g was its value.
var guardCell = map[ssa.Value]*ssa.Alloc{}
var guardAt = map[ssa.Value]ssa.Instruction{}

// storeInEffect: the assignment to the local variable `cell` whose value the variable holds when instruction `at`
// executes: the last store before `at` in at's own block (all stores to the cell are in the cell's function: function
// literals only read it).
func storeInEffect(cell *ssa.Alloc, at ssa.Instruction) *ssa.Store {
	stores, esc := cellStores(cell)
	if esc || len(stores) < 2 {
		return nil
	}
	for _, st := range stores {
		if st.Parent() != cell.Parent() {
			return nil
		}
	}
	var last *ssa.Store
	for _, j := range at.Block().Instrs {
		if j == at {
			break
		}
		if st, ok := j.(*ssa.Store); ok && st.Addr == ssa.Value(cell) {
			last = st
		}
	}
	return last
}

// impliesPut: the edge pred->succ is taken only when the carrier `at` has put the header since the branch condition
// got its value. The condition is a variable that merges constants and the carrier's guard g: a phi
// (`for done := false; !done; { …; done = g; carrier }`) or a local cell assigned several times. On this edge the
// condition equals pol; a constant alternative must therefore differ from pol (it cannot take the edge), every other
// alternative must be g itself, come in over an edge (after an assignment) behind which the carrier has run.
func (c *Ctx) impliesPut(fn *ssa.Function, pred, succ *ssa.BasicBlock, at ssa.Instruction, g ssa.Value, pol bool) bool {
	iff, ok := pred.Instrs[len(pred.Instrs)-1].(*ssa.If)
	if !ok || len(pred.Succs) != 2 || pred.Succs[0] == pred.Succs[1] {
		return false
	}
	cond, pos := stripNot(iff.Cond)
	if ((pred.Succs[0] == succ) == pos) != pol {
		return false
	}
	constOK := func(v ssa.Value) (isConst, fine bool) {
		if b, ok := constBool(v); ok {
			return true, b != pol
		}
		return false, false
	}
	switch x := cond.(type) {
	case *ssa.Phi:
		if !(x.Block() == pred || x.Block().Dominates(pred)) {
			return false
		}
		n := 0
		for k, e := range x.Edges {
			if isK, fine := constOK(e); isK {
				if !fine {
					return false
				}
				continue
			}
			in := x.Block().Preds[k]
			if !sameCond(e, g) || !(at.Block() == in || at.Block().Dominates(in)) {
				return false
			}
			n++
		}
		return n > 0
	case *ssa.UnOp:
		cell, ok := x.X.(*ssa.Alloc)
		if !ok || x.Op != token.MUL || cell.Parent() != fn {
			return false
		}
		stores, esc := cellStores(cell)
		if esc {
			return false
		}
		isLd := func(i ssa.Instruction) bool { return i == ssa.Instruction(x) }
		n := 0
		for _, st := range stores {
			if st.Parent() != fn {
				return false
			}
			// does this assignment reach the read (without another assignment in between)?
			other := func(i ssa.Instruction) bool {
				o, ok := i.(*ssa.Store)
				return ok && o.Addr == ssa.Value(cell) && o != st
			}
			if c.fc.pathFrom(fn, st, isLd, other, nil) == nil {
				continue
			}
			if isK, fine := constOK(st.Val); isK {
				if !fine {
					return false
				}
				continue
			}
			// every way from the assignment to the read passes the carrier
			if !sameCond(st.Val, g) || c.fc.pathFrom(fn, st, isLd, func(i ssa.Instruction) bool { return i == at || other(i) }, nil) != nil {
				return false
			}
			n++
		}
		return n > 0
	}
	return false
}

// overwritesParam: the callee stores into an element (or a field of an element) of its list parameter, or copies into
// it — directly on the parameter, a re-slice or a phi of it. (What the callee does with the list beyond that is seen
// when its own lists are analysed; this is the part that matters to the caller even if the callee stores nothing.)
func overwritesParam(f *ssa.Function, p ssa.Value) ssa.Instruction {
	var found ssa.Instruction
	seen := map[ssa.Value]bool{}
	var visit func(v ssa.Value)
	visit = func(v ssa.Value) {
		if seen[v] || found != nil {
			return
		}
		seen[v] = true
		refs := v.Referrers()
		if refs == nil {
			return
		}
		for _, r := range *refs {
			switch r := r.(type) {
			case *ssa.Phi, *ssa.Slice, *ssa.ChangeType:
				visit(r.(ssa.Value))
			case *ssa.IndexAddr:
				if irefs := r.Referrers(); irefs != nil {
					for _, u := range *irefs {
						switch u := u.(type) {
						case *ssa.Store:
							if u.Addr == ssa.Value(r) {
								found = u
							}
						case *ssa.FieldAddr:
							if frefs := u.Referrers(); frefs != nil {
								for _, w := range *frefs {
									if st, ok := w.(*ssa.Store); ok && st.Addr == ssa.Value(u) {
										found = st
									}
								}
							}
						}
					}
				}
			case *ssa.Call:
				if b, ok := r.Call.Value.(*ssa.Builtin); ok && b.Name() == "copy" && r.Call.Args[0] == v {
					found = r
				}
			}
		}
	}
	visit(p)
	return found
}
