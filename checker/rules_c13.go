package main

import (
	"fmt"
	"go/token"
	"go/types"
	"strings"

	"golang.org/x/tools/go/ssa"
)

func init() {
	register(&propDef{
		id:  "C13",
		run: runC13,
		explanation: "Decided (structural, for every batch and index): " +
			"C13.convmap — in the conversion package every field of a freshly built library/protobuf struct that is initialised from a field of a source struct takes it from the field of the same name (reviewed exceptions: Result.Count <-> Result.TotalCount), and every exported field of each destination type built in a function is initialised there; " +
			"C13.kindmap — the oneof switch of the expression conversion has a case for every oneof wrapper, each case returns the library node of the matching kind, operands are converted from the wrapper's own operand list and appended in order (a case that returns what a helper given the wrapper returns is judged on the helper's body); " +
			"C13.loop — in the gRPC handler each iteration over the request's queries appends exactly one element at the end of the response, that element is ToProtobufResult(Execute(ToQuery(current query)), id) — built in the loop or by a helper whose parameters are bound to the current query / range index / id at the call —, no path finishes an iteration without appending, and the response is returned only after the loop; the result converted may also come out of a helper that hands Execute's result on, or be the result remembered for an identical query of the same batch (a map that is filled only with Execute(ToQuery(current query)) under the key it is looked up with, the key being computed from the current query alone by a function that reads both its expression and its group-by list, its error not ignored on both sides, the value used only where the lookup found one); the queries may be converted ahead of the loop by a function of the handler's package (it must append exactly one entry per query, in order, to a list that starts empty, and return it without error only after its loop; the handler then loops over the entries, every field of the current entry stands for what that function stored in it for the current query, a result list by position is filled in every iteration at the current position with Execute(entry's query) or with the result at a position that is tested to lie before the current one and was remembered under the query's key, and a response is returned only where that function is known to have succeeded); the loop may also be left to a map helper of the handler's package that is given the request's queries and a function (the helper must read the current element at a counter that starts at 0, advances by one and runs up to len(list), call the function at exactly one place with that element, append the function's first result — one entry — to a list that starts empty on every path to the next iteration, and return that list without error only after its loop; the element/id clauses are then decided on every non-error return of the function, its parameters bound to the current query and the position the helper passes; the response's result list must be set at one place to the list collected, unchanged, on every path to a response, and a response is returned only where the helper's error is known to be nil); a response message copied from one position of the answered list to another is reported (refutation: a repeated query would carry the earlier one's id); " +
			"C13.id — the id is the query's Id (the field or its generated getter), replaced by int32(range index + 1) exactly on the branch where Id == 0; " +
			"C13.nopartial — every error return of the handler carries a nil response, and conversion/execution errors (also of nested operands, also when they arise in a per-query helper of the handler, whose error must then end the handler the same way; also when they arise in the function handed to a map helper: that helper may only call it, must return an error wherever the function's error is non-nil, and its own error must end the handler) are propagated; " +
			"C13.grpcpath — both statement types hand newRows the (converted) result and the bound query's group-by list. " +
			"NOT decided: equality of counts/groups with the library's answer (values; follows from the field mapping being a bijection, not checked further); losslessness of the protobuf wire encoding (trusted); that two queries with the same batch key (deterministic wire encoding of expression and group-by list) are the same query, and that executing the same query twice on the open index gives the same result (C03/C04).",
		assumptions: []string{"protobuf-go encodes/decodes messages losslessly", "grpc-go delivers the handler's response/error", "go/ssa, dominance"},
	})
}

func runC13(c *Ctx) {
	if !c.need("C13.loop", c.a.ServerQuery, c.a.ToQuery, c.a.ToExpr, c.a.ToPBResult, c.a.ToResult, c.a.Execute, c.a.NewRows) {
		return
	}
	c13Convmap(c)
	c13Kindmap(c)
	c13Loop(c)
	c13Grpcpath(c)
}

// srcField: v is (a conversion of) a load of a field of a source object; returns that field.
func srcField(v ssa.Value) *types.Var {
	v = peelConv(v)
	switch x := v.(type) {
	case *ssa.UnOp:
		if x.Op == token.MUL {
			if fa, ok := x.X.(*ssa.FieldAddr); ok {
				return fieldOf(fa.X.Type(), fa.Field)
			}
		}
	case *ssa.Field:
		return fieldOf(x.X.Type(), x.Field)
	}
	return nil
}

func c13Convmap(c *Ctx) {
	const rule = "C13.convmap"
	allowed := map[string]bool{"TotalCount<-Count": true, "Count<-TotalCount": true}
	fr := newFresh(c)
	for _, fn := range c.w.ModFuncs {
		if c.w.pkgPathOf(fn) != pkgConvert {
			continue
		}
		initialised := map[*types.Named]map[string]bool{}
		built := map[*types.Named]bool{}
		nStores := 0
		allInstrs(fn, func(i ssa.Instruction) {
			// struct values/pointers created here
			if al, ok := i.(*ssa.Alloc); ok {
				t := al.Type().Underlying().(*types.Pointer).Elem()
				if arr, ok := t.Underlying().(*types.Array); ok {
					t = arr.Elem()
				}
				if n := namedOf(t); n != nil && n.Obj().Pkg() != nil && (n.Obj().Pkg().Path() == pkgRoot || n.Obj().Pkg().Path() == pkgProto) {
					if _, isStruct := n.Underlying().(*types.Struct); isStruct {
						if _, isPtr := t.(*types.Pointer); !isPtr {
							// a local that receives a whole struct value (range variable, copy of a source element) is not built here
							copied := false
							for _, r := range referrers(al) {
								if st, ok := r.(*ssa.Store); ok && st.Addr == ssa.Value(al) {
									if _, isConst := st.Val.(*ssa.Const); !isConst {
										copied = true
									}
								}
							}
							if !copied {
								built[n] = true
							}
						}
					}
				}
			}
			// a value built through a constructor function of the library: its arguments are the field initialisers
			if cc, isCall := i.(*ssa.Call); isCall {
				if sm := nodeCtor(c, calleeFunc(&cc.Call)); sm != nil && sm.T.Obj().Pkg() != nil && (sm.T.Obj().Pkg().Path() == pkgRoot || sm.T.Obj().Pkg().Path() == pkgProto) {
					if initialised[sm.T] == nil {
						initialised[sm.T] = map[string]bool{}
					}
					for k, dst := range sm.fields {
						initialised[sm.T][dst.Name()] = true
						if k >= len(cc.Call.Args) {
							continue
						}
						src := srcField(cc.Call.Args[k])
						if src == nil {
							continue
						}
						nStores++
						key := fmt.Sprintf("%s: %s.%s", safeFname(fn), sm.T.Obj().Name(), dst.Name())
						c.r.check(dst.Name() == src.Name(), rule, key, "initialised (through "+safeFname(calleeFunc(&cc.Call))+") from the source's field "+src.Name(),
							"field "+dst.Name()+" of the converted value is initialised (through "+safeFname(calleeFunc(&cc.Call))+") from the source's field "+src.Name()+": columns/values/counts end up in the wrong place", c.w.ipos(i))
					}
				}
				return
			}
			st, ok := i.(*ssa.Store)
			if !ok {
				return
			}
			fa, ok := st.Addr.(*ssa.FieldAddr)
			if !ok || fr.level(fa.X) < shallow {
				return
			}
			owner := namedOf(fa.X.Type())
			if owner == nil || owner.Obj().Pkg() == nil || (owner.Obj().Pkg().Path() != pkgRoot && owner.Obj().Pkg().Path() != pkgProto) {
				return
			}
			dst := fieldOf(fa.X.Type(), fa.Field)
			if initialised[owner] == nil {
				initialised[owner] = map[string]bool{}
			}
			initialised[owner][dst.Name()] = true
			src := srcField(st.Val)
			if src == nil {
				return
			}
			nStores++
			key := fmt.Sprintf("%s: %s.%s", safeFname(fn), owner.Obj().Name(), dst.Name())
			pair := dst.Name() + "<-" + src.Name()
			ok2 := dst.Name() == src.Name() || (allowed[pair] && strings.HasSuffix(owner.Obj().Name(), "Result"))
			c.r.check(ok2, rule, key, "initialised from the source's field "+src.Name(),
				"field "+dst.Name()+" of the converted value is initialised from the source's field "+src.Name()+": columns/values/counts end up in the wrong place", c.w.ipos(i))
		})
		// coverage of destination fields
		for n := range built {
			st := n.Underlying().(*types.Struct)
			var missing []string
			for k := 0; k < st.NumFields(); k++ {
				f := st.Field(k)
				if !f.Exported() {
					continue
				}
				if !initialised[n][f.Name()] {
					missing = append(missing, f.Name())
				}
			}
			key := fmt.Sprintf("%s: %s fields", safeFname(fn), n.Obj().Name())
			if len(missing) > 0 {
				c.r.bad(rule, key, "exported field(s) "+strings.Join(missing, ", ")+" of the converted "+n.Obj().Name()+" are never set: that part of the result/query is lost in conversion", []string{c.w.pos(fn.Pos())})
			} else {
				c.r.ok(rule, key, "all exported fields are set", c.w.pos(fn.Pos()))
			}
		}
	}
	c.r.expect(rule, 12)
}

func c13Kindmap(c *Ctx) {
	const rule = "C13.kindmap"
	fn := c.a.ToExpr
	// oneof wrapper types: implementers of the interface type of Query_Expression.Value
	qe := c.w.namedType(pkgProto, "Query_Expression")
	vf := structFieldNamed(qe, "Value")
	if vf == nil {
		c.r.undecided(rule, "<anchor>", "Query_Expression.Value not found")
		return
	}
	iface, _ := vf.Type().(*types.Named)
	if iface == nil {
		c.r.undecided(rule, "<anchor>", "oneof interface not found")
		return
	}
	wrappers := c.w.implementers(pkgProto, iface)
	seen := map[*types.Named]bool{}
	allInstrs(fn, func(i ssa.Instruction) {
		ta, ok := i.(*ssa.TypeAssert)
		if !ok || !ta.CommaOk {
			return
		}
		w := namedOf(ta.AssertedType)
		if w == nil {
			return
		}
		isW := false
		for _, x := range wrappers {
			if x == w {
				isW = true
			}
		}
		if !isW {
			return
		}
		seen[w] = true
		// expected node kind: "Expr" + suffix of the wrapper's member type (Query_Expression_Equal -> ExprEqual)
		st := w.Underlying().(*types.Struct)
		member := namedOf(st.Field(0).Type())
		want := "Expr" + strings.TrimPrefix(member.Obj().Name(), "Query_Expression_")
		okv := extractOf(ta, 1)
		val := extractOf(ta, 0)
		key := fmt.Sprintf("%s: case %s", safeFname(fn), w.Obj().Name())
		// the case: the instructions of the switch function where this type assertion is known to have succeeded, or —
		// where the case hands its wrapper to a helper and returns what that returns — the body of the helper
		res := c13KindCase(c, fn, fn,
			func(j ssa.Instruction) bool { return okv != nil && knownTrue(okv, j) },
			func(x ssa.Value) bool { return val != nil && derivesFrom(x, val) },
			want, w.Obj().Name(), 0)
		site := c.w.ipos(i)
		sites := []string{site}
		if res.site != "" && res.site != site {
			sites = append(sites, res.site)
		}
		if res.nRet == 0 {
			c.r.bad(rule, key, "no successful return in this case of the oneof switch", sites)
			return
		}
		if res.bad != "" {
			c.r.bad(rule, key, "wrong node kind: "+res.bad, sites)
			return
		}
		isLeaf := strings.HasSuffix(want, "Equal")
		if !isLeaf && res.nOps == 0 {
			res.okOps, res.why = false, "operator node without converted operands"
		}
		if res.okOps {
			c.r.ok(rule, key, fmt.Sprintf("-> %s, %d operand conversion site(s) stored into the node", want, res.nOps), site)
		} else {
			c.r.bad(rule, key, res.why, sites)
		}
	})
	for _, w := range wrappers {
		if !seen[w] {
			c.r.bad(rule, safeFname(fn)+": case "+w.Obj().Name(), "the oneof switch has no case for this wrapper: such expressions cannot be converted", []string{c.w.pos(fn.Pos())})
		}
	}
	c.r.min[rule] = len(wrappers)
}

// kindCase is what c13KindCase found in one case of the oneof switch.
type kindCase struct {
	nRet  int    // successful returns (followed into the helpers the case delegates to)
	nOps  int    // operand conversion sites
	bad   string // a return that does not yield a new node of the expected kind
	okOps bool   // every operand conversion converts one of this wrapper's operands and its result goes into the node
	why   string
	site  string // where, if that is in a helper
}

// c13KindCase evaluates one case of the oneof switch of the expression conversion te. The case consists of the
// instructions of f selected by in (for te itself: those dominated by the successful type assertion; for a helper the
// case delegates to: all of them); fromVal recognises values taken from the case's wrapper (the asserted value, or the
// helper's parameter bound to it). A return that hands on both results of a call to a module helper that is given the
// wrapper (`return notToExpr(v)`), or a successful return of such a helper's value, is successful exactly where the helper
// returns successfully, so the helper's body is judged in its place — same expected node kind, same operand rules.
func c13KindCase(c *Ctx, te, f *ssa.Function, in func(ssa.Instruction) bool, fromVal func(ssa.Value) bool, want, wname string, depth int) kindCase {
	res := kindCase{okOps: true}
	var node *ssa.Alloc
	// the node may also be built by a constructor function of the library (rules_r8.go): the operands must then be
	// arguments of that call which the constructor stores into the node
	var ctorCall *ssa.Call
	var ctorS *ctorSum
	delegated := map[*ssa.Call]bool{}
	// follow: the case returns what helper call dc yields
	follow := func(dc *ssa.Call, at ssa.Instruction) {
		h := calleeFunc(&dc.Call)
		switch {
		case h == te:
			res.bad, res.site = "returns the conversion of another expression instead of a new "+want+" for a "+wname, c.w.ipos(at)
			return
		case depth >= 2:
			res.bad, res.site = "the node is built too deep in helpers for the rule to follow", c.w.ipos(at)
			return
		}
		var pars []ssa.Value
		for k, a := range dc.Call.Args {
			if k < len(h.Params) && fromVal(a) {
				pars = append(pars, h.Params[k])
			}
		}
		if len(pars) == 0 {
			res.bad, res.site = "delegates to "+safeFname(h)+" without handing it this case's wrapper", c.w.ipos(at)
			return
		}
		sub := c13KindCase(c, te, h, func(ssa.Instruction) bool { return true }, func(x ssa.Value) bool {
			for _, p := range pars {
				if derivesFrom(x, p) {
					return true
				}
			}
			return false
		}, want, wname, depth+1)
		res.nRet += sub.nRet - 1 // the delegating return itself was counted by the caller
		if sub.nRet == 0 {
			res.bad, res.site = safeFname(h)+", which this case delegates to, never returns successfully", c.w.pos(h.Pos())
		}
		res.nOps += sub.nOps
		if sub.bad != "" && res.bad == "" {
			res.bad, res.site = sub.bad, sub.site
		}
		if !sub.okOps && res.okOps {
			res.okOps, res.why, res.site = false, sub.why, sub.site
		}
	}
	// helperCall: v is result #idx of a call to a module helper with a body
	helperCall := func(v ssa.Value, idx int) *ssa.Call {
		e, ok := v.(*ssa.Extract)
		if !ok || e.Index != idx {
			return nil
		}
		dc, ok := e.Tuple.(*ssa.Call)
		if !ok {
			return nil
		}
		h := calleeFunc(&dc.Call)
		if h == nil || !c.w.inModule(h) || h.Blocks == nil {
			return nil
		}
		return dc
	}
	allInstrs(f, func(j ssa.Instruction) {
		ret, isRet := j.(*ssa.Return)
		if !isRet || isRecoverBlockReturn(ret) || len(ret.Results) != 2 || !in(j) {
			return
		}
		rv := retVals(ret)
		if dc := helperCall(rv[0], 0); dc != nil && (helperCall(rv[1], 1) == dc || isSuccessReturn(j)) {
			// `return h(v)`, or `return e, nil` with e the helper's value (its error having been dealt with: C13.nopartial)
			res.nRet++
			delegated[dc] = true
			follow(dc, j)
			return
		}
		if !isSuccessReturn(j) {
			return
		}
		res.nRet++
		mi, isMI := rv[0].(*ssa.MakeInterface)
		if !isMI {
			res.bad, res.site = "returns something other than a new node", c.w.ipos(j)
			return
		}
		al, _ := peel(mi.X).(*ssa.Alloc)
		if al == nil {
			if cc, isCall := peel(mi.X).(*ssa.Call); isCall {
				if sm := nodeCtor(c, calleeFunc(&cc.Call)); sm != nil {
					ctorCall, ctorS = cc, sm
				}
			}
		}
		got := namedOf(mi.X.Type())
		if got == nil || got.Obj().Name() != want {
			g := "?"
			if got != nil {
				g = got.Obj().Name()
			}
			res.bad, res.site = "returns a "+g+" for a "+wname+" (expected "+want+")", c.w.ipos(j)
		}
		node = al
	})
	if res.nRet == 0 || res.bad != "" {
		return res
	}
	fail := func(why string, at ssa.Instruction) {
		if res.okOps {
			res.okOps, res.why = false, why
			if f != te {
				res.site = c.w.ipos(at)
			}
		}
	}
	// operands: every toExpr call in this case converts an operand reached from this wrapper value, and its result is stored into the node
	allInstrs(f, func(j ssa.Instruction) {
		call, ok := j.(*ssa.Call)
		if !ok || calleeFunc(&call.Call) != te || !in(call) || delegated[call] {
			return
		}
		res.nOps++
		if !fromVal(call.Call.Args[0]) {
			fail("operand is not taken from this case's own wrapper", call)
		}
		r0 := extractOf(call, 0)
		stored := false
		if r0 != nil {
			for _, u := range usesOf(r0) {
				switch x := u.(type) {
				case *ssa.Call:
					if x == ctorCall && ctorArgField(ctorCall, ctorS, r0) != nil {
						stored = true // Not(expr)
					}
				case *ssa.Store:
					if ctorArgField(ctorCall, ctorS, r0) != nil {
						stored = true // And(a, b): element of the variadic array of the constructor call
					}
					// direct: node.Expr = res ; or element of the variadic array of an append
					if fa, ok := x.Addr.(*ssa.FieldAddr); ok && node != nil && peel(fa.X) == ssa.Value(node) {
						stored = true
					}
					if ia, ok := x.Addr.(*ssa.IndexAddr); ok {
						// varargs array -> slice -> append(load node.Exprs, …) -> store node.Exprs
						for _, r1 := range referrers(ia.X) {
							sl, ok := r1.(*ssa.Slice)
							if !ok {
								continue
							}
							for _, r2 := range referrers(sl) {
								ac, ok := r2.(*ssa.Call)
								if !ok {
									continue
								}
								if b, ok := ac.Call.Value.(*ssa.Builtin); !ok || b.Name() != "append" || ac.Call.Args[1] != ssa.Value(sl) {
									continue
								}
								base := path(ac.Call.Args[0])
								for _, r3 := range referrers(ac) {
									if st, ok := r3.(*ssa.Store); ok {
										dp := path(st.Addr)
										if dp.lastField() != nil && dp.lastField() == base.lastField() && node != nil && peel(dp.Root) == ssa.Value(node) {
											stored = true
										}
									}
								}
							}
						}
					}
				}
			}
		}
		if !stored {
			fail("a converted operand is not stored (appended in order) into the node that is returned", call)
		}
	})
	// operands converted by a helper: h(v.X.Exprs) whose result is stored into the node
	allInstrs(f, func(j ssa.Instruction) {
		call, ok := j.(*ssa.Call)
		if !ok || !in(call) || delegated[call] {
			return
		}
		h := calleeFunc(&call.Call)
		if h == nil || h == te || c.w.pkgPathOf(h) != pkgConvert || h.Blocks == nil {
			return
		}
		fromV := false
		for _, a := range call.Call.Args {
			if fromVal(a) {
				fromV = true
			}
		}
		if !fromV {
			return
		}
		r0 := extractOf(call, 0)
		if r0 == nil {
			return
		}
		res.nOps++
		isToExpr := func(ec *ssa.Call) (ssa.Value, bool) {
			if calleeFunc(&ec.Call) != te || len(ec.Call.Args) != 1 {
				return nil, false
			}
			return ec.Call.Args[0], true
		}
		if ok, w := elementLoop(c, f, r0, fromVal, isToExpr, 0); !ok {
			fail("the helper that converts the operands does not convert every operand in order: "+w, call)
			return
		}
		stored := false
		for _, u := range usesOf(r0) {
			if st, ok := u.(*ssa.Store); ok {
				if fa, ok := st.Addr.(*ssa.FieldAddr); ok && node != nil && peel(fa.X) == ssa.Value(node) {
					stored = true
				}
			}
			if cc, ok := u.(*ssa.Call); ok && cc == ctorCall && ctorArgField(ctorCall, ctorS, r0) != nil {
				stored = true // And(exprs...)
			}
		}
		if !stored {
			fail("the converted operands are not stored into the node that is returned", call)
		}
	})
	return res
}

func c13Loop(c *Ctx) {
	fn := c.a.ServerQuery
	name := safeFname(fn)
	site := c.w.pos(fn.Pos())
	var req ssa.Value
	for _, p := range fn.Params {
		if typeIs(p.Type(), pkgProto, "QueryRequest") {
			req = p
		}
	}
	if req == nil {
		c.r.undecided("C13.loop", name, "request parameter not found", site)
		return
	}
	// element loads of req.Queries
	var elems []*ssa.UnOp
	allInstrs(fn, func(i ssa.Instruction) {
		u, ok := i.(*ssa.UnOp)
		if !ok || u.Op != token.MUL {
			return
		}
		ia, ok := u.X.(*ssa.IndexAddr)
		if !ok {
			return
		}
		p := path(ia.X)
		if f := p.lastField(); f != nil && f.Name() == "Queries" && p.Root == req {
			elems = append(elems, u)
		}
	})
	if len(elems) > 1 {
		// the request's queries may also be read elsewhere (by a validated id, say): the current query is the one
		// read at a loop counter
		var atCounter []*ssa.UnOp
		for _, u := range elems {
			if b, _ := lin(u.X.(*ssa.IndexAddr).Index); b != nil {
				if _, isCtr := phiLower(b); isCtr {
					atCounter = append(atCounter, u)
				}
			}
		}
		if len(atCounter) == 1 {
			elems = atCounter
		}
	}
	c13SharedMessage(c, fn, name)
	if len(elems) == 0 && c13Mapped(c, fn, req, name, site) {
		// the loop is left to a map helper of the handler's package, its body is the function handed to the helper
		// (rules_ag44.go)
		return
	}
	if len(elems) == 0 && c13TwoPhase(c, fn, req, name, site) {
		// the queries are converted by a function of the handler's package before the loop; the loop runs over what it
		// returns (rules_ag31.go)
		return
	}
	if len(elems) != 1 {
		c.r.undecided("C13.loop", name, fmt.Sprintf("expected one load of the current query from req.Queries, found %d", len(elems)), site)
		return
	}
	c13LoopBody(c, fn, name, site, elems[0], func(idx, elem ssa.Value) queryElem {
		// provenance chain and id, followed into a per-query helper of the handler's package if there is one
		return c13Element(c, &qctx{f: fn, cur: elems[0], idx: idx}, elem)
	})
}

// c13LoopBody: the obligations about the handler's loop, given the load of the loop's current element (pbq: the current
// query of the request, or the current entry of the prepared batch) and a judge of the element that is appended.
func c13LoopBody(c *Ctx, fn *ssa.Function, name, site string, pbq *ssa.UnOp, judge func(idx, elem ssa.Value) queryElem) {
	idx := pbq.X.(*ssa.IndexAddr).Index
	idxIns, isIns := idx.(ssa.Instruction)
	if !isIns {
		c.r.bad("C13.loop", name, "the only query read from the request is at a fixed position, not the element the loop is at: the other queries are never answered", []string{c.w.ipos(pbq)})
		return
	}
	header := idxIns.Block() // block computing the loop index
	if b, ok := idx.(*ssa.BinOp); ok {
		if phi, ok := b.X.(*ssa.Phi); ok {
			header = phi.Block()
		}
	}
	ap, elem, ok := c13AppendSite(c, fn, name, site, pbq)
	if !ok {
		return
	}
	el := judge(idx, elem)
	c.r.check(el.chainOK, "C13.loop", name+": element", "appended element = ToProtobufResult(Execute(ToQuery(current query)), id)", "the element appended for a query is not that query's own converted result: "+el.why, c.w.ipos(ap))
	// every iteration appends: no path from the element load back to the loop header avoiding the append
	hdrFirst := header.Instrs[0]
	if p := c.fc.pathAvoiding(fn, pbq, func(i ssa.Instruction) bool { return i == hdrFirst }, func(i ssa.Instruction) bool { return i == ssa.Instruction(ap) }); p != nil {
		c.r.bad("C13.loop", name+": every query answered", "an iteration can finish without appending a result: the response would have fewer results than the request has queries (and later results shift position)", []string{c.w.ipos(p[len(p)-1])}, c.fc.witnessStrings(p)...)
	} else {
		c.r.ok("C13.loop", name+": every query answered", "no path through the loop body reaches the next iteration without the append", c.w.ipos(ap))
	}
	// the response is returned only after the loop
	if p := c.fc.pathAvoiding(fn, pbq, isSuccessReturn, func(i ssa.Instruction) bool { return i == hdrFirst }); p != nil {
		c.r.bad("C13.loop", name+": return after loop", "a successful response can be returned from inside the loop, before all queries were answered", []string{c.w.ipos(p[len(p)-1])}, c.fc.witnessStrings(p)...)
	} else {
		c.r.ok("C13.loop", name+": return after loop", "the response is returned only once the loop is done", site)
	}
	// ---- id
	c.r.check(el.idOK, "C13.id", name, "id = query.Id, or int32(range index + 1) on the Id == 0 branch", el.idWhy, c.w.ipos(ap))
	c13Nopartial(c, fn, name)
}

// c13Nopartial: every error return of the handler carries a nil response, and conversion/execution errors end the request.
func c13Nopartial(c *Ctx, fn *ssa.Function, name string) {
	n := 0
	allInstrs(fn, func(i ssa.Instruction) {
		if !isErrorReturn(i) {
			return
		}
		n++
		c.r.check(isNilConst(retVals(i.(*ssa.Return))[0]), "C13.nopartial", fmt.Sprintf("%s: error return#%d", name, n), "nil response with the error",
			"an error is returned together with a (partial) response", c.w.ipos(i))
	})
	k := 0
	// conversions and execution: ToQuery, toExpr, Execute, and any other error-returning function of the conversion package
	isSrc := func(callee *ssa.Function) bool {
		isConv := c.w.pkgPathOf(callee) == pkgConvert && callee.Signature.Results().Len() == 2 && isErrorType(callee.Signature.Results().At(1).Type())
		return callee == c.a.ToQuery || callee == c.a.ToExpr || callee == c.a.Execute || isConv
	}
	// in the handler's code (the handler and the helpers of its package it calls): the error ends the request
	hscope, sites := handlerErrSites(c, fn, isSrc)
	for _, s := range sites {
		k++
		out := errEndsRequest(c, fn, hscope, s.f, s.call, 0)
		key := fmt.Sprintf("%s: %s#%d", safeFname(s.f), safeFname(s.callee), k)
		if out.ok {
			c.r.ok("C13.nopartial", key, out.msg, c.w.ipos(s.call))
		} else {
			c.r.bad("C13.nopartial", key, "an invalid (sub)query does not make the call fail: "+out.msg, []string{c.w.ipos(out.site)}, c.fc.witnessStrings(out.witness)...)
		}
	}
	// in the conversion package: the error is propagated to the caller
	for _, f := range c.w.ModFuncs {
		if c.w.pkgPathOf(f) != pkgConvert {
			continue
		}
		allInstrs(f, func(i ssa.Instruction) {
			call, ok := i.(*ssa.Call)
			if !ok {
				return
			}
			callee := calleeFunc(&call.Call)
			if callee == nil || !isSrc(callee) {
				return
			}
			k++
			out := c.fc.errPropagated(f, call, resultValue(call, 1))
			key := fmt.Sprintf("%s: %s#%d", safeFname(f), safeFname(callee), k)
			if out.ok {
				c.r.ok("C13.nopartial", key, out.msg, c.w.ipos(call))
			} else {
				c.r.bad("C13.nopartial", key, "an invalid (sub)query does not make the call fail: "+out.msg, []string{c.w.ipos(out.site)}, c.fc.witnessStrings(out.witness)...)
			}
		})
	}
	c.r.expect("C13.nopartial", 6)
}

// c13AppendSite finds the one place where the handler extends the response's result list and the element appended
// there (pbq is the load of the current element of the loop). It reports what is wrong if there is no such place.
func c13AppendSite(c *Ctx, fn *ssa.Function, name, site string, pbq ssa.Instruction) (*ssa.Store, ssa.Value, bool) {
	// stores appending to the response's result list
	var appends []*ssa.Store
	allInstrs(fn, func(i ssa.Instruction) {
		st, ok := i.(*ssa.Store)
		if !ok {
			return
		}
		dp := path(st.Addr)
		if f := dp.lastField(); f == nil || f.Name() != "Results" || !typeIs(dp.Root.Type(), pkgProto, "QueryResponse") {
			return
		}
		// `resp := &QueryResponse{Results: make([]*Result, 0, n)}`: an empty list stored before the first query is looked
		// at is the list's initial value, not an answer. (Inside the loop, or after it, the same store would drop the
		// results appended so far; it is then counted as a second site.)
		if c13EmptyList(st.Val) && !c.fc.reachableFrom(fn, pbq, st) {
			return
		}
		appends = append(appends, st)
	})
	if len(appends) != 1 {
		c.r.check(false, "C13.loop", name+": append", "", fmt.Sprintf("the handler stores into the response's result list at %d sites; exactly one append per query is expected", len(appends)), site)
		return nil, nil, false
	}
	ap := appends[0]
	ac, _ := ap.Val.(*ssa.Call)
	okShape := false
	var elem ssa.Value
	if ac != nil {
		if b, ok := ac.Call.Value.(*ssa.Builtin); ok && b.Name() == "append" && len(ac.Call.Args) == 2 {
			base := path(ac.Call.Args[0])
			if base.lastField() != nil && base.lastField().Name() == "Results" {
				if sl, ok := ac.Call.Args[1].(*ssa.Slice); ok {
					if al, ok := sl.X.(*ssa.Alloc); ok {
						if arr, ok := al.Type().Underlying().(*types.Pointer).Elem().Underlying().(*types.Array); ok && arr.Len() == 1 {
							for _, r := range referrers(al) {
								if ia, ok := r.(*ssa.IndexAddr); ok {
									for _, rr := range referrers(ia) {
										if s2, ok := rr.(*ssa.Store); ok {
											elem = s2.Val
											okShape = true
										}
									}
								}
							}
						}
					}
				}
			}
		}
	}
	if !okShape {
		c.r.bad("C13.loop", name+": append", "the response's result list is not extended by appending exactly one element at its end", []string{c.w.ipos(ap)})
		return nil, nil, false
	}
	return ap, elem, true
}

// cmpsAtEnd: comparisons known when control passes from pred to succ.
func cmpsAtEnd(pred, succ *ssa.BasicBlock) []cmp { return cmpsOnEdge(pred, succ) }

func c13Grpcpath(c *Ctx) {
	const rule = "C13.grpcpath"
	// a result value is acceptable if it is Execute's result (file path) or ToResult(response) (gRPC path), directly
	// or through an executing method/interface of the driver that returns such a value
	var okResult func(v ssa.Value, depth int) bool
	okResult = func(v ssa.Value, depth int) bool {
		if depth > 2 {
			return false
		}
		switch r := v.(type) {
		case *ssa.Extract:
			if r.Index != 0 {
				return false
			}
			ex, ok := r.Tuple.(*ssa.Call)
			if !ok {
				return false
			}
			if calleeFunc(&ex.Call) == c.a.Execute {
				return true
			}
			// a call (static or through a module interface) whose implementations all return an acceptable result
			var impls []*ssa.Function
			if f := calleeFunc(&ex.Call); f != nil {
				impls = []*ssa.Function{f}
			} else if n := c.w.CG.Nodes[ex.Parent()]; n != nil {
				for _, e := range n.Out {
					if e.Site == ssa.CallInstruction(ex) {
						impls = append(impls, e.Callee.Func)
					}
				}
			}
			if len(impls) == 0 {
				return false
			}
			for _, f := range impls {
				if f == nil || !c.w.inModule(f) || f.Blocks == nil {
					return false
				}
				n, good := 0, true
				allInstrs(f, func(i ssa.Instruction) {
					ret, isRet := i.(*ssa.Return)
					if !isRet || isRecoverBlockReturn(ret) || len(ret.Results) == 0 {
						return
					}
					rv := retVals(ret)[0]
					if isNilConst(rv) {
						return // error returns
					}
					n++
					if !okResult(rv, depth+1) {
						good = false
					}
				})
				if n == 0 || !good {
					return false
				}
			}
			return true
		case *ssa.Call:
			return calleeFunc(&r.Call) == c.a.ToResult
		}
		return false
	}
	for k, anchor := range []*ssa.Function{c.a.FileStmtQuery, c.a.GrpcStmtQuery} {
		if anchor == nil {
			c.r.undecided(rule, []string{"file statement", "grpc statement"}[k], "the statement's query function was not found (neither by its shape nor by its name)")
			continue
		}
		name := safeFname(anchor)
		n := 0
		for _, fn := range c.scope(anchor, 2, c.a.ReplacePH, c.a.NumInput, c.a.NewRows) {
			// the bound query: the result of ReplacePlaceholders, directly or as the (non-nil) result of a binding helper
			var isBound func(v ssa.Value, depth int) bool
			isBound = func(v ssa.Value, depth int) bool {
				v = peel(v)
				if call, ok := v.(*ssa.Call); ok && calleeFunc(&call.Call) == c.a.ReplacePH {
					return true
				}
				if depth > 1 {
					return false
				}
				if _, _, vals, ok := resultOrigins(c.w, v); ok {
					n := 0
					for _, rv := range vals {
						if isNilConst(rv) {
							continue
						}
						n++
						if !isBound(rv, depth+1) {
							return false
						}
					}
					return n > 0
				}
				return false
			}
			allInstrs(fn, func(i ssa.Instruction) {
				call, ok := i.(*ssa.Call)
				if !ok || calleeFunc(&call.Call) != c.a.NewRows {
					return
				}
				n++
				gp := path(call.Call.Args[1])
				okG := gp.lastField() != nil && gp.lastField().Name() == "GroupBy" && isBound(gp.Root, 0)
				okR := okResult(call.Call.Args[0], 0)
				c.r.check(okG && okR, rule, name, "newRows(result, bound query's GroupBy)", "the rows are not built from this statement's (converted) result and the bound query's group-by list", c.w.ipos(i))
			})
		}
		if n == 0 {
			c.r.bad(rule, name, "the statement does not build rows with newRows", []string{c.w.pos(anchor.Pos())})
		}
	}
}

// c13IDValue: v is `query.Id` where that is non-zero and `int32(range index + 1)` exactly where it is zero. v may be a
// phi, or the result of a module helper that computes the same from the query and the index (parameters are bound at the call).
// idx is the value the positional id is measured against (the range index in the handler, the bound parameter in a helper)
// and idxOff the offset already accumulated between the handler's range index and idx.
func c13IDValue(c *Ctx, v ssa.Value, isQuery func(ssa.Value) bool, idx ssa.Value, idxOff int64, depth int) (bool, string) {
	type cand struct {
		val   ssa.Value
		facts []cmp
	}
	var cands []cand
	switch x := v.(type) {
	case *ssa.Phi:
		for k, e := range x.Edges {
			cands = append(cands, cand{e, cmpsOnEdge(x.Block().Preds[k], x.Block())})
		}
	case *ssa.Call:
		call, callee, _, ok := resultOrigins(c.w, x)
		if !ok || depth > 1 {
			return false, "the id passed on is computed by something the rule does not follow"
		}
		// bind parameters
		var qPar, iPar ssa.Value
		var iOff int64
		for k, a := range call.Call.Args {
			if k >= len(callee.Params) {
				continue
			}
			if isQuery(a) || func() bool { l, ok := a.(*ssa.UnOp); return ok && isQuery(l.X) }() || isQuery(peel(a)) {
				qPar = callee.Params[k]
			}
			ab, ao := lin(a)
			ib, io := lin(idx)
			if ab == ib {
				iPar = callee.Params[k]
				iOff = idxOff + ao - io
			}
		}
		// the query itself is passed (not something derived from it): accept the argument being the query value
		for k, a := range call.Call.Args {
			if k < len(callee.Params) && qPar == nil && typeIs(a.Type(), pkgProto, "Query") {
				qPar = callee.Params[k]
			}
		}
		if qPar == nil || iPar == nil {
			return false, "the helper computing the id is not given the current query and the range index"
		}
		okAll, why := true, ""
		allInstrs(callee, func(i ssa.Instruction) {
			ret, isRet := i.(*ssa.Return)
			if !isRet || len(ret.Results) != 1 || !okAll {
				return
			}
			rv := retVals(ret)[0]
			if phi, isPhi := rv.(*ssa.Phi); isPhi {
				okAll, why = c13IDValue(c, phi, func(y ssa.Value) bool { return derivesFrom(y, qPar) }, iPar, iOff, depth+1)
				return
			}
			ok1, w := c13IDCand(c, rv, cmpsAt(ret), func(y ssa.Value) bool { return derivesFrom(y, qPar) }, iPar, iOff)
			if !ok1 {
				okAll, why = false, w
			}
		})
		return okAll, why
	default:
		// a plain value: must be the query's id under no condition — then the zero case is not handled
		return false, "the id passed on is not `query.Id, or range index + 1 when Id is 0`"
	}
	for _, cd := range cands {
		if ok, why := c13IDCand(c, cd.val, cd.facts, isQuery, idx, idxOff); !ok {
			return false, why
		}
	}
	return len(cands) > 0, "the id passed on is not `query.Id, or range index + 1 when Id is 0`"
}

// c13IDCand judges one candidate value with the comparisons known where it is produced.
func c13IDCand(c *Ctx, v ssa.Value, facts []cmp, isQuery func(ssa.Value) bool, idx ssa.Value, idxOff int64) (bool, string) {
	idFact := func(op token.Token) bool {
		for _, cm := range facts {
			if cm.Y == nil || cm.Op != op {
				continue
			}
			x, y := cm.X, cm.Y
			if _, isK := constInt(x); isK {
				x, y = y, x
			}
			if k, isK := constInt(y); isK && k == 0 {
				if base, f := fieldRead(c, x); f != nil && f.Name() == "Id" && isQuery(base) {
					return true
				}
			}
		}
		return false
	}
	// the query's id: the field itself, or the generated getter (which yields 0 for a nil query; the conversion rejects
	// such a query)
	if base, f := fieldRead(c, v); f != nil && f.Name() == "Id" && isQuery(base) {
		if idFact(token.NEQ) {
			return true, ""
		}
		return false, "the query's own id is used also when it is 0"
	}
	b, off := lin(v)
	ib, io := lin(idx)
	if b == ib {
		if off-io+idxOff != 1 {
			return false, fmt.Sprintf("the positional id is range index %+d, expected range index + 1 (1-based position)", off-io+idxOff)
		}
		if idFact(token.EQL) {
			return true, ""
		}
		return false, "the positional id is not chosen exactly when Id == 0"
	}
	return false, "the id passed on is not `query.Id, or range index + 1 when Id is 0`"
}
