package main

import (
	"go/token"
	"go/types"

	"golang.org/x/tools/go/ssa"
)

// Obligation transfer for C19.txrelease (rules_c19.go txReleaseRule).
//
// The duty "after the writer was created, its release method runs on every path" need not be met in the function that
// calls the constructor: a set-up helper may hand the duty to its caller as a function value
// (`openIndexWriter(cfg) (iw, release func(), err error)`), which the caller defers. txHand decides that shape:
//
//   - inside the helper, every return that can be reached after the creation without a release must be a *success* return
//     whose k-th result is a function value that runs the release on every path (funcReleases); the helper's failure
//     returns after the creation are therefore still obliged to release themselves;
//   - every caller of the helper must then call or defer that k-th result on every path after the helper succeeded
//     (the same path search as for the constructor, with the helper's error result in the place of the constructor's),
//     or hand it on in the same way.
//
// A function value runs the release when it is a closure (or module function) whose body passes a release call, or a
// call of another releasing function value, on every path to its return; or when it runs every element of a
// slice-of-functions variable (a loop over all indices, or a bound method that is such a loop over its receiver:
// `cleanups.run`) to which a releasing closure was appended on every path between the creation and the point where the
// function value is made, and that variable only ever grows (runnerReleases).
//
// Shapes not recognised keep the alarm of the function that calls the constructor.
type txHand struct {
	c       *Ctx
	release []*ssa.Function
	handed  map[ssa.Value]bool    // results of helper calls that are releasing function values handed to this caller
	memo    map[*ssa.Function]int // bodyReleases: 1 in progress, 2 yes, 3 no
}

// txSite: the creation (or the helper call that stands for it) whose duty is followed inside fn; cut says which CFG
// edges are taken only when that creation failed.
type txSite struct {
	fn   *ssa.Function
	from ssa.Instruction
	cut  func(pred, succ *ssa.BasicBlock) bool
}

func newTxHand(c *Ctx, release []*ssa.Function) *txHand {
	return &txHand{c: c, release: release, handed: map[ssa.Value]bool{}, memo: map[*ssa.Function]int{}}
}

func isPlainReturn(x ssa.Instruction) bool {
	r, ok := x.(*ssa.Return)
	return ok && !isRecoverBlockReturn(r)
}

// failedEdge: the CFG edges on which errv (the error result of a call) is known to be non-nil.
func failedEdge(errv ssa.Value) func(pred, succ *ssa.BasicBlock) bool {
	return func(pred, succ *ssa.BasicBlock) bool {
		iff, ok := pred.Instrs[len(pred.Instrs)-1].(*ssa.If)
		if !ok || errv == nil {
			return false
		}
		for _, cm := range trueCmps(fact{iff.Cond, pred.Succs[0] == succ}) {
			// holdsErr: also when err is a named result that a deferred closure captures (`*err = errv; t = *err; if t != nil`)
			if cm.Op == token.NEQ && cm.Y != nil && holdsErr(cm.X, errv) && isNilConst(cm.Y) {
				return true
			}
		}
		return false
	}
}

// relInstr: the call or defer i runs the release (a `defer` counts where it is registered, as in txReleaseRule).
func (t *txHand) relInstr(i ssa.Instruction, site *txSite) bool {
	cc := callCommon(i)
	if cc == nil || cc.IsInvoke() {
		return false
	}
	if _, isGo := i.(*ssa.Go); isGo {
		return false
	}
	if _, isBuiltin := cc.Value.(*ssa.Builtin); isBuiltin {
		return false
	}
	return t.funcReleases(cc.Value, site, i)
}

// funcReleases: calling the function value v runs the release on every path on which the call returns. at is the
// instruction that uses v (the call, or the return that hands it out); site may be nil (then only closures whose own
// body releases are recognised).
func (t *txHand) funcReleases(v ssa.Value, site *txSite, at ssa.Instruction) bool {
	if v == nil {
		return false
	}
	if t.handed[v] {
		return true
	}
	v = peel(v)
	if t.handed[v] {
		return true
	}
	switch x := v.(type) {
	case *ssa.Function:
		for _, r := range t.release {
			if x == r {
				return true
			}
		}
		return t.bodyReleases(x)
	case *ssa.MakeClosure:
		fn, _ := x.Fn.(*ssa.Function)
		if fn == nil {
			return false
		}
		if t.bodyReleases(fn) {
			return true
		}
		return t.runnerReleases(x, fn, site, at)
	}
	return false
}

// bodyReleases: fn contains a releasing call, and no path from its entry to a return avoids all of them.
func (t *txHand) bodyReleases(fn *ssa.Function) bool {
	if len(fn.Blocks) == 0 || !t.c.w.inModule(fn) {
		return false
	}
	switch t.memo[fn] {
	case 1, 3:
		return false
	case 2:
		return true
	}
	t.memo[fn] = 1
	rel := func(i ssa.Instruction) bool { return t.relInstr(i, nil) }
	any := false
	allInstrs(fn, func(i ssa.Instruction) {
		if !any && rel(i) {
			any = true
		}
	})
	// the release has to come first: a database closed before it waits for the pending transaction for ever (a deferred
	// release only runs at the end)
	relNow := func(i ssa.Instruction) bool {
		_, deferred := i.(*ssa.Defer)
		return !deferred && rel(i)
	}
	ok := any && t.c.fc.pathFrom(fn, nil, isPlainReturn, rel, nil) == nil &&
		t.c.fc.pathFrom(fn, nil, func(i ssa.Instruction) bool { return !relNow(i) && t.closesDB(i) }, relNow, nil) == nil
	if ok {
		t.memo[fn] = 2
	} else {
		t.memo[fn] = 3
	}
	return ok
}

// closesDB: the call i closes (or may close: an unknown function value) a bbolt database before it returns.
func (t *txHand) closesDB(i ssa.Instruction) bool {
	call, ok := i.(*ssa.Call)
	if !ok || call.Call.IsInvoke() {
		return false
	}
	isClose := func(x ssa.Instruction) bool { return isCallTo(x, "(*go.etcd.io/bbolt.DB).Close") }
	if isClose(i) {
		return true
	}
	var f *ssa.Function
	switch x := peel(call.Call.Value).(type) {
	case *ssa.Builtin:
		return false
	case *ssa.Function:
		f = x
	case *ssa.MakeClosure:
		f, _ = x.Fn.(*ssa.Function)
	}
	if f == nil {
		return true
	}
	return t.c.w.inModule(f) && t.c.fc.mayContain(f, isClose, 3)
}

// ---------- a slice of cleanup functions ----------

// runnerReleases: the closure mc (of fn) runs every element of a slice-of-functions variable of site.fn, a releasing
// closure is appended to that variable on every path from the creation to the point where the elements are fixed (the
// load of the slice bound as the receiver of a method value; the use of a closure that reads the variable itself), and
// the variable is never assigned anything but an append to itself.
func (t *txHand) runnerReleases(mc *ssa.MakeClosure, fn *ssa.Function, site *txSite, at ssa.Instruction) bool {
	if site == nil || mc.Parent() != site.fn || at == nil || at.Parent() != site.fn {
		return false
	}
	for k, fv := range fn.FreeVars {
		if k >= len(mc.Bindings) {
			break
		}
		b := mc.Bindings[k]
		var cell *ssa.Alloc
		var fixed ssa.Instruction // the elements the runner sees are those present here
		var runner *ssa.Function
		var isSlice func(v ssa.Value) bool
		if isFuncSlice(fv.Type()) {
			// a method value `cleanups.run` with a value receiver: the wrapper passes the bound slice to the method
			ld, ok := b.(*ssa.UnOp)
			if !ok || ld.Op != token.MUL {
				continue
			}
			cell, _ = ld.X.(*ssa.Alloc)
			fixed = ld
			m, par := boundCallee(fn, fv)
			if m == nil {
				continue
			}
			runner = m
			isSlice = func(v ssa.Value) bool { return v == ssa.Value(par) }
		} else if p, ok := fv.Type().(*types.Pointer); ok && isFuncSlice(p.Elem()) {
			// a closure that reads the captured variable when it runs; or a method value with a pointer receiver, where
			// the method reads it through its receiver
			cell, _ = b.(*ssa.Alloc)
			fixed = at
			runner = fn
			var ptr ssa.Value = fv
			if fn.Synthetic != "" {
				m, par := boundCallee(fn, fv)
				if m == nil {
					continue
				}
				runner, ptr = m, par
			}
			isSlice = func(v ssa.Value) bool {
				ld, ok := v.(*ssa.UnOp)
				return ok && ld.Op == token.MUL && ld.X == ptr
			}
		}
		if cell == nil || runner == nil || !runsAll(t.c.fc, runner, isSlice) || !growOnly(t.c, cell, 0) {
			continue
		}
		add := func(i ssa.Instruction) bool { return t.releasingAdd(i, cell, site) }
		isFixed := func(i ssa.Instruction) bool { return i == fixed }
		if t.c.fc.pathFrom(site.fn, site.from, isFixed, add, site.cut) != nil || !t.c.fc.reachableFrom(site.fn, site.from, fixed) {
			continue
		}
		// the runner goes from the last element to the first (runsAll), so the release runs before the cleanups
		// registered before it (closing the databases); nothing else may be registered after it
		otherAdd := func(i ssa.Instruction) bool {
			switch x := i.(type) {
			case *ssa.Store:
				return x.Addr == ssa.Value(cell) && !add(i)
			case *ssa.Call:
				for _, a := range x.Call.Args {
					if a == ssa.Value(cell) {
						return !add(i)
					}
				}
			}
			return false
		}
		last := true
		allInstrs(site.fn, func(i ssa.Instruction) {
			if last && add(i) && t.c.fc.pathFrom(site.fn, i, func(j ssa.Instruction) bool { return otherAdd(j) && !isFixed(j) }, isFixed, nil) != nil {
				last = false
			}
		})
		if last {
			return true
		}
	}
	return false
}

func isFuncSlice(t types.Type) bool {
	s, ok := t.Underlying().(*types.Slice)
	if !ok {
		return false
	}
	sig, ok := s.Elem().Underlying().(*types.Signature)
	return ok && sig.Params().Len() == 0 && sig.Results().Len() == 0
}

// boundCallee: wrapper is the synthetic closure of a method value; returns the method and the parameter of it that
// receives the bound free variable fv.
func boundCallee(wrapper *ssa.Function, fv *ssa.FreeVar) (*ssa.Function, *ssa.Parameter) {
	var m *ssa.Function
	var par *ssa.Parameter
	n := 0
	allInstrs(wrapper, func(i ssa.Instruction) {
		cc := callCommon(i)
		if cc == nil {
			return
		}
		n++
		f := calleeFunc(cc)
		if f == nil || len(f.Blocks) == 0 {
			return
		}
		for k, a := range cc.Args {
			if a == ssa.Value(fv) && k < len(f.Params) {
				m, par = f, f.Params[k]
			}
		}
	})
	if n != 1 || wrapper.Synthetic == "" {
		return nil, nil
	}
	return m, par
}

// appendTo: v is `append(base, elems...)` with base a load of addr; returns the values appended (the elements of the
// varargs array), or nil.
func appendTo(v ssa.Value, addr ssa.Value) []ssa.Value {
	call, ok := v.(*ssa.Call)
	if !ok {
		return nil
	}
	if _, ok := appendCallOf(call); !ok || len(call.Call.Args) != 2 {
		return nil
	}
	ld, ok := call.Call.Args[0].(*ssa.UnOp)
	if !ok || ld.Op != token.MUL || ld.X != addr {
		return nil
	}
	sl, ok := call.Call.Args[1].(*ssa.Slice)
	if !ok || sl.Low != nil || sl.High != nil {
		return nil
	}
	arr, ok := sl.X.(*ssa.Alloc)
	if !ok {
		return nil
	}
	var out []ssa.Value
	for _, r := range referrers(arr) {
		switch r := r.(type) {
		case *ssa.IndexAddr:
			for _, u := range referrers(r) {
				st, ok := u.(*ssa.Store)
				if !ok || st.Addr != ssa.Value(r) {
					return nil
				}
				out = append(out, st.Val)
			}
		case *ssa.Slice:
		default:
			return nil
		}
	}
	return out
}

// growOnly: the slice variable at addr (a local cell, a captured cell, or a pointer parameter that receives its
// address) is only loaded, captured, passed on to functions for which the same holds, or assigned an append to itself.
func growOnly(c *Ctx, addr ssa.Value, depth int) bool {
	if depth > 3 {
		return false
	}
	for _, r := range referrers(addr) {
		switch r := r.(type) {
		case *ssa.UnOp, *ssa.DebugRef:
		case *ssa.Store:
			if r.Addr != addr || appendTo(r.Val, addr) == nil {
				return false
			}
		case *ssa.MakeClosure:
			fn, _ := r.Fn.(*ssa.Function)
			if fn == nil {
				return false
			}
			for k, b := range r.Bindings {
				if b == addr && (k >= len(fn.FreeVars) || !growOnly(c, fn.FreeVars[k], depth+1)) {
					return false
				}
			}
		case *ssa.Call:
			f := calleeFunc(&r.Call)
			if f == nil || len(f.Blocks) == 0 || !c.w.inModule(f) {
				return false
			}
			for k, a := range r.Call.Args {
				if a == addr && (k >= len(f.Params) || !growOnly(c, f.Params[k], depth+1)) {
					return false
				}
			}
		default:
			return false
		}
	}
	return true
}

// releasingAdd: i appends a releasing function to the slice variable cell: `cell = append(cell, f)`, or a call
// `push(&cell, f)` of a function that stores append(*p, f) to *p on every path.
func (t *txHand) releasingAdd(i ssa.Instruction, cell *ssa.Alloc, site *txSite) bool {
	switch x := i.(type) {
	case *ssa.Store:
		if x.Addr != ssa.Value(cell) {
			return false
		}
		for _, e := range appendTo(x.Val, cell) {
			if t.funcReleases(e, site, i) {
				return true
			}
		}
	case *ssa.Call:
		f := calleeFunc(&x.Call)
		if f == nil || len(f.Blocks) == 0 {
			return false
		}
		for k, a := range x.Call.Args {
			if a != ssa.Value(cell) || k >= len(f.Params) {
				continue
			}
			p := f.Params[k]
			for j, e := range x.Call.Args {
				if j == k || j >= len(f.Params) || !t.funcReleases(e, site, i) {
					continue
				}
				q := f.Params[j]
				pushes := func(s ssa.Instruction) bool {
					st, ok := s.(*ssa.Store)
					if !ok || st.Addr != ssa.Value(p) {
						return false
					}
					for _, el := range appendTo(st.Val, p) {
						if el == ssa.Value(q) {
							return true
						}
					}
					return false
				}
				if t.c.fc.pathFrom(f, nil, isPlainReturn, pushes, nil) == nil && t.c.fc.canReturn(f) {
					return true
				}
			}
		}
	}
	return false
}

// runsAll: on every path to its return, g walks a slice (a value satisfying isSlice) over all of its indices and runs
// the element in every iteration, so that the elements run last one first, like deferred calls: back to front calling
// them, or front to back deferring them.
func runsAll(fc *flowCtx, g *ssa.Function, isSlice func(v ssa.Value) bool) bool {
	for _, b := range g.Blocks {
		for _, ins := range b.Instrs {
			cc := callCommon(ins)
			if cc == nil || cc.IsInvoke() {
				continue
			}
			if _, isGo := ins.(*ssa.Go); isGo {
				continue
			}
			ld, ok := cc.Value.(*ssa.UnOp)
			if !ok || ld.Op != token.MUL {
				continue
			}
			ia, ok := ld.X.(*ssa.IndexAddr)
			if !ok || !isSlice(ia.X) {
				continue
			}
			if fullWalk(fc, g, ins, ia.Index, isSlice) {
				return true
			}
		}
	}
	return false
}

// fullWalk: idx is the induction variable of a loop `for idx := 0; idx < len(s); idx++` (the shape of `range s` too) or
// `for idx := len(s)-1; idx >= 0; idx--`, the loop is entered on every path through g, x runs in every iteration and
// the loop is left through its condition only.
func fullWalk(fc *flowCtx, g *ssa.Function, x ssa.Instruction, idx ssa.Value, isSlice func(v ssa.Value) bool) bool {
	phi, step := inductionOf(idx)
	if phi == nil || (step != 1 && step != -1) {
		return false
	}
	if _, deferred := x.(*ssa.Defer); deferred != (step == 1) {
		return false // first one first: the release, registered last, would run after the databases were closed
	}
	_, off := lin(idx) // idx = phi + off
	var loop *loopInfo
	for _, l := range loopsOf(g) {
		if l.header == phi.Block() {
			loop = l
		}
	}
	if loop == nil || !loop.blocks[x.Block()] {
		return false
	}
	isLen := func(v ssa.Value) bool {
		call, ok := v.(*ssa.Call)
		if !ok {
			return false
		}
		bi, ok := call.Call.Value.(*ssa.Builtin)
		return ok && bi.Name() == "len" && len(call.Call.Args) == 1 && isSlice(call.Call.Args[0])
	}
	// first index
	for k, e := range phi.Edges {
		if loop.blocks[phi.Block().Preds[k]] {
			continue
		}
		eb, eo := lin(e)
		first := eo + off
		if step == 1 {
			if k0, isK := constInt(eb); !isK || k0+first != 0 {
				return false
			}
		} else if !isLen(eb) || first != -1 {
			return false
		}
	}
	// the condition: the one `if` of the loop with an edge leaving it
	var cond *ssa.If
	var body *ssa.BasicBlock
	for b := range loop.blocks {
		for k, s := range b.Succs {
			if loop.blocks[s] {
				continue
			}
			iff, ok := b.Instrs[len(b.Instrs)-1].(*ssa.If)
			if !ok || (cond != nil && cond != iff) || len(b.Succs) != 2 || !loop.blocks[b.Succs[1-k]] {
				return false
			}
			cond, body = iff, b.Succs[1-k]
			okCond := false
			for _, cm := range trueCmps(fact{iff.Cond, k == 1}) { // what holds when the loop goes on
				if cm.Y == nil {
					continue
				}
				xb, xo := lin(cm.X)
				yb, yo := lin(cm.Y)
				if xb != ssa.Value(phi) {
					continue
				}
				// phi+xo OP y  with the element index phi+off
				if step == 1 && isLen(yb) && ((cm.Op == token.LSS && xo-yo == off) || (cm.Op == token.LEQ && xo-yo == off+1)) {
					okCond = true
				}
				if kk, isK := constInt(yb); step == -1 && isK && ((cm.Op == token.GEQ && kk+yo-xo == -off) || (cm.Op == token.GTR && kk+yo-xo == -off-1)) {
					okCond = true
				}
			}
			if !okCond {
				return false
			}
		}
	}
	if cond == nil || body == nil || len(body.Instrs) == 0 {
		return false
	}
	isCond := func(i ssa.Instruction) bool { return i == ssa.Instruction(cond) }
	isX := func(i ssa.Instruction) bool { return i == x }
	// the loop is reached on every path through g
	if fc.pathFrom(g, nil, isPlainReturn, isCond, nil) != nil {
		return false
	}
	// every iteration runs x before it tests the condition again
	first := body.Instrs[0]
	if !isX(first) && fc.pathFrom(g, first, func(i ssa.Instruction) bool { return isCond(i) || isPlainReturn(i) }, isX, nil) != nil {
		return false
	}
	return true
}

// ---------- the duty inside one function, and its transfer to the callers ----------

// unreleased returns a witness path on which the duty of site is neither met in site.fn nor handed to callers that
// meet it; nil if the duty is met. note says where a handed-over release function was not run.
func (t *txHand) unreleased(site *txSite, depth int) (witness []ssa.Instruction, note string) {
	fn := site.fn
	rel := func(i ssa.Instruction) bool { return t.relInstr(i, site) }
	p := t.c.fc.pathFrom(fn, site.from, isPlainReturn, rel, site.cut)
	if p == nil {
		return nil, ""
	}
	if depth > 2 {
		return p, ""
	}
	res := fn.Signature.Results()
	for k := 0; k < res.Len(); k++ {
		if _, isFunc := res.At(k).Type().Underlying().(*types.Signature); !isFunc {
			continue
		}
		k := k
		handsOver := func(i ssa.Instruction) bool {
			ret, ok := i.(*ssa.Return)
			return ok && isSuccessReturn(ret) && k < len(ret.Results) && t.funcReleases(retVals(ret)[k], site, ret)
		}
		notHanded := func(i ssa.Instruction) bool { return isPlainReturn(i) && !handsOver(i) }
		if t.c.fc.pathFrom(fn, site.from, notHanded, rel, site.cut) != nil {
			continue
		}
		// the duty leaves fn with its k-th result: every use of fn must be a plain call whose caller takes the duty
		calls, ok := plainCallsOf(t.c, fn)
		if !ok || len(calls) == 0 {
			return p, ""
		}
		for _, call := range calls {
			hv := resultValue(call, k)
			if hv == nil {
				return []ssa.Instruction{call}, " (the release function handed back by " + safeFname(fn) + " is discarded)"
			}
			t.handed[hv] = true
			errv := resultValue(call, res.Len()-1)
			if !isErrorType(res.At(res.Len() - 1).Type()) {
				errv = nil
			}
			if w, _ := t.unreleased(&txSite{call.Parent(), call, failedEdge(errv)}, depth+1); w != nil {
				return w, " (the release function handed back by " + safeFname(fn) + " is not run on every path of " + safeFname(call.Parent()) + ")"
			}
		}
		return nil, ""
	}
	return p, ""
}

// plainCallsOf: the calls of fn in the module; ok is false if fn is also used in any other way (as a value, by go or
// defer), where the handed-over result cannot be followed.
func plainCallsOf(c *Ctx, fn *ssa.Function) (calls []*ssa.Call, ok bool) {
	ok = true
	for _, g := range c.w.ModFuncs {
		allInstrs(g, func(i ssa.Instruction) {
			for _, op := range i.Operands(nil) {
				if op == nil || *op != ssa.Value(fn) {
					continue
				}
				call, isCall := i.(*ssa.Call)
				if isCall && call.Call.Value == ssa.Value(fn) {
					uses := 0
					for _, a := range call.Call.Args {
						if a == ssa.Value(fn) {
							uses++
						}
					}
					if uses == 0 {
						calls = append(calls, call)
						return
					}
				}
				ok = false
			}
		})
	}
	return calls, ok
}
