#!/bin/sh
# mkvariants.sh — builds the renamed variants of /repo used to test that updogcheck does not depend on unexported names.
#   usage: mkvariants.sh [SRC [OUTDIR]]      (default SRC=/repo, OUTDIR=/tmp/ck/ag10/variants)
# produces OUTDIR/{a,b,c,abc} and, when SRC=/repo, /tmp/ck/ag10/benign_renames_{a,b,c,abc}.diff
# Every rename is type-checked (rename/main.go) and every variant must build, vet and pass the unedited-in-spirit test
# suite (the tests are renamed along with the code).
set -e
export GOFLAGS=-mod=mod GOPROXY=off GOSUMDB=off GOTOOLCHAIN=local GOWORK=off
AG=/tmp/ck/ag10
SRC=${1:-/repo}
OUT=${2:-$AG/variants}
R=$AG/rename/rename
M=github.com/akrennmair/updog

. $AG/renames.sh

mk() { # name, functions...
	n=$1; shift
	rm -rf "$OUT/$n"; mkdir -p "$OUT/$n"
	rsync -a --exclude .git "$SRC/" "$OUT/$n/"
	for v in "$@"; do variant_$v "$OUT/$n" >/dev/null; done
	(cd "$OUT/$n" && test -z "$(gofmt -l . | grep -v '^proto/')" || (cd "$OUT/$n" && gofmt -w $(gofmt -l . | grep -v '^proto/')))
	(cd "$OUT/$n" && go build ./... && go vet ./... >/dev/null 2>&1 || { echo "variant $n does not build/vet"; exit 1; })
}

if [ "$3" = "only-abc" ]; then
	mk abc a b c
	exit 0
fi
mk a a
mk b b
mk c c
mk abc a b c
mk abcde e a b c d
mk p p
if [ "$SRC" = /repo ]; then
	for n in a b c abc abcde p; do
		(cd "$OUT" && rm -rf _orig && mkdir _orig && rsync -a --exclude .git /repo/ _orig/ && (diff -ruN _orig $n > $AG/benign_renames_$n.diff || true) && rm -rf _orig)
		echo "variant $n: $(grep -c '^[-+][^-+]' $AG/benign_renames_$n.diff) changed lines"
	done
fi
