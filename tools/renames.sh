# renames.sh — the scripted renames (sourced by mkvariants.sh and mutants_renamed.py). Needs $R (rename tool) and $M (module path).
AG=${AG:-/tmp/ck/ag10}
R=${R:-$AG/rename/rename}
M=${M:-github.com/akrennmair/updog}
export GOFLAGS=-mod=mod GOPROXY=off GOSUMDB=off GOTOOLCHAIN=local GOWORK=off

# (a) every unexported function, method, type, package-level variable and constant of package updog
MAP_A="getValueIndex=hashPair,schema=catalog,add=register,column=attr,keyPrefixValue=bitmapPrefix,keySchema=catalogKey,keyNextRowID=counterKey"
MAP_A="$MAP_A,colGetter=bitmapSource,preloadedColGetter=ramSource,onDemandColGetter=diskSource,newPreloadedColGetter=loadAll,newOnDemandColGetter=lazySource"
MAP_A="$MAP_A,lruCacheItem=slot,resultGroup=partialGroup,groupBy=grouping,groupByValue=groupingValue,eval=compute,cacheKey=fingerprint"
MAP_A="$MAP_A,resolveGroupBy=bindGroups,groupByResult=splitGroups,combineCacheKeys=mixKeys,nullCache=noCache,getValueBitmap=bitmapFor,optimize=compact"
variant_a() { $R -dir "$1" -pkgs $M -kinds func,method,type,var,const -map "$MAP_A" -prefix x; }

# (b) every unexported struct field of packages updog and driver
MAP_B="nextRowID=rowTotal,curSize=used,maxSize=limit,key=id,size=nbytes,result=hits,cols=names,fields=fvals,count=tally,refs=users,filename=path,tempTx=scratchTx"
MAP_B="$MAP_B,entries=byKey,lruList=order,bm=bits,values=bmaps,schema=cat,idx=handle,fileConnMtx=guard,fileConnCache=open"
variant_b() { $R -dir "$1" -pkgs $M,$M/driver -kinds field -map "$MAP_B" -prefix f; }

# (c) every unexported identifier of driver, internal/convert and cmd/updog: package level, fields, methods, AND locals/parameters
MAP_C="toExpr=exprOf,openFile=attachFile,openConn=dial,updogDriver=drv,newUpdogDriver=makeDrv,fileConn=localConn,fileStmt=localStmt,grpcStmt=remoteStmt,grpcConn=remoteConn"
MAP_C="$MAP_C,query=run,prepare=compile,numInput=placeholderCount,rows=resultSet,newRows=makeResultSet,row=tuple,fileCacheKey=connKey"
MAP_C="$MAP_C,createCmd=runCreate,normalizeHeader=cleanHeader,server=svc,serverCmd=runServer,schemaCmd=runSchema,clientCmd=runClient,driverCmd=runDriver,indexWriter=sink"
variant_c() { $R -dir "$1" -pkgs $M/driver,$M/internal/convert,$M/cmd/updog -kinds func,method,type,var,const,field,local -map "$MAP_C" -prefix z; }


# ---- extra variants (beyond the three required ones) ----
# (d) every unexported identifier of internal/queryparser (the domain of rules_ag5.go), locals included
variant_d() { $R -dir "$1" -pkgs $M/internal/queryparser -kinds func,method,type,var,const,field,local -prefix q; }

# (e) the EXPORTED members of UNEXPORTED types of package updog that rules used to look up by name: the fields of the
# group-by working types and the getter interface's method (schema.Columns / column.Values are the gob format and stay)
variant_e() { $R -dir "$1" -pkgs $M -kinds xfield,xmethod -only-mapped -map "GetCol=Fetch,Idx=Slot,Value=Text,Values=Members,Column=Attr" \
	-owners groupBy,groupByValue,grouping,groupingValue,colGetter,preloadedColGetter,onDemandColGetter,bitmapSource,ramSource,diskSource; }

# (p) prefix-only: every unexported identifier of every hand-written package, no mapping table, locals included
variant_p() { $R -dir "$1" -pkgs $M,$M/driver,$M/internal/convert,$M/internal/queryparser,$M/internal/openfile,$M/cmd/updog -kinds func,method,type,var,const,field,local -prefix y; }
