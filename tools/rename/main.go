// rename — scripted, type-checked renaming of unexported identifiers of a Go module tree (test aid for updogcheck).
//
//	rename -dir TREE -pkgs p1,p2 -kinds func,method,type,var,const,field[,local] [-map old=new,old2=new2] [-prefix x]
//
// Every object declared in one of the listed packages whose name is unexported and whose kind is selected is renamed
// consistently at its declaration and at all its uses (found through go/types Defs/Uses, test files included). The new
// name is map[old] when given, otherwise prefix+old. The mapping is keyed by the bare name, so interface methods and
// their implementations stay in step. Embedded fields follow the name of their type. main, init and _ are never touched.
// The tool refuses to introduce a name that already occurs as an identifier in an affected package.
package main

import (
	"flag"
	"fmt"
	"go/ast"
	"go/token"
	"go/types"
	"os"
	"sort"
	"strings"

	"golang.org/x/tools/go/packages"
)

type edit struct {
	off, end int
	text     string
}

func main() {
	dir := flag.String("dir", "", "tree to rewrite in place")
	pkgsF := flag.String("pkgs", "", "comma separated package paths whose objects are renamed")
	kindsF := flag.String("kinds", "func,method,type,var,const,field", "object kinds to rename")
	mapF := flag.String("map", "", "comma separated old=new pairs")
	prefix := flag.String("prefix", "x", "prefix for names without a mapping")
	onlyMapped := flag.Bool("only-mapped", false, "rename only the names listed in -map")
	ownersF := flag.String("owners", "", "kinds xfield/xmethod (EXPORTED fields/methods of UNEXPORTED types, only names listed in -map): comma separated owner type names")
	flag.Parse()

	sel := map[string]bool{}
	for _, p := range strings.Split(*pkgsF, ",") {
		if p != "" {
			sel[p] = true
		}
	}
	kinds := map[string]bool{}
	for _, k := range strings.Split(*kindsF, ",") {
		kinds[k] = true
	}
	owners := map[string]bool{}
	for _, o := range strings.Split(*ownersF, ",") {
		if o != "" {
			owners[o] = true
		}
	}
	// ownerName: the named type that declares a field / is the receiver of a method
	ownerName := func(o types.Object) string {
		switch x := o.(type) {
		case *types.Func:
			if sig, ok := x.Type().(*types.Signature); ok && sig.Recv() != nil {
				t := sig.Recv().Type()
				if p, ok := t.(*types.Pointer); ok {
					t = p.Elem()
				}
				if n, ok := t.(*types.Named); ok {
					return n.Obj().Name()
				}
			}
		case *types.Var:
			sc := x.Pkg().Scope()
			for _, name := range sc.Names() {
				if tn, ok := sc.Lookup(name).(*types.TypeName); ok {
					if st, ok := tn.Type().Underlying().(*types.Struct); ok {
						for i := 0; i < st.NumFields(); i++ {
							if st.Field(i) == x {
								return name
							}
						}
					}
				}
			}
		}
		return ""
	}
	mapping := map[string]string{}
	for _, kv := range strings.Split(*mapF, ",") {
		if kv == "" {
			continue
		}
		p := strings.SplitN(kv, "=", 2)
		if len(p) != 2 {
			fatal("bad -map entry %q", kv)
		}
		mapping[p[0]] = p[1]
	}

	env := append(os.Environ(), "GOFLAGS=-mod=mod", "GOPROXY=off", "GOSUMDB=off", "GOTOOLCHAIN=local", "GOWORK=off")
	cfg := &packages.Config{Mode: packages.LoadSyntax, Dir: *dir, Env: env, Tests: true}
	pkgs, err := packages.Load(cfg, "./...")
	if err != nil {
		fatal("load: %v", err)
	}
	for _, p := range pkgs {
		for _, e := range p.Errors {
			fatal("package error: %v", e)
		}
	}

	kindOf := func(o types.Object) string {
		switch x := o.(type) {
		case *types.Func:
			if sig, ok := x.Type().(*types.Signature); ok && sig.Recv() != nil {
				return "method"
			}
			if x.Parent() == x.Pkg().Scope() {
				return "func"
			}
			return "local"
		case *types.TypeName:
			if x.Parent() == x.Pkg().Scope() {
				return "type"
			}
			return "local"
		case *types.Var:
			if x.IsField() {
				return "field"
			}
			if x.Parent() == x.Pkg().Scope() {
				return "var"
			}
			return "local"
		case *types.Const:
			if x.Parent() == x.Pkg().Scope() {
				return "const"
			}
			return "local"
		}
		return ""
	}
	var newName func(o types.Object) (string, bool)
	newName = func(o types.Object) (string, bool) {
		if o == nil || o.Pkg() == nil || !sel[o.Pkg().Path()] {
			return "", false
		}
		if o.Exported() {
			// exported members of unexported types: only on request, only listed names, only of the listed owner types
			k := kindOf(o)
			if (k == "field" && kinds["xfield"] || k == "method" && kinds["xmethod"]) && owners[ownerName(o)] {
				if m, ok := mapping[o.Name()]; ok {
					return m, true
				}
			}
			return "", false
		}
		n := o.Name()
		if n == "_" || n == "main" || n == "init" || n == "" {
			return "", false
		}
		k := kindOf(o)
		if v, ok := o.(*types.Var); ok && v.Embedded() {
			// an embedded field is called like its type: it is renamed exactly when the type is
			t := v.Type()
			if p, ok := t.(*types.Pointer); ok {
				t = p.Elem()
			}
			if nt, ok := t.(*types.Named); ok {
				return newName(nt.Obj())
			}
			return "", false
		}
		if k == "" || !kinds[k] {
			return "", false
		}
		if k != "local" {
			if m, ok := mapping[n]; ok {
				return m, true
			}
		}
		if *onlyMapped {
			return "", false
		}
		return *prefix + n, true
	}

	edits := map[string]map[int]edit{}
	identsIn := map[string]map[string]bool{} // package path -> identifiers occurring (before renaming)
	introduced := map[string]map[string]string{}
	add := func(fset *token.FileSet, id *ast.Ident, nn string) {
		pos := fset.Position(id.Pos())
		if edits[pos.Filename] == nil {
			edits[pos.Filename] = map[int]edit{}
		}
		edits[pos.Filename][pos.Offset] = edit{pos.Offset, pos.Offset + len(id.Name), nn}
	}
	for _, p := range pkgs {
		path := p.PkgPath
		if i := strings.Index(path, " ["); i >= 0 {
			path = path[:i]
		}
		path = strings.TrimSuffix(path, "_test")
		if identsIn[path] == nil {
			identsIn[path] = map[string]bool{}
			introduced[path] = map[string]string{}
		}
		for _, f := range p.Syntax {
			ast.Inspect(f, func(n ast.Node) bool {
				if id, ok := n.(*ast.Ident); ok {
					identsIn[path][id.Name] = true
				}
				return true
			})
		}
		handle := func(id *ast.Ident, o types.Object) {
			if nn, ok := newName(o); ok {
				add(p.Fset, id, nn)
				introduced[path][nn] = id.Name
			}
		}
		for id, o := range p.TypesInfo.Defs {
			if o != nil {
				handle(id, o)
			}
		}
		for id, o := range p.TypesInfo.Uses {
			handle(id, o)
		}
		if kinds["local"] && sel[path] {
			// the symbolic variable of a type switch has no object of its own (one implicit object per clause)
			for _, f := range p.Syntax {
				ast.Inspect(f, func(n ast.Node) bool {
					ts, ok := n.(*ast.TypeSwitchStmt)
					if !ok {
						return true
					}
					if as, ok := ts.Assign.(*ast.AssignStmt); ok && len(as.Lhs) == 1 {
						if id, ok := as.Lhs[0].(*ast.Ident); ok && id.Name != "_" && !ast.IsExported(id.Name) {
							add(p.Fset, id, *prefix+id.Name)
						}
					}
					return true
				})
			}
		}
	}
	for path, in := range introduced {
		for nn, old := range in {
			if identsIn[path][nn] {
				fatal("package %s: new name %q (for %q) already occurs as an identifier", path, nn, old)
			}
		}
	}

	var files []string
	for f := range edits {
		files = append(files, f)
	}
	sort.Strings(files)
	total := 0
	for _, f := range files {
		src, err := os.ReadFile(f)
		if err != nil {
			fatal("%v", err)
		}
		var es []edit
		for _, e := range edits[f] {
			es = append(es, e)
		}
		sort.Slice(es, func(i, j int) bool { return es[i].off > es[j].off })
		for _, e := range es {
			src = append(src[:e.off], append([]byte(e.text), src[e.end:]...)...)
		}
		if err := os.WriteFile(f, src, 0644); err != nil {
			fatal("%v", err)
		}
		total += len(es)
	}
	fmt.Printf("renamed %d identifier occurrences in %d files\n", total, len(files))
}

func fatal(f string, a ...interface{}) {
	fmt.Fprintf(os.Stderr, "rename: "+f+"\n", a...)
	os.Exit(1)
}
