#!/usr/bin/env python3
"""Mutants on the renamed tree: every hand-written mutant of /verif/checker/mutants/*.json is applied to a scratch copy of
/repo, then the SAME scripted renames as in mkvariants.sh (a)+(b)+(c) are applied to the mutated tree (the rename tool is
type-driven, so the mutant's own text is pushed through the renames exactly like the rest of the file; a mutant whose text
no longer applies to /repo, that does not type-check, or whose new identifiers collide with a new name is skipped), and
the checker must still report the mutant through the rule it names.

  usage: mutants_renamed.py [--id substr] [--prop Cnn] [-j N] [--sample N] [--keep]
Verdicts: KILLED       an alarm of the named rule whose construct matches `expect` (identifiers mapped through the renames)
          KILLED-RULE  an alarm of the named rule (rule part of `expect`), construct differs only by renamed identifiers
          WRONGRULE / SURVIVED / CHECKERROR   as in mutants/run.py
          SKIP-*       not applicable (see above)
"""
import json, os, subprocess, sys, tempfile, shutil, glob, argparse, re
from concurrent.futures import ThreadPoolExecutor

AG = "/tmp/ck/ag10"
VERIF = "/verif"
ENV = dict(os.environ, GOFLAGS="-mod=mod", GOPROXY="off", GOSUMDB="off", GOTOOLCHAIN="local", GOWORK="off", AG=AG)
CHECK = os.environ.get("UPDOGCHECK", AG + "/updogcheck")

def idmap():
    """old->new identifier map of the three rename tables (for translating the construct in `expect`)."""
    m = {}
    for line in open(AG + "/renames.sh"):
        mm = re.match(r'MAP_[ABC]="(?:\$MAP_[ABC],)?(.*)"', line.strip())
        if mm:
            for kv in mm.group(1).split(","):
                if "=" in kv:
                    k, v = kv.split("=")
                    m.setdefault(k, v)
    return m

IDMAP = idmap()

def translate(s):
    return re.sub(r"[A-Za-z_][A-Za-z_0-9]*", lambda t: IDMAP.get(t.group(0), t.group(0)), s)

def load():
    out = []
    for f in sorted(glob.glob(VERIF + "/checker/mutants/*.json")):
        out += json.load(open(f))
    return out

def run_one(m, keep):
    tmp = tempfile.mkdtemp(prefix="updog-mutren.")
    try:
        subprocess.run(["rsync", "-a", "--exclude", ".git", "/repo/", tmp + "/"], check=True)
        for e in m["edits"]:
            p = os.path.join(tmp, e["file"])
            s = open(p).read()
            if s.count(e["old"]) != 1:
                return (m, "SKIP-TEXT", "pattern occurs %d times in %s" % (s.count(e["old"]), e["file"]))
            open(p, "w").write(s.replace(e["old"], e["new"]))
        r = subprocess.run(["sh", "-c", ". %s/renames.sh; variant_a %s && variant_b %s && variant_c %s" % (AG, tmp, tmp, tmp)],
                           env=ENV, capture_output=True, text=True)
        if r.returncode != 0:
            kind = "SKIP-NOBUILD" if "package error" in r.stderr else "SKIP-RENAME"
            return (m, kind, r.stderr.strip()[-300:])
        c = subprocess.run([CHECK, "-repo", tmp, "-verif", VERIF, "-prop", m["prop"], "-no-evidence"], capture_output=True, text=True)
        hits = [l for l in c.stdout.splitlines() if (l.startswith("  violated") or l.startswith("  undecided"))]
        rule = m["expect"].split("[")[0]
        if c.returncode == 1 and any(m["expect"] in l or translate(m["expect"]) in l for l in hits):
            return (m, "KILLED", "")
        if c.returncode == 1 and any(re.search(r"^  (violated|undecided) " + re.escape(rule) + r"(\[|\b)", l) for l in hits):
            return (m, "KILLED-RULE", "\n".join(l for l in hits if rule in l)[:300])
        if c.returncode == 1:
            return (m, "WRONGRULE", "\n".join(hits)[:600])
        if c.returncode != 0:
            return (m, "CHECKERROR", (c.stdout + c.stderr)[-600:])
        return (m, "SURVIVED", "")
    finally:
        if keep:
            print("kept", tmp, m["id"])
        else:
            shutil.rmtree(tmp, ignore_errors=True)

def main():
    ap = argparse.ArgumentParser()
    ap.add_argument("--prop")
    ap.add_argument("--id")
    ap.add_argument("--sample", type=int, default=0, help="every k-th mutant only")
    ap.add_argument("--keep", action="store_true")
    ap.add_argument("-j", type=int, default=8)
    a = ap.parse_args()
    ms = [m for m in load() if (not a.prop or m["prop"] == a.prop) and (not a.id or a.id in m["id"])]
    if a.sample:
        ms = ms[::a.sample]
    with ThreadPoolExecutor(a.j) as ex:
        res = list(ex.map(lambda m: run_one(m, a.keep), ms))
    tally = {}
    for m, st, info in res:
        tally[st] = tally.get(st, 0) + 1
        print("%-12s %-4s %-44s expect %s" % (st, m["prop"], m["id"], m["expect"]))
        if st not in ("KILLED",) and info:
            print("    " + info.replace("\n", "\n    "))
    ran = sum(v for k, v in tally.items() if not k.startswith("SKIP"))
    killed = tally.get("KILLED", 0) + tally.get("KILLED-RULE", 0)
    print("%d mutants: %d applied+renamed, %d reported by the rule they name (%d with the exact construct), %d not; skipped %s" % (
        len(res), ran, killed, tally.get("KILLED", 0), ran - killed, {k: v for k, v in tally.items() if k.startswith("SKIP")}))
    sys.exit(0 if ran == killed else 1)

main()
