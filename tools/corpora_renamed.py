#!/usr/bin/env python3
"""The seeded and benign corpora pushed through the renames: each patch of /verif/seeded/*/ and /verif/benign/*/ is applied to
a scratch copy of /repo, the checker runs on it (own property for seeds, all 19 for benign changes), then the scripted
renames (a)+(b)+(c) of renames.sh are applied to that same tree and the checker runs again. The two runs must agree:
the same number of obligations and the same alarms per rule (rule name + count; constructs differ by the renamed
identifiers). A patch that does not apply/build or whose identifiers collide with a new name is skipped.
  usage: corpora_renamed.py seeded|benign [-j N] [--id substr]
"""
import json, os, glob, subprocess, sys, tempfile, shutil, re, argparse
from concurrent.futures import ThreadPoolExecutor
AG = "/tmp/ck/ag10"
ENV = dict(os.environ, GOFLAGS="-mod=mod", GOPROXY="off", GOSUMDB="off", GOTOOLCHAIN="local", GOWORK="off", AG=AG)
CHECK = os.environ.get("UPDOGCHECK", AG + "/updogcheck")
ALL = ["C%02d" % i for i in range(1, 20)]

def check(tree, prop):
    c = subprocess.run([CHECK, "-repo", tree, "-verif", "/verif", "-prop", prop, "-no-evidence"], capture_output=True, text=True)
    rules = {}
    for l in c.stdout.splitlines():
        m = re.match(r"^  (violated|undecided) ([A-Za-z0-9.]+)", l)
        if m:
            k = m.group(1) + " " + m.group(2)
            rules[k] = rules.get(k, 0) + 1
    last = c.stdout.strip().splitlines()[-1] if c.stdout.strip() else c.stderr[-200:]
    n = re.search(r"(\d+) obligations", last)
    return c.returncode, (int(n.group(1)) if n else -1), rules

def one(job):
    kind, d = job
    name = os.path.basename(d)
    props = ALL
    if kind == "seeded":
        props = [json.load(open(os.path.join(d, "meta.json")))["breaks_property"]]
    tmp = tempfile.mkdtemp(prefix="updog-corpren.")
    try:
        subprocess.run(["rsync", "-a", "--exclude", ".git", "/repo/", tmp + "/"], check=True)
        subprocess.run(["git", "init", "-q"], cwd=tmp, check=True)
        pf = os.path.abspath(os.path.join(d, "patch.diff"))
        a = subprocess.run(["git", "apply", pf], cwd=tmp, capture_output=True, text=True)
        if a.returncode != 0:
            a = subprocess.run(["patch", "-p1", "-F3", "--no-backup-if-mismatch", "-i", pf], cwd=tmp, capture_output=True, text=True)
            if a.returncode != 0:
                return name, "SKIP-PATCH", ""
        shutil.rmtree(os.path.join(tmp, ".git"), ignore_errors=True)
        before = {p: check(tmp, p) for p in props}
        r = subprocess.run(["sh", "-c", ". %s/renames.sh; variant_a %s && variant_b %s && variant_c %s" % (AG, tmp, tmp, tmp)], env=ENV, capture_output=True, text=True)
        if r.returncode != 0:
            return name, ("SKIP-NOBUILD" if "package error" in r.stderr else "SKIP-RENAME"), r.stderr.strip()[-200:]
        after = {p: check(tmp, p) for p in props}
        diffs = []
        for p in props:
            if before[p] != after[p]:
                diffs.append("%s: before rc=%d n=%d %s | after rc=%d n=%d %s" % ((p,) + before[p] + after[p]))
        if kind == "seeded" and before[props[0]][0] != 1:
            diffs.append("seed not caught on the unrenamed tree")
        return name, ("SAME" if not diffs else "DIFFERENT"), "\n".join(diffs)
    finally:
        shutil.rmtree(tmp, ignore_errors=True)

def main():
    ap = argparse.ArgumentParser()
    ap.add_argument("kind", choices=["seeded", "benign"])
    ap.add_argument("-j", type=int, default=6)
    ap.add_argument("--id")
    a = ap.parse_args()
    pat = "/verif/%s/*/patch.diff" % a.kind
    ds = sorted(os.path.dirname(p) for p in glob.glob(pat))
    if a.id:
        ds = [d for d in ds if a.id in d]
    with ThreadPoolExecutor(a.j) as ex:
        res = list(ex.map(one, [(a.kind, d) for d in ds]))
    t = {}
    for name, st, info in res:
        t[st] = t.get(st, 0) + 1
        print("%-10s %s" % (st, name))
        if info:
            print("    " + info.replace("\n", "\n    "))
    print("%s: %d changes: %s" % (a.kind, len(res), t))
    sys.exit(0 if t.get("DIFFERENT", 0) == 0 else 1)

main()
