#!/bin/sh
# cmpvariants.sh [variant-dir ...] — all 19 checks on each renamed variant; the last line of each check (obligation count and
# alarms) must equal the line on /repo. Prints only the differences and the alarm lines; "SAME" when a variant matches.
B=${UPDOGCHECK:-/tmp/ck/ag10/updogcheck}
V=${*:-/tmp/ck/ag10/variants/a /tmp/ck/ag10/variants/b /tmp/ck/ag10/variants/c /tmp/ck/ag10/variants/abc}
line() { $B -repo "$1" -verif /verif -prop C$2 -no-evidence | tail -1 | sed 's/ ([0-9.]*s)$//'; }
rc=0
for d in $V; do
	bad=0
	for i in 01 02 03 04 05 06 07 08 09 10 11 12 13 14 15 16 17 18 19; do
		want=$(line /repo $i)
		got=$(line $d $i)
		if [ "$want" != "$got" ]; then
			bad=1; rc=1
			echo "$d C$i: want '$want'"
			echo "$d C$i:  got '$got'"
			$B -repo "$d" -verif /verif -prop C$i -no-evidence | grep -E '^  (violated|undecided)' | cut -c1-${WIDTH:-400}
		fi
	done
	[ $bad = 0 ] && echo "$d: SAME (19 checks silent, obligation counts equal to /repo)"
done
exit $rc
