package convert

import (
	"path/filepath"
	"testing"

	"github.com/akrennmair/updog"
	proto "github.com/akrennmair/updog/proto/updog/v1"
	"github.com/stretchr/testify/require"
)

// defect 14 (C14): structurally incomplete messages crash conversion or execution.
func TestReplay14IncompleteMessages(t *testing.T) {
	fn := filepath.Join(t.TempDir(), "c.updog")
	w := updog.NewIndexWriter(fn)
	_, _ = w.AddRow(map[string]string{"a": "1"})
	require.NoError(t, w.Flush())
	idx, err := updog.OpenIndex(fn)
	require.NoError(t, err)
	defer idx.Close()

	msgs := map[string]*proto.Query{
		"no expr":     {},
		"unset oneof": {Expr: &proto.Query_Expression{}},
		"not w/o op":  {Expr: &proto.Query_Expression{Value: &proto.Query_Expression_Not_{Not: &proto.Query_Expression_Not{}}}},
		"nil in and":  {Expr: &proto.Query_Expression{Value: &proto.Query_Expression_And_{And: &proto.Query_Expression_And{Exprs: []*proto.Query_Expression{{}}}}}},
		"nil wrapper": {Expr: &proto.Query_Expression{Value: &proto.Query_Expression_Eq{}}},
	}
	for name, m := range msgs {
		require.NotPanics(t, func() {
			q := ToQuery(m)
			_, err := idx.Execute(q)
			require.Error(t, err, name)
		}, name)
	}
}
