package queryparser

import (
	"runtime"
	"testing"
	"time"

	"github.com/stretchr/testify/require"
)

// defect 9 (C09): abandoned lexer goroutines.
func TestReplay09GoroutineLeak(t *testing.T) {
	before := runtime.NumGoroutine()
	for i := 0; i < 100; i++ {
		_, _ = ParseQuery(`a = "1" b = "2" c = "3"`)
		_, _ = ParseQuery(`a ^ "b" & c = "d"`)
		_, _ = ParseQuery(`a = "1" & b = "2"`)
	}
	time.Sleep(100 * time.Millisecond)
	require.LessOrEqual(t, runtime.NumGoroutine(), before+2)
}

// defect 10 (C09): trailing input is accepted.
func TestReplay10TrailingInput(t *testing.T) {
	for _, s := range []string{`a="1" & b="2" | c="3"`, `a = "x" )`, `a = "1" b = "2"`, `a = "1" ; b c`, `a = "1" ; b ;`, `a = "x`} {
		q, err := ParseQuery(s)
		require.Error(t, err, s)
		require.Nil(t, q, s)
	}
}

// defect 11 (C09): placeholder numbers wrap.
func TestReplay11PlaceholderRange(t *testing.T) {
	for _, s := range []string{`a = $4294967297`, `a = $99999999999999999999`, `a = $2147483648`} {
		q, err := ParseQuery(s)
		require.Error(t, err, s)
		require.Nil(t, q, s)
	}
	q, err := ParseQuery(`a = $2147483647`)
	require.NoError(t, err)
	require.Equal(t, int32(2147483647), q.Expr.GetEq().Placeholder)
}

// defect 19 (C09): an unterminated string after a complete query (or field list) vanishes from the token stream and
// the shorter query is accepted.
func TestReplay19UnterminatedStringDropped(t *testing.T) {
	for _, s := range []string{`a = "1" "`, `a = "1" "xyz`, `a = "1" ; b, c "`, `a = "1"; b "x`, `(a = "1") "`, `a = "1" & b = "2" "zz`, "a = \"1\" \"tail with \"\" quote"} {
		q, err := ParseQuery(s)
		require.Error(t, err, s)
		require.Nil(t, q, s)
	}
	// strings that end exactly at the end of the input are still fine
	for _, s := range []string{`a = "1"`, `a = ""`, `a = """"`, `a = "x" ; b`} {
		_, err := ParseQuery(s)
		require.NoError(t, err, s)
	}
}
