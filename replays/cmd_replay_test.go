package main

import (
	"os"
	"path/filepath"
	"testing"
	"time"
)

// defect 18 (C19): create --big hangs when it fails before Flush.
func TestReplay18BigModeFailureTerminates(t *testing.T) {
	dir := t.TempDir()
	in := filepath.Join(dir, "bad.csv")
	if err := os.WriteFile(in, []byte("a,b\n1,2\n3\n"), 0600); err != nil {
		t.Fatal(err)
	}
	done := make(chan error, 1)
	go func() {
		done <- createCmd(&globalConfig{}, &createConfig{inputFile: in, outputFile: filepath.Join(dir, "out.updog"), big: true})
	}()
	select {
	case err := <-done:
		if err == nil {
			t.Fatal("malformed CSV accepted")
		}
	case <-time.After(10 * time.Second):
		t.Fatal("create --big hangs on a malformed CSV")
	}
}
