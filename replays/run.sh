#!/bin/sh
# usage: run.sh [git-rev]   — runs the replay programs against a scratch copy of
# /repo (working tree, or the given revision). Documentation only; no registered
# check depends on it. The scratch copy is removed afterwards.
set -u
export GOFLAGS=-mod=mod GOPROXY=off GOSUMDB=off GOTOOLCHAIN=local GOWORK=off
here=$(cd "$(dirname "$0")" && pwd)
tmp=$(mktemp -d /tmp/updog-replay.XXXXXX)
trap 'rm -rf "$tmp"' EXIT
if [ $# -ge 1 ]; then git -C /repo archive "$1" | tar -x -C "$tmp"; else rsync -a --exclude .git /repo/ "$tmp"/; fi
cp "$here/updog_replay_test.go" "$tmp/"
cp "$here/queryparser_replay_test.go" "$tmp/internal/queryparser/"
cp "$here/driver_replay_test.go" "$tmp/driver/"
cp "$here/cmd_replay_test.go" "$tmp/cmd/updog/"
# defect 14's repair changed ToQuery's signature; pick the variant that compiles
if grep -q 'func ToQuery(pbq \*proto.Query) (\*updog.Query, error)' "$tmp/internal/convert/convert.go"; then
  cp "$here/convert_replay_test.go" "$tmp/internal/convert/"
else
  cp "$here/convert_replay_pinned_test.go.txt" "$tmp/internal/convert/convert_replay_test.go"
fi
cd "$tmp" && go test -race -count=1 -timeout 180s -run 'TestReplay' ${RUNARGS:-} ./... 2>&1 | grep -E '^(---|===|ok|FAIL|panic|\s+Error:|\s+Messages:|WARNING: DATA RACE)' | grep -v '=== RUN' 
