package updog

// Replay programs for the defects listed in /verif/DESIGN.md section 5.
// Documentation only: they are NOT part of any registered check. Run with
// /verif/replays/run.sh, which drops them into a scratch copy of /repo.

import (
	"fmt"
	"os"
	"path/filepath"
	"sync"
	"testing"
	"time"

	"github.com/RoaringBitmap/roaring"
	"github.com/stretchr/testify/require"
	"go.etcd.io/bbolt"
)

func replayIndex(t *testing.T, rows []map[string]string, opts ...IndexOption) *Index {
	t.Helper()
	fn := filepath.Join(t.TempDir(), "idx.updog")
	w := NewIndexWriter(fn)
	for _, r := range rows {
		_, err := w.AddRow(r)
		require.NoError(t, err)
	}
	require.NoError(t, w.Flush())
	idx, err := OpenIndex(fn, opts...)
	require.NoError(t, err)
	t.Cleanup(func() { idx.Close() })
	return idx
}

func eq(c, v string) Expression { return &ExprEqual{Column: c, Value: v} }

// defect 1 (C02): sibling groups share one backing array.
func TestReplay01GroupByAlias(t *testing.T) {
	var rows []map[string]string
	for i := 0; i < 4; i++ {
		rows = append(rows, map[string]string{"a": "0", "b": "0", "c": "0", "d": fmt.Sprint(i), "e": "0"})
	}
	idx := replayIndex(t, rows)
	res, err := idx.Execute(&Query{Expr: eq("a", "0"), GroupBy: []string{"a", "b", "c", "d", "e"}})
	require.NoError(t, err)
	require.Len(t, res.Groups, 4)
	for i, g := range res.Groups {
		require.Equal(t, fmt.Sprint(i), g.Fields[3].Value, "group %d", i)
	}
}

// defect 2 (C08/C02/C04): Execute appends to the query's resolved columns.
func TestReplay02ExecuteTwice(t *testing.T) {
	idx := replayIndex(t, []map[string]string{{"a": "1"}, {"a": "2"}})
	q := &Query{Expr: eq("a", "1"), GroupBy: []string{"a"}}
	r1, err := idx.Execute(q)
	require.NoError(t, err)
	r2, err := idx.Execute(q)
	require.NoError(t, err)
	require.Equal(t, r1, r2)
}

// defect 3 (C03): XOR cache keys collide for different meanings.
func TestReplay03CacheKeyCollision(t *testing.T) {
	rows := []map[string]string{{"a": "1"}, {"b": "1"}, {"c": "1"}, {"d": "1"}}
	idx := replayIndex(t, rows, WithCache(NewLRUCache(1<<20)))
	a, b, c := eq("a", "1"), eq("b", "1"), eq("c", "1")
	q1 := &Query{Expr: &ExprAnd{Exprs: []Expression{&ExprOr{Exprs: []Expression{a, c}}, &ExprOr{Exprs: []Expression{b, c}}}}}
	q2 := &Query{Expr: &ExprAnd{Exprs: []Expression{&ExprNot{Expr: a}, &ExprNot{Expr: b}}}}
	r1, err := idx.Execute(q1)
	require.NoError(t, err)
	require.Equal(t, uint64(1), r1.Count)
	r2, err := idx.Execute(q2)
	require.NoError(t, err)
	require.Equal(t, uint64(2), r2.Count)
}

// defect 4 (C04): LRUCache is unsynchronised (run with -race).
func TestReplay04CacheRace(t *testing.T) {
	c := NewLRUCache(4096)
	var wg sync.WaitGroup
	for g := 0; g < 8; g++ {
		wg.Add(1)
		go func(g int) {
			defer wg.Done()
			for i := 0; i < 2000; i++ {
				k := uint64((g*7 + i) % 13)
				if _, ok := c.Get(k); !ok {
					c.Put(k, roaring.BitmapOf(uint32(i)))
				}
			}
		}(g)
	}
	wg.Wait()
}

// defect 5 (C05): value whose key hash is 0 makes the big writer dereference a nil bitmap.
func TestReplay05BigWriterHashZero(t *testing.T) {
	v := "xxxxxx\xac\xda\xfd\xf7\xca\x08|\xdc"
	require.Equal(t, uint64(0), getValueIndex("a", v))
	dir := t.TempDir()
	db, err := bbolt.Open(filepath.Join(dir, "out"), 0600, &bbolt.Options{Timeout: time.Second})
	require.NoError(t, err)
	defer db.Close()
	tdb, err := bbolt.Open(filepath.Join(dir, "tmp"), 0600, &bbolt.Options{Timeout: time.Second})
	require.NoError(t, err)
	defer tdb.Close()
	w, err := NewBigIndexWriter(db, tdb)
	require.NoError(t, err)
	_, err = w.AddRow(map[string]string{"a": v})
	require.NoError(t, err)
	var ferr error
	require.NotPanics(t, func() { ferr = w.Flush() })
	require.NoError(t, ferr)
	idx, err := OpenIndexFromBoltDatabase(db)
	require.NoError(t, err)
	r, err := idx.Execute(&Query{Expr: eq("a", v)})
	require.NoError(t, err)
	require.Equal(t, uint64(1), r.Count)
}

// defect 6 (C06): a committed prefix of WriteToBoltDatabase opens as a complete-looking index.
func TestReplay06CrashPrefixAccepted(t *testing.T) {
	dir := t.TempDir()
	w := NewIndexWriter("")
	const n = 30000
	for i := 0; i < n; i++ {
		_, err := w.AddRow(map[string]string{"u": fmt.Sprint(i)})
		require.NoError(t, err)
	}
	db, err := bbolt.Open(filepath.Join(dir, "out"), 0600, &bbolt.Options{Timeout: time.Second})
	require.NoError(t, err)
	defer db.Close()

	snap := filepath.Join(dir, "snap")
	done := make(chan struct{})
	var took bool
	var wg sync.WaitGroup
	wg.Add(1)
	go func() {
		defer wg.Done()
		for {
			select {
			case <-done:
				return
			default:
			}
			_ = db.View(func(tx *bbolt.Tx) error {
				b := tx.Bucket([]byte("data"))
				if b == nil {
					return nil
				}
				// a committed state that already has bitmaps: what a crash right now leaves on disk
				if k, _ := b.Cursor().Seek([]byte{'V'}); k != nil && !took {
					took = true
					return tx.CopyFile(snap, 0600)
				}
				return nil
			})
			if took {
				return
			}
		}
	}()
	require.NoError(t, w.WriteToBoltDatabase(db))
	close(done)
	wg.Wait()
	if !took {
		t.Skip("no intermediate commit observed")
	}
	full, err := OpenIndexFromBoltDatabase(db)
	require.NoError(t, err)
	var part *Index
	var perr error
	require.NotPanics(t, func() { part, perr = OpenIndex(snap) })
	if perr != nil {
		return // rejected: fine
	}
	defer part.Close()
	for i := 0; i < n; i += 97 {
		q := &Query{Expr: eq("u", fmt.Sprint(i))}
		rf, err := full.Execute(q)
		require.NoError(t, err)
		rp, err := part.Execute(q)
		require.NoError(t, err)
		require.Equal(t, rf.Count, rp.Count, "partial file accepted but misses the bitmap of u=%d", i)
	}
}

// defect 7 (C06/C15): files that are bbolt databases but not indexes make the open function panic.
func TestReplay07OpenValidate(t *testing.T) {
	dir := t.TempDir()
	// (a) no data bucket at all
	fa := filepath.Join(dir, "empty")
	db, err := bbolt.Open(fa, 0600, &bbolt.Options{Timeout: time.Second})
	require.NoError(t, err)
	require.NoError(t, db.Close())
	require.NotPanics(t, func() {
		idx, err := OpenIndex(fa)
		require.Error(t, err)
		require.Nil(t, idx)
	})
	// (b) schema present, counter missing
	fb := filepath.Join(dir, "nocounter")
	w := NewIndexWriter(fb)
	_, _ = w.AddRow(map[string]string{"a": "1"})
	require.NoError(t, w.Flush())
	db, err = bbolt.Open(fb, 0600, &bbolt.Options{Timeout: time.Second})
	require.NoError(t, err)
	require.NoError(t, db.Update(func(tx *bbolt.Tx) error { return tx.Bucket([]byte("data")).Delete(keyNextRowID) }))
	require.NoError(t, db.Close())
	require.NotPanics(t, func() {
		idx, err := OpenIndex(fb)
		require.Error(t, err)
		require.Nil(t, idx)
	})
	// (c) the file must be released after the failed open
	db, err = bbolt.Open(fb, 0600, &bbolt.Options{Timeout: time.Second})
	require.NoError(t, err)
	require.NoError(t, db.Close())
}

// defect 8 (C07): overwriting a key with a larger bitmap escapes the byte bound.
func TestReplay08LRUOverwrite(t *testing.T) {
	c := NewLRUCache(400)
	c.Put(1, roaring.BitmapOf(1))
	big := roaring.New()
	for i := uint32(0); i < 100000; i += 13 {
		big.Add(i)
	}
	require.Greater(t, big.GetSizeInBytes(), uint64(400))
	c.Put(1, big)
	_, ok := c.Get(1)
	require.False(t, ok, "a bitmap larger than the capacity is retrievable")
}

// defect 15 (C15): a failing option leaves the file locked.
func TestReplay15ReleaseOnOptionFailure(t *testing.T) {
	dir := t.TempDir()
	fn := filepath.Join(dir, "idx")
	w := NewIndexWriter(fn)
	_, _ = w.AddRow(map[string]string{"a": "1"})
	require.NoError(t, w.Flush())
	db, err := bbolt.Open(fn, 0600, &bbolt.Options{Timeout: time.Second})
	require.NoError(t, err)
	require.NoError(t, db.Update(func(tx *bbolt.Tx) error {
		var k [8]byte
		return tx.Bucket([]byte("data")).Put(append([]byte{'V'}, k[:]...), []byte("garbage"))
	}))
	require.NoError(t, db.Close())
	_, err = OpenIndex(fn, WithPreloadedData())
	require.Error(t, err)
	db, err = bbolt.Open(fn, 0600, &bbolt.Options{Timeout: time.Second})
	require.NoError(t, err, "file still locked after a failed open")
	require.NoError(t, db.Close())
	_ = os.Remove(fn)
}

// defect 17 (C15): a bitmap key of the wrong length makes preloading panic.
func TestReplay17ShortBitmapKey(t *testing.T) {
	fn := filepath.Join(t.TempDir(), "idx")
	w := NewIndexWriter(fn)
	_, _ = w.AddRow(map[string]string{"a": "1"})
	require.NoError(t, w.Flush())
	db, err := bbolt.Open(fn, 0600, &bbolt.Options{Timeout: time.Second})
	require.NoError(t, err)
	require.NoError(t, db.Update(func(tx *bbolt.Tx) error {
		return tx.Bucket([]byte("data")).Put([]byte{'V', 1, 2, 3}, []byte{})
	}))
	require.NoError(t, db.Close())
	require.NotPanics(t, func() {
		_, err = OpenIndex(fn, WithPreloadedData())
		require.Error(t, err)
	})
}
