package driver

import (
	"database/sql"
	"path/filepath"
	"sync"
	"testing"
	"time"

	"github.com/akrennmair/updog"
	"github.com/stretchr/testify/require"
)

func replayFile(t *testing.T) string {
	fn := filepath.Join(t.TempDir(), "d.updog")
	w := updog.NewIndexWriter(fn)
	for _, r := range []map[string]string{{"a": "1", "b": "2"}, {"a": "1", "b": "3"}, {"a": "5", "b": "2"}} {
		_, err := w.AddRow(r)
		require.NoError(t, err)
	}
	require.NoError(t, w.Flush())
	return fn
}

// defect 12 (C11): too few arguments panic on the direct query path.
func TestReplay12TooFewArgs(t *testing.T) {
	db, err := sql.Open("updog", "file:"+replayFile(t))
	require.NoError(t, err)
	defer db.Close()
	require.NotPanics(t, func() {
		rows, err := db.Query(`a = $1 & b = $2`, "1")
		require.Error(t, err)
		require.Nil(t, rows)
	})
}

// defect 13 (C12): group-by with no matching group must yield no rows.
func TestReplay13NoGroupNoRows(t *testing.T) {
	db, err := sql.Open("updog", "file:"+replayFile(t))
	require.NoError(t, err)
	defer db.Close()
	rows, err := db.Query(`a = "zzz" ; b`)
	require.NoError(t, err)
	n := 0
	for rows.Next() {
		n++
	}
	require.NoError(t, rows.Close())
	require.Equal(t, 0, n)
}

// defect 16a (C17): reopen after the last handle was closed.
func TestReplay16Reopen(t *testing.T) {
	fn := replayFile(t)
	for i := 0; i < 3; i++ {
		db, err := sql.Open("updog", "file:"+fn)
		require.NoError(t, err)
		var n int64
		require.NotPanics(t, func() {
			require.NoError(t, db.QueryRow(`a = "1"`).Scan(&n))
		})
		require.Equal(t, int64(2), n)
		require.NoError(t, db.Close())
	}
}

// defect 16b (C17): concurrent first use of a fresh handle.
func TestReplay16ConcurrentFirstUse(t *testing.T) {
	fn := replayFile(t)
	db, err := sql.Open("updog", "file:"+fn)
	require.NoError(t, err)
	done := make(chan struct{})
	go func() {
		var wg sync.WaitGroup
		for g := 0; g < 16; g++ {
			wg.Add(1)
			go func() {
				defer wg.Done()
				var n int64
				_ = db.QueryRow(`a = "1"`).Scan(&n)
			}()
		}
		wg.Wait()
		close(done)
	}()
	select {
	case <-done:
	case <-time.After(10 * time.Second):
		t.Fatal("concurrent first use hangs")
	}
	require.NoError(t, db.Close())
}
