#!/bin/sh
# usage: ./run.sh <quick|thorough> <Cnn>      run one property's static check against /repo's working tree
#        ./run.sh explain <replay.json>       show a replay file and re-run its property
# Exit 0: every obligation discharged (or listed as known finding); exit 1 + "VIOLATION property=… replay=…" otherwise.
set -u
cd "$(dirname "$0")"
export GOFLAGS=-mod=mod GOPROXY=off GOSUMDB=off GOTOOLCHAIN=local GOWORK=off
unset GOWORK_FILE 2>/dev/null || true
REPO=${VERIF_REPO:-/repo}
if [ ! -x bin/updogcheck ] || [ -n "$(find checker -name '*.go' -newer bin/updogcheck 2>/dev/null | head -1)" ]; then
  mkdir -p bin
  (cd checker && go build -o ../bin/updogcheck .) || { echo "cannot build checker" >&2; exit 2; }
fi
case "${1:-}" in
  quick|thorough) exec bin/updogcheck -repo "$REPO" -verif "$(pwd)" -tier "$1" -prop "$2" ;;
  explain) exec bin/updogcheck -repo "$REPO" -verif "$(pwd)" -explain "$2" ;;
  *) echo "usage: $0 <quick|thorough|explain> <Cnn|replay.json>" >&2; exit 2 ;;
esac
