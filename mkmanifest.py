#!/usr/bin/env python3
"""Regenerates MANIFEST.json from the table below (kept in one place so it stays valid and in sync with the checker)."""
import json, os
HERE = os.path.dirname(os.path.abspath(__file__))
props = [json.loads(l) for l in open(os.path.join(HERE, "properties.jsonl"))]

# id -> (technique, level text, level note (what is NOT decided / trusted), design ref)
CHECKS = {
 "C01": ("table agreement of the binary codecs and of the key function between writers, schema and the equality test + SSA shape of the NOT universe and provenance of the row count + dominating-guard rules (unknown column, nil bitmap) + shape/must-pass rules of AND/OR operand combination + the typestate/row-id rules shared with C05/C18 + who-may-write rules (no package-level state) + linear-bound refutation of truncating buffers in the value-index hash + traversal exhaustiveness of the column check",
         "Static, for all datasets, expressions, writers and open modes: a pair's bitmap is written and looked up under the same hash of (column, value) with the same encoding; NOT complements over exactly [0, persisted row count) and the persisted count is the writers' AddRow counter; unknown columns yield errors; possibly-missing bitmaps are nil-guarded; AND/OR combine exactly all operands' results with an intersection/union; no in-place mutation of shared bitmaps.",
         "Not decided: numerical correctness of cardinalities (roaring); hash collisions and NUL bytes in column names (excluded by the property).", "DESIGN.md §4 C01"),
 "C02": ("loop-invariant append-base analysis over natural loops (aliasing) + map-iteration-order rule (sorted before use, ascending string comparison) + dominating-guard rules (unknown column error, non-zero cardinality) + provenance of each group field + the write/freshness census shared with C08 and the in-place-mutation rule shared with C03 + must-pass-through of the group-by resolution before every successful return",
         "Static, for all datasets, expressions and group-by lists: sibling groups cannot share a backing array; per-level values are sorted ascending; unknown columns are errors; only non-empty refinements become groups; each field names its level's column and refining value; Execute keeps no state in the Query and mutates no shared bitmap.",
         "Not decided: exact counts and tuple sets (values); lexicographic order of the whole list (follows from nested sorted iteration).", "DESIGN.md §4 C02"),
 "C03": ("interprocedural taint of operand cache keys to a hash sink + SSA shape of Get/Put key pairing + effect/freshness census of bitmap mutators over the call graph + who-may-use-the-cache census + element-loop checks of the key list (one key per operand, whole list hashed) + leaf-key field coverage + escape rule for values that may hold a cache option (kept in maps/fields/globals)",
         "Static, for all query sequences and cache sizes: operand keys reach the returned key only through an injective encoding hashed together with a distinct per-operator tag (no arithmetic combiner); each eval looks up/stores under its own key and stores exactly what it returns; no reachable code mutates a bitmap it did not create; index state is written only while opening. These are necessary conditions for cache transparency, decided on every path; the behavioural equality itself is not executed or proven.",
         "Not decided: result equality with an uncached index as such; 64-bit collisions; LRU policy (C07). Trusted: roaring API classification, xxhash, go/ssa, call graph over-approximation.", "DESIGN.md §4 C03"),
 "C04": ("must-hold lock-state dataflow over SSA with exact defer replay + write/freshness census over the call graph from the concurrent entry points + lock-balance path search + in-place-mutation rule on shared bitmaps + alias/escape analysis of sync.Pool objects against their Put + no-mutable-package-state census",
         "Static, for all schedules: every write to shared memory reachable from Execute/GetSchema/LRUCache.Get/Put is inside an exclusive critical section of a mutex on its access path and every read of such memory holds it; index, schema, getters, Query and globals are not written at all; only read-only bbolt transactions. This proves race freedom of updog's own memory rather than sampling interleavings.",
         "Not decided: sequential-equivalence of results (follows from race freedom + C03.pure, not checked as such). Trusted: sync primitives, thread-safety of concurrent reads in roaring/bbolt/prometheus.", "DESIGN.md §4 C04"),
 "C05": ("path-sensitive typestate exploration of the writers' flush functions (bitmap nil/dirty/persisted; transaction/bucket lifetime) + table agreement of the binary codecs and of the gob schema encoding + map-order rule on GetSchema + must-pass-through of the temp commit + must-pass-through (lookup-present edge or map insertion) in schema.add + the row-id rules shared with C18 + who-may-write rules (package state, bucket fields) + def-use rule on decoded row ids",
         "Static, for all AddRow sequences and both writers: ids come from a counter that only steps by one under the lock; every pair of a row is registered; in the big writer's merge loop no bitmap is used while nil or dropped before it is written (all paths of the unrolled loop); no transaction or bucket is used after its Commit; codecs, schema encoding and the persisted row counter agree between writers and the open function; GetSchema sorts what it collects from maps.",
         "Not decided: observational identity of the two writers' outputs; exact schema/value sets (values). Trusted: bbolt tx semantics, roaring serialisation, gob.", "DESIGN.md §4 C05"),
 "C06": ("must-pass-through path search on the SSA CFG of both writers' flush functions (header puts / commits / bitmap puts keyed by the resolved key variables) + dominating-guard and error-flow rules in the open function + release / transaction-end path rules shared with C15 + length guards on bytes read from the file",
         "Static, for every crash point at commit granularity: on no path can a transaction holding the schema or row counter be committed before the last bitmap put; the two header keys share a transaction and every success return has committed them; the open function nil-guards the bucket, length-guards every binary decode and propagates decode errors. So every committed prefix is rejected by OpenIndex with an error, on all paths including ones that need a crash to execute.",
         "Not decided: equality of answers of a completely written file (C05); sub-transaction crash points. Trusted: bbolt commit atomicity, gob fails on an empty schema item.", "DESIGN.md §4 C06"),
 "C09": ("typestate of the lexer channel (close on every exit of the goroutine, drain deferred on every path of ParseQuery) + edge-cut path search for the end-of-input test with NORETURN summaries + value-range provenance of the placeholder number + table of panic operand types + structural resolution of the lexer/parser entities + consume/emit pairing per lexer state + phi-sensitive path search for unterminated tokens + result-cell rule for the recovering parse function + operator-kind evaluation of operand loops (loop-header test interpreted for every token-kind constant, through predicates and constant maps) + increment/decrement balance of parser counters",
         "Static, for every input string: no parse can leave the lexer goroutine blocked; no query is returned on a path that has not seen the end-of-input token; the placeholder number cannot wrap when narrowed to int32; every panic raised by the parser is an error value caught by ParseQuery's recover handler.",
         "Not decided: language equality with the EBNF and tree shape; runtime-panic freedom of the lexer's index arithmetic; termination (all need numeric/language reasoning not available statically here).", "DESIGN.md §4 C09"),
 "C10": ("symbolic execution of each operator formatter's CFG under an assumed operand kind (kind tests resolved, other branches explored both ways) checked against the parenthesisation table derived from the parser + constant-table agreement of quoting between formatter and parser + single-token-kind rule for the identifier state + provenance of stored column names",
         "Static, for all query trees: every oneof kind is formatted; an AND/OR operand of NOT, an OR operand of AND and an AND operand of OR are bracketed on every path, brackets always balance; quoting constants of formatter and parser are inverse; comparison/placeholder/group-by formats are the ones the lexer reads. Necessary conditions of the round trip, on all paths.",
         "Not decided: the round-trip equality and format∘parse fixpoint themselves (need the parser's accepted language, C09's undecided clause).", "DESIGN.md §4 C10"),
 "C19": ("SSA provenance of each csv record to exactly one AddRow (edge-cut path search per Read site) + shape rule on the header/record index + range analysis of the rune mapper + error-flow with the io.EOF exception + open-site option evaluation (reader state followed through helper types) + provenance of the csv delimiter to a flag default",
         "Static, for all CSV files and both modes: strict csv defaults untouched; the first record and only it is the header; every other successfully read record becomes values[header[i]]=record[i] over the whole record and reaches exactly one AddRow; normalisation keeps a-z and maps the rest to '_' after lower-casing; all failures reach a non-zero exit; success implies Flush; output opened O_EXCL.",
         "Not decided: normal vs --big observational identity (C05); csv parsing (encoding/csv, trusted).", "DESIGN.md §4 C19"),
 "C11": ("ownership (freshness) census of every store to generated message structs program-wide + symbolic index-bounds check (dominating comparisons over loads of the same field path with linear offsets) + edge-cut path search for the arity test + callback-never-stops rule for the placeholder walk + provenance of the statement's parsed query + write census on prepared-statement objects",
         "Static, for every query text, argument list and execution history: binding writes only into the deep copy; no code outside the generated package modifies a message it did not create, so statement templates are immutable; the argument slice is indexed only under 0 <= n-1 < len; both statement kinds test the argument count before binding on every path.",
         "Not decided: that argument n lands in $n for all n (value-level). Trusted: proto.Clone deep-copies; database/sql argument order.", "DESIGN.md §4 C11"),
 "C12": ("dominating-guard rule on the total-count row + error-flow rule over all error-returning calls of the driver + table/shape rules on the column list, the column-type split and Rows.Next + freshness of row storage + positional placement of group values + write census on prepared-statement objects + cache-option escape rule",
         "Static, for all datasets/queries/options: the single total row is built only when the group-by list is empty; every error from parsing, conversion, execution, opening and the RPC propagates; columns are group-by columns then \"count\", typed TEXT/BIGINT with the split at len(cols)-1, and Next places values and count accordingly.",
         "Not decided: equality of row values/order with the library result (values). Trusted: database/sql's use of the Rows interface.", "DESIGN.md §4 C12"),
 "C13": ("table agreement of converter field mappings and oneof case coverage (typed SSA stores) + SSA provenance chain of the appended response element + must-pass-through of the append per iteration + error-flow (obligations followed through helper functions with parameter binding; nodes built through summarised constructor functions)",
         "Static, for all batches: converters map each field to its namesake (reviewed exceptions) and set every exported field; every oneof wrapper has a case yielding the matching node with its own operands in order; each loop iteration appends exactly its own query's converted result with the right id; errors yield a nil response; both driver paths build rows the same way.",
         "Not decided: equality of counts/groups with the library (values); wire encoding losslessness (trusted).", "DESIGN.md §4 C13"),
 "C14": ("interprocedural nil-ability analysis of protobuf message pointers (fixpoint over call sites) with dominating nil guards + non-nil-by-construction check of conversion results + error-flow in the handler + interval refutation of re-slicing bounds + non-zero divisors + non-nil results of eval + constructor summaries (always-fresh results)",
         "Static, for every decodable request: every dereference of a possibly-nil message pointer reachable from the handler is nil-guarded; conversion never yields a nil Expression without an error and operands are used only when their conversion succeeded; handler errors become RPC errors. Necessary because grpc-go does not recover handler panics.",
         "Not decided: recursion depth for deeply nested expressions (bounded by protobuf-go/gRPC limits, trusted); continued correct service afterwards beyond lock release (C04).", "DESIGN.md §4 C14"),
 "C15": ("constant-option evaluation of the open hook + dominating nil/length guards + error-flow + must-pass-through (Close before every error return; Rollback/Commit after every explicit Begin) on the open functions + lock-balance + transaction-end ordering (LIFO defers) + options-after-validation",
         "Static, for every damaged file and every open/close sequence: OpenIndex cannot create a missing file; every dereference/decoding of file contents while opening is dominated by the matching guard and every decode error is propagated; every error return of the open function is preceded by a Close of the handle on all paths; Index.Close is nil-guarded and resets the handle.",
         "Not decided: which byte patterns fail to decode; panics inside bbolt/roaring on malformed bytes (trusted not to occur).", "DESIGN.md §4 C15"),
 "C17": ("must-hold lock-state dataflow on the driver's connection cache + same-critical-section path search (no unlock between lookup, OpenIndex and insert) + must-pass-through of the eviction before Index.Close + who-may-change-the-refcount + shared-connection field writes under the driver mutex + open/close pairing of driver maps",
         "Static, for every open/close/concurrent-use history: cache accesses hold the driver mutex; lookup, index open, insert and refcount increment form one exclusive critical section; the last Close evicts the connection in the critical section of the decrement before closing the index.",
         "Not decided: row correctness on an open handle (C12); two DSNs naming one file with different options (second open blocks on bbolt's flock; see DESIGN.md). Trusted: database/sql's calling conventions, bbolt flock.", "DESIGN.md §4 C17"),
 "C07": ("SSA provenance of the returned/stored/deleted entries (key matching) + must-pass-through of the map lookup and of the overwrite store in Put, of MoveToFront and of the eviction loop + term-set agreement of all byte-counter updates + path rules for the metric counters",
         "Static, for all Put/Get sequences and capacities: Get returns the bitmap found under the requested key; every use moves the element to the front and eviction removes the back; all counter updates use the same cost expression and the item size is refreshed whenever a bitmap is stored (also on overwrite); every increase is followed by the eviction loop, which runs while over capacity and non-empty; call/hit/miss counters are incremented exactly once on the matching paths.",
         "Not decided: that GetSizeInBytes equals the real memory size; 'nothing evicted while everything fits' as arithmetic. Trusted: container/list.", "DESIGN.md §4 C07"),
 "C08": ("effect analysis: census of stores/map updates/mutating calls over everything reachable from Execute, with local freshness (ownership) analysis + no package-level state keyed by the Query",
         "Static, for all queries and execution histories: no instruction reachable from Execute writes a field of Query or of an expression node, or memory reachable from one, unless that memory was allocated during the call. Sufficient for 'caller-visible fields unchanged' under the stated trusted base.",
         "Not decided: equality of repeated results (needs C03.pure + determinism). Trusted: no reflection/unsafe in the reachable set (asserted), go/ssa, call graph.", "DESIGN.md §4 C08"),
 "C16": ("who-may-call census of bbolt.Open sites with constant-folded open options evaluated through openfile.OpenFile's CFG + callee deny-list over the call graph from all read entry points + who-may-call rule for path-destroying os calls on output paths (dominated-by-own-exclusive-create exemption)",
         "Static, for all file contents and query sequences: every output open carries O_EXCL, every input/scratch open clears O_CREATE (decided by evaluating OpenFile's branches on the site's constant options and the flag arithmetic of the returned hook); no bbolt write API or file-mutating os call is reachable from open/execute/schema/close, the driver's file connection or the gRPC handler.",
         "Not decided: byte-for-byte equality as such. Trusted: bbolt.Open(read-write) does not modify a well-formed file; OS O_EXCL semantics; call graph over-approximation.", "DESIGN.md §4 C16"),
 "C18": ("must-hold lock-state dataflow (exclusive mode, callee context propagation, LIFO defer replay) + SSA value identity of the row id + path enumeration of counter increments + lock-balance + alias/escape analysis of sync.Pool objects against their Put",
         "Static, for all interleavings and both writers: every access to writer/schema state reachable from AddRow is under the writer's mutex held exclusively; the id used for all of a row's values is the SSA value returned; the counter is only ever incremented by one and exactly once on every successful path.",
         "Not decided: equality with the sequentially built index (follows from mutual exclusion + commutativity of bitmap Add). Trusted: sync.Mutex, bbolt single-goroutine write tx.", "DESIGN.md §4 C18"),
}

checks = []
for p in props:
    pid = p["id"]
    if pid not in CHECKS:
        continue
    tech, text, note, ref = CHECKS[pid]
    checks.append({
        "property_id": pid,
        "quick_cmd": "./run.sh quick %s" % pid,
        "thorough_cmd": "./run.sh thorough %s" % pid,
        "evidence_file": "/verif/evidence/%s.json" % pid,
        "replay_cmd_template": "./run.sh explain {path}",
        "engine": "updogcheck",
        "level_claimed": {"category": "other", "text": text, "design_ref": ref},
        "level_note": note,
        "technique": "static analysis: " + tech,
    })

manifest = {
    "version": 1,
    "setup_cmd": "./setup.sh",
    "hooks": {
        "guard": "verif",
        "enable": "none needed: the checks are static and read /repo's sources; the thorough tier loads /repo a second time with -tags verif so that a file guarded by that tag cannot hide from the rules",
        "baseline_off_cmd": "cd /repo && go test -mod=mod -vet=off -count=1 -timeout 25m ./...",
        "source_commits": [],
        "add_only": True,
    },
    "engines": [{
        "name": "updogcheck", "path": "/verif/checker",
        "serves_properties": [c["property_id"] for c in checks],
        "kind_free_text": "repository-specific static analyzer (go/packages + go/ssa + call graph, x/tools v0.29.0): lock-state dataflow, must-pass-through path search, dominating-guard finder, effect/freshness census, taint, table agreement; never executes updog code",
    }],
    "checks": checks,
    "not_applicable": [{"property_id": p["id"], "reason": "static rules for this property are designed (DESIGN.md §4) but not built/validated yet; not claimed until they are"}
                       for p in props if p["id"] not in CHECKS],
    "notes": "All checks are static (no test, fuzzer or solver runs). Each decides named structural clauses that are necessary conditions of the property and states what is not decided (level_note, evidence coverage.explanation). 17 genuine defects found while building were repaired in /repo ('fix:' commits) and are listed in known_findings.txt as fixed: lines, which suppress nothing.",
}
json.dump(manifest, open(os.path.join(HERE, "MANIFEST.json"), "w"), indent=1)
print("checks:", [c["property_id"] for c in checks])
